#!/usr/bin/env python3
"""store_seed.py <src out dir> <dest id> <with line> <without line> <first_try json> [<after json>]

Copies a seeded change delivered by a sub-agent (patch.diff, demo.diff, demo files, meta.json) into
/verif/seeded/<dest id>/ and records the orchestrator's own confirmation and the check results.
"""
import json
import os
import shutil
import sys

src, dest, w, wo, first = sys.argv[1:6]
after = sys.argv[6] if len(sys.argv) > 6 else None
root = os.path.join(os.path.dirname(os.path.dirname(os.path.abspath(__file__))), "seeded", dest)
os.makedirs(root, exist_ok=True)
for d, _, files in os.walk(src):
    for name in files:
        shutil.copy(os.path.join(d, name), os.path.join(root, name))
mp = os.path.join(root, "meta.json")
try:
    meta = json.load(open(mp))
except Exception:
    meta = {}
meta.setdefault("origin", "independent sub-agent given only the property text and a scratch worktree of /repo (no access to /verif)")
meta["orchestrator_confirmation"] = {"demo_with_change": w, "demo_without_change": wo}
meta["check_result_at_first_try"] = json.loads(first)
if after:
    meta["after_strengthening"] = json.loads(after)
json.dump(meta, open(mp, "w"), indent=1, ensure_ascii=False)
print("stored", root, sorted(os.listdir(root)))
