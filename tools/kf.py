#!/usr/bin/env python3
"""kf.py fixed Cxx <commit> <what>   |   kf.py known Cxx <fingerprint> <what>"""
import json,sys
p='/verif/known_findings.json'
k=json.load(open(p))
kind,prop=sys.argv[1],sys.argv[2]
if kind=='fixed':
    commit,what=sys.argv[3],sys.argv[4]
    k['findings'].append({"status":"fixed","property":prop,"commit":commit,"entry":f"fixed: property={prop} {commit} {what}"})
else:
    fp,what=sys.argv[3],sys.argv[4]
    k['findings'].append({"status":"known","property":prop,"fingerprint":fp,"what":what})
json.dump(k,open(p,'w'),indent=1,ensure_ascii=False)
