#!/usr/bin/env python3
"""Regenerates /verif/MANIFEST.json from tools/registry.py + tools/manifest_meta.py + properties.jsonl."""
import json, os, sys
ROOT = os.path.dirname(os.path.dirname(os.path.abspath(__file__)))
sys.path.insert(0, os.path.join(ROOT, "tools"))
from registry import REGISTRY
from manifest_meta import META
try:
    from manifest_meta import NOT_APPLICABLE
except ImportError:
    NOT_APPLICABLE = {}
try:
    from manifest_meta import HOOK_COMMITS
except ImportError:
    HOOK_COMMITS = []
props = [json.loads(l) for l in open(os.path.join(ROOT, "properties.jsonl"))]
checks, na = [], []
for p in props:
    pid = p["id"]
    if pid in REGISTRY and pid in META:
        m, r = META[pid], REGISTRY[pid]
        checks.append({
            "property_id": pid,
            "quick_cmd": f"./check {pid} --tier quick",
            "thorough_cmd": f"./check {pid} --tier thorough",
            "evidence_file": f"/verif/evidence/{pid}.json",
            "replay_cmd_template": f"./check {pid} --replay {{path}}",
            "engine": r["bin"],
            "level_claimed": {"category": m["category"], "text": m["text"], "design_ref": m.get("design_ref", "")},
            "level_note": m["note"],
            "technique": m["technique"],
        })
    else:
        na.append({"property_id": pid, "reason": NOT_APPLICABLE.get(pid, "check not built yet in this session (work in progress; see DESIGN.md §8 build order)")})
engines = {}
for pid, r in REGISTRY.items():
    if pid in META:
        engines.setdefault(r["bin"], {"name": r["bin"], "path": f"/verif/{r['ws']}/{r['pkg']}", "serves_properties": [], "kind_free_text": ""})["serves_properties"].append(pid)
man = {
    "version": 1,
    "setup_cmd": "./check --setup",
    "hooks": {
        "guard": "cargo feature verif-hooks (default off) on the /repo crates",
        "enable": "the harness workspaces depend on /repo/crates/* by path with features=[\"verif-hooks\"]",
        "baseline_off_cmd": "./tools/baseline.sh",
        "source_commits": HOOK_COMMITS,
        "add_only": True,
    },
    "engines": sorted(engines.values(), key=lambda e: e["name"]),
    "checks": checks,
    "not_applicable": na,
    "notes": "All checks are bounded-exhaustive explorations of the real code (see DESIGN.md). known_findings.json lists recorded defects (known) and repairs (fixed).",
}
json.dump(man, open(os.path.join(ROOT, "MANIFEST.json"), "w"), indent=1, ensure_ascii=False)
print(f"MANIFEST.json: {len(checks)} checks, {len(na)} not claimed")
