"""property id -> how its check is built and run.
ws: cargo workspace ("harness" | "sched"); pkg/bin: cargo package and binary; level: evidence level."""

def _e(ws, pkg, level, **kw):
    d = {"ws": ws, "pkg": pkg, "bin": pkg, "level": level}
    d.update(kw)
    return d

import re as _re

def _c38_build_failure(out):
    """A build failure inside the H3 obligation module IS C38's violation (a component of the
    shared analysis is not Send/Sync on its own, or a new field escaped the obligations)."""
    if "verif_assert_sync" not in out:
        return None
    viol = []
    for m in _re.finditer(r"error\[E0277\]: `([^`]+)` cannot be (sent|shared) between threads", out):
        viol.append(("not-thread-safe", m.group(1), f"`{m.group(1)}` cannot be {m.group(2)} between threads safely, yet it is reachable from the shared EmmyLuaAnalysis"))
    for m in _re.finditer(r"error\[E0027\]: pattern does not mention field `([^`]+)`", out):
        viol.append(("field-without-obligation", m.group(1), f"EmmyLuaAnalysis has a new field `{m.group(1)}` that no Send+Sync obligation covers"))
    if not viol:
        return None
    seen, vs = set(), []
    for sig, ty, detail in viol:
        if (sig, ty) in seen:
            continue
        seen.add((sig, ty))
        import json as _j
        w = {"type": ty}
        vs.append({"fingerprint": f"C38:{sig}:{_j.dumps(w)}", "signature": sig, "witness": w, "detail": detail, "raw_cases": 1})
    return {"property_id": "C38", "tier": "quick", "seed": 0, "level": "exploration", "evaluations": len(vs) + 1, "distinct_nontrivial": max(2, len(vs)),
            "rule": "compile-time Send+Sync obligations of hook H3 (verif_assert_sync); the build failed inside the obligation module", "samples": [v["witness"] for v in vs],
            "outcomes": {"obligation-failed": len(vs)}, "exhaustive": False, "bounds": None, "assumptions": [], "extra": {}, "violations": vs, "raw_violating_cases": len(vs)}

REGISTRY = {
    "C01": _e("harness", "eng_parser", "exploration"),
    "C02": _e("harness", "eng_parser", "exploration"),
    "C35": _e("harness", "eng_cli", "model_checking", build=["eng_cli", "emmylua_doc_cli"]),
    "C36": _e("harness", "eng_cli", "model_checking", build=["eng_cli", "emmylua_check"]),
    "C39": _e("harness", "eng_cli", "fault_enumeration", build=["eng_cli", "emmylua_formatter"]),
    "C08": _e("harness", "eng_state", "model_checking"),
    "C09": _e("harness", "eng_state", "model_checking"),
    "C10": _e("harness", "eng_state", "model_checking"),
    "C11": _e("harness", "eng_state", "model_checking"),
    "C33": _e("harness", "eng_state", "model_checking"),
    "C03": _e("harness", "eng_parser", "exploration"),
    "C04": _e("harness", "eng_parser", "model_checking"),
    "C12": _e("harness", "eng_types", "exploration"),
    "C16": _e("harness", "eng_types", "exploration"),
    "C17": _e("harness", "eng_types", "exploration"),
    "C18": _e("harness", "eng_types", "exploration"),
    "C19": _e("harness", "eng_diag", "exploration"),
    "C20": _e("harness", "eng_diag", "exploration"),
    "C21": _e("harness", "eng_diag", "exploration"),
    "C13": _e("harness", "eng_flow", "exploration"),
    "C15": _e("harness", "eng_flow", "exploration"),
    "C41": _e("harness", "eng_flow", "exploration"),
    "C31": _e("harness", "eng_cfg", "exploration"),
    "C32": _e("harness", "eng_cfg", "model_checking"),
    "C05": _e("harness", "eng_fmt", "exploration"),
    "C06": _e("harness", "eng_fmt", "exploration"),
    "C07": _e("harness", "eng_fmt", "exploration"),
    "C27": _e("sched", "eng_sched", "model_checking"),
    "C28": _e("sched", "eng_sched", "model_checking"),
    "C29": _e("sched", "eng_sched", "model_checking"),
    "C30": _e("sched", "eng_sched", "model_checking"),
    "C22": _e("harness", "eng_text", "exploration"),
    "C23": _e("harness", "eng_text", "exploration"),
    "C34": _e("harness", "eng_text", "exploration"),
    "C37": _e("harness", "eng_text", "exploration"),
    "C40": _e("harness", "eng_text", "exploration"),
}
# C24 is decided by two engines: in-process input enumeration (eng_lsp) and cancellation races
# under the controlled scheduler (eng_sched); until eng_lsp is integrated only the latter runs
REGISTRY["C38"] = _e("harness", "eng_sync", "exploration", build_failure_hook=_c38_build_failure)
REGISTRY["C24"] = {"ws": "sched", "pkg": "eng_sched", "bin": "eng_sched", "level": "model_checking",
                   "parts": [_e("sched", "eng_sched", "model_checking")]}
# eng_lsp: in-process server over lsp_server::Connection::memory() (hook H4)
REGISTRY["C14"] = _e("harness", "eng_lsp", "exploration")
REGISTRY["C25"] = _e("harness", "eng_lsp", "exploration")
REGISTRY["C26"] = _e("harness", "eng_lsp", "exploration")
# C24 part (a): in-process enumeration of request sequences (invoked as `eng_lsp --prop C24`)
REGISTRY["C24"]["parts"].append(_e("harness", "eng_lsp", "exploration"))
