"""property id -> how its check is built and run.
ws: cargo workspace ("harness" | "sched"); pkg/bin: cargo package and binary; level: evidence level."""

def _e(ws, pkg, level, **kw):
    d = {"ws": ws, "pkg": pkg, "bin": pkg, "level": level}
    d.update(kw)
    return d

REGISTRY = {
    "C01": _e("harness", "eng_parser", "exploration"),
    "C02": _e("harness", "eng_parser", "exploration"),
    "C35": _e("harness", "eng_cli", "model_checking", build=["eng_cli", "emmylua_doc_cli"]),
    "C36": _e("harness", "eng_cli", "model_checking", build=["eng_cli", "emmylua_check"]),
    "C39": _e("harness", "eng_cli", "fault_enumeration", build=["eng_cli", "emmylua_formatter"]),
    "C08": _e("harness", "eng_state", "model_checking"),
    "C09": _e("harness", "eng_state", "model_checking"),
    "C10": _e("harness", "eng_state", "model_checking"),
    "C11": _e("harness", "eng_state", "model_checking"),
    "C33": _e("harness", "eng_state", "model_checking"),
    "C03": _e("harness", "eng_parser", "exploration"),
    "C04": _e("harness", "eng_parser", "model_checking"),
    "C12": _e("harness", "eng_types", "exploration"),
    "C16": _e("harness", "eng_types", "exploration"),
    "C17": _e("harness", "eng_types", "exploration"),
    "C18": _e("harness", "eng_types", "exploration"),
    "C19": _e("harness", "eng_diag", "exploration"),
    "C20": _e("harness", "eng_diag", "exploration"),
    "C21": _e("harness", "eng_diag", "exploration"),
    "C13": _e("harness", "eng_flow", "exploration"),
    "C15": _e("harness", "eng_flow", "exploration"),
    "C41": _e("harness", "eng_flow", "exploration"),
    "C31": _e("harness", "eng_cfg", "exploration"),
    "C32": _e("harness", "eng_cfg", "model_checking"),
    "C05": _e("harness", "eng_fmt", "exploration"),
    "C06": _e("harness", "eng_fmt", "exploration"),
    "C07": _e("harness", "eng_fmt", "exploration"),
}
