"""property id -> how its check is built and run.
ws: cargo workspace ("harness" | "sched"); pkg/bin: cargo package and binary; level: evidence level."""

def _e(ws, pkg, level, **kw):
    d = {"ws": ws, "pkg": pkg, "bin": pkg, "level": level}
    d.update(kw)
    return d

REGISTRY = {
    "C01": _e("harness", "eng_parser", "exploration"),
    "C02": _e("harness", "eng_parser", "exploration"),
}
