#!/bin/bash
# dev helper: ./tools/c28run.sh "<only>" [extra args]
cd /verif/sched
timeout 1200 ./target/verif/eng_sched --prop C28 --tier quick --out /tmp/c28.json --work /verif/.work/sched-test --wall ${WALL:-300} --only "$1" "${@:2}" 2>&1 | tail -5; python3 -c "
import json
r=json.load(open('/tmp/c28.json'))
print({k:r[k] for k in ['evaluations','exhaustive','bounds','outcomes','wall_s']})
print({k:r['extra'][k] for k in ['states','transitions','schedules','decision_points_pruned_by_state_matching']})
for v in r['violations'][:40]: print(v['raw_cases'], v['fingerprint'][:200], '|', v['detail'][:600])
"
