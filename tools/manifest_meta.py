"""Per-property texts for MANIFEST.json (level_claimed.text, level_note, technique, design_ref)."""
META = {
 "C01": dict(
  category="exploration",
  text="Bounded-exhaustive: every word of the fragment alphabets Σ1^≤3 (quick; ≤4 and a 20-letter core at 5 thorough) and Σ2^≤2 (≤3), every single-token delete/duplicate/insert mutation of every std-library paragraph, and nesting families around the depth limit, each under all 32 parser configurations, must reproduce its input byte for byte from the tree with tokens tiling [0,len). All inputs of the stated shape are covered, none sampled.",
  note="Trusted: rowan's range arithmetic. Not covered: inputs needing a fragment outside the alphabets or more fragments than the bound.",
  technique="bounded-exhaustive enumeration of inputs × configurations (small-scope model checking of the parser)",
  design_ref="§4 C01"),
 "C02": dict(
  category="exploration",
  text="Same word spaces under catch_unwind, plus 54 nesting families (pairs in thorough) × depth ladder 2^0..2^13 (2^17 thorough) parsed, walked and dropped on a 2 MiB stack in subprocesses so stack overflow/abort is observed, plus repetition scaling with a two-orders-of-magnitude time rule.",
  note="Stack budget is the tokio worker default (2 MiB); timing is judged only with the wide margins of DESIGN §3.6.",
  technique="bounded-exhaustive enumeration of inputs (nesting family × depth ladder, Σ^≤k words) with crash/hang observation in subprocesses",
  design_ref="§4 C02"),
}

HOOK_COMMITS = ["8e0f0ee"]
