#!/bin/bash
# Runs the repository's pinned test suite with the verif-hooks feature OFF and compares the
# set of passing tests with /root/.vp/BASELINE.json (stable_pass). Exit 0 iff every
# stable-pass test still passes.
set -u
cd /repo
export CARGO_NET_OFFLINE=true
OUT=$(mktemp -d)
cargo nextest run --workspace --no-fail-fast --tool-config-file pb:/w/lib/nextest.toml --profile pb --test-threads "${VERIF_TEST_THREADS:-8}" --offline >"$OUT/log" 2>&1
rc=$?
J=/repo/target/nextest/pb/junit.xml
python3 - "$J" <<'PY'
import json,sys,xml.etree.ElementTree as ET
base=json.load(open('/root/.vp/BASELINE.json'))
want=set(base['stable_pass'])
t=ET.parse(sys.argv[1])
passed=set(); failed=set()
for ts in t.getroot().iter('testsuite'):
    suite=ts.get('name')
    for tc in ts.iter('testcase'):
        name=f"{tc.get('classname')}::{tc.get('name')}"
        bad = any(ch.tag in('failure','error') for ch in tc)
        (failed if bad else passed).add(name)
def norm(s): return s
missing=[w for w in want if w not in passed]
# baseline ids may be formatted as "<crate>::<test path>"; try a suffix match as fallback
if missing:
    tails={p.split('::',1)[-1] for p in passed}|passed
    missing=[w for w in missing if w not in tails and w.split('::',1)[-1] not in tails]
print(f"baseline: {len(want)} stable-pass tests; passed now: {len(passed)}; failed now: {len(failed)}; missing from pass set: {len(missing)}")
for m in missing[:40]: print("  NOT PASSING:", m)
sys.exit(1 if missing else 0)
PY
r=$?
rm -rf "$OUT"
exit $r
