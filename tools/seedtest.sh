#!/bin/bash
# tools/seedtest.sh <patch.diff> <Cxx> [Cyy...] : applies a seeded change to /repo, runs the checks, reverts.
p=$1; shift
cd /repo && git diff --quiet || { echo "repo dirty"; exit 2; }
git apply "$p" || { echo "patch does not apply"; exit 2; }
cd /verif
for c in "$@"; do
  out=$(./check $c --tier ${TIER:-quick} 2>&1); rc=$?
  echo "== $c rc=$rc :: $(echo "$out" | tail -1)"
  echo "$out" | grep -E "VIOLATION|fingerprint|detail|MACHINERY" | head -8 | cut -c1-300
done
git -C /repo checkout -- . ; git -C /repo status --short | head -3
