#!/usr/bin/env bash
# extra setup steps run by `./check --setup` (each engine appends its own block)
set -e
cd "$(dirname "$0")/.."

# --- eng_cli / C39: the LD_PRELOAD fault injector must compile (the engine rebuilds it into its --work dir on every run)
mkdir -p .work/setup
gcc -Wall -shared -fPIC -O1 -o .work/setup/faultfs.so shims/faultfs.c -ldl
rm -rf .work/setup
echo "faultfs shim compiles"

# --- eng_sched: controller/explorer self test on toy programs with known verdicts
# (two-mutex ABBA deadlock; three-task RwLock deadlock that needs tokio's fair queueing):
# no deadlock with 0 preemptions, found with ≤2, found schedule replays identically
./sched/target/verif/eng_sched --prop SELFTEST --work .work/setup-sched
rm -rf .work/setup-sched
