#!/bin/bash
# runs every registered check once (tier $1, default quick) and prints one line each
cd "$(dirname "$0")/.."
tier=${1:-quick}
# optional: ids to run first (the rest follow in order), e.g. ./tools/sweep.sh thorough C12 C17
shift
first="$*"
for p in $(python3 -c "
import sys; sys.path.insert(0,'tools'); import registry
first='$first'.split()
rest=[p for p in sorted(registry.REGISTRY) if p not in first]
print(' '.join([p for p in first if p in registry.REGISTRY]+rest))"); do
  s=$(date +%s)
  out=$(./check $p --tier $tier 2>&1)
  rc=$?
  e=$(( $(date +%s) - s ))
  echo "$p rc=$rc ${e}s :: $(echo "$out" | tail -1)"
  if [ $rc -ne 0 ]; then echo "$out" | grep -E "VIOLATION|MACHINERY|fingerprint" | head -5; fi
done
