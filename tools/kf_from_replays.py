#!/usr/bin/env python3
"""kf_from_replays.py Cxx "<root cause text>" [signature-substring]
Adds every violation artefact currently under replays/Cxx (written by the last ./check run) whose
fingerprint is not yet listed as a `known` finding. Used only by the orchestrator, by hand, after the
root cause has been analysed — never at check run time."""
import json,sys,glob,os
prop,cause=sys.argv[1],sys.argv[2]
sub=sys.argv[3] if len(sys.argv)>3 else None
p='/verif/known_findings.json'
k=json.load(open(p))
have={f.get('fingerprint') for f in k['findings'] if f.get('status')=='known'}
n=0
for f in sorted(glob.glob(f'/verif/replays/{prop}/*.json')):
    r=json.load(open(f))
    fp=r['fingerprint']
    if fp in have: continue
    if sub and sub not in fp: continue
    k['findings'].append({"status":"known","property":prop,"fingerprint":fp,"what":f"{cause} — {str(r.get('detail',''))[:220]}"})
    have.add(fp); n+=1
json.dump(k,open(p,'w'),indent=1,ensure_ascii=False)
print(f"{prop}: added {n} known findings")
