/*
 * faultfs.c — LD_PRELOAD fault injector for crash-point / write-fault enumeration (property C39).
 *
 * Build:  gcc -shared -fPIC -O1 -o faultfs.so faultfs.c -ldl
 * Use:    LD_PRELOAD=faultfs.so FAULTFS_ROOT=<scratch dir> [FAULTFS_LOG=<file>]
 *         [FAULTFS_AT=<call index, 1-based> FAULTFS_KIND=<kind> [FAULTFS_ARG=<j>]]
 *         [FAULTFS_AT2=<later call index> FAULTFS_KIND2=<kind> [FAULTFS_ARG2=<j>]]  <program> ...
 *
 * The shim counts every call to
 *     open open64 openat openat64 creat creat64 write pwrite pwrite64 writev close fsync fdatasync
 *     rename renameat renameat2 link linkat symlink symlinkat unlink unlinkat truncate truncate64
 *     ftruncate ftruncate64 chmod fchmod fchmodat
 * that touches the scratch tree: a path argument that lies under FAULTFS_ROOT (relative paths are
 * resolved against the working directory), or a file descriptor that was opened on such a path.
 * Calls that do not touch the tree pass straight through and are not counted. Every counted call is
 * appended to FAULTFS_LOG (opened outside the tree, written with the real write) as one line
 *     <index>\t<op>\t<path>\t<detail>\t<result>
 * At the call whose index equals FAULTFS_AT the fault FAULTFS_KIND is injected:
 *     kill-before     the process is killed (SIGKILL) instead of performing the call
 *     kill-after      the call is performed, then the process is killed
 *     short-kill      (write-type calls) only FAULTFS_ARG bytes are written, then the process is killed
 *     short-ok        (write-type calls) only FAULTFS_ARG bytes are written and that short count is
 *                     returned — a legal partial write; the program must cope
 *     enospc efbig eio            the call is not performed and fails with that errno (close: the
 *                     descriptor is closed, the error is returned)
 *     enospc-sticky   as enospc, and every later write-type, creating-open, rename or truncate call
 *                     on the tree fails with ENOSPC as well (a disk that stays full)
 * A second fault (FAULTFS_AT2 …) may be given for fault sequences, e.g. a write error at call i and a
 * kill at a later call j of the run that follows the error.
 * "short-*" on a call that is not a write behaves like kill-before / a plain call respectively; the
 * harness only asks for them on writes.
 */
#define _GNU_SOURCE
#include <dlfcn.h>
#include <errno.h>
#include <fcntl.h>
#include <limits.h>
#include <signal.h>
#include <stdarg.h>
#include <stdio.h>
#include <stdlib.h>
#include <string.h>
#include <sys/stat.h>
#include <sys/types.h>
#include <sys/uio.h>
#include <unistd.h>

#define MAXFD 4096

static char root[PATH_MAX];
static size_t root_len;
static int log_fd = -1;
static long at_index = -1, at_index2 = -1;
static long arg_j = 0, arg_j1 = 0, arg_j2 = 0;
static int kind = 0, kind1 = 0, kind2 = 0;
static long counter = 0;
static int sticky_on = 0;
static int inited = 0;
static char fd_path[MAXFD][256]; /* "" = not tracked */

enum { K_NONE, K_KILL_BEFORE, K_KILL_AFTER, K_SHORT_KILL, K_SHORT_OK, K_ENOSPC, K_EFBIG, K_EIO, K_ENOSPC_STICKY };

static int (*r_open)(const char *, int, ...);
static int (*r_open64)(const char *, int, ...);
static int (*r_openat)(int, const char *, int, ...);
static int (*r_openat64)(int, const char *, int, ...);
static ssize_t (*r_write)(int, const void *, size_t);
static ssize_t (*r_pwrite)(int, const void *, size_t, off_t);
static ssize_t (*r_pwrite64)(int, const void *, size_t, off64_t);
static ssize_t (*r_writev)(int, const struct iovec *, int);
static int (*r_close)(int);
static int (*r_fsync)(int);
static int (*r_fdatasync)(int);
static int (*r_rename)(const char *, const char *);
static int (*r_renameat)(int, const char *, int, const char *);
static int (*r_renameat2)(int, const char *, int, const char *, unsigned int);
static int (*r_link)(const char *, const char *);
static int (*r_linkat)(int, const char *, int, const char *, int);
static int (*r_symlink)(const char *, const char *);
static int (*r_symlinkat)(const char *, int, const char *);
static int (*r_unlink)(const char *);
static int (*r_unlinkat)(int, const char *, int);
static int (*r_truncate)(const char *, off_t);
static int (*r_truncate64)(const char *, off64_t);
static int (*r_ftruncate)(int, off_t);
static int (*r_ftruncate64)(int, off64_t);
static int (*r_chmod)(const char *, mode_t);
static int (*r_fchmod)(int, mode_t);
static int (*r_fchmodat)(int, const char *, mode_t, int);

static int parse_kind(const char *e) {
    if (!e) return K_NONE;
    if (!strcmp(e, "kill-before")) return K_KILL_BEFORE;
    if (!strcmp(e, "kill-after")) return K_KILL_AFTER;
    if (!strcmp(e, "short-kill")) return K_SHORT_KILL;
    if (!strcmp(e, "short-ok")) return K_SHORT_OK;
    if (!strcmp(e, "enospc")) return K_ENOSPC;
    if (!strcmp(e, "efbig")) return K_EFBIG;
    if (!strcmp(e, "eio")) return K_EIO;
    if (!strcmp(e, "enospc-sticky")) return K_ENOSPC_STICKY;
    return K_NONE;
}

static void init(void) {
    if (inited) return;
    inited = 1;
#define R(n) r_##n = dlsym(RTLD_NEXT, #n)
    R(open); R(open64); R(openat); R(openat64); R(write); R(pwrite); R(pwrite64); R(writev); R(close);
    R(fsync); R(fdatasync); R(rename); R(renameat); R(renameat2); R(link); R(linkat); R(symlink);
    R(symlinkat); R(unlink); R(unlinkat); R(truncate); R(truncate64); R(ftruncate); R(ftruncate64);
    R(chmod); R(fchmod); R(fchmodat);
#undef R
    const char *e = getenv("FAULTFS_ROOT");
    if (e && *e) {
        strncpy(root, e, sizeof root - 1);
        root_len = strlen(root);
        while (root_len > 1 && root[root_len - 1] == '/') root[--root_len] = 0;
    }
    e = getenv("FAULTFS_LOG");
    if (e && *e && r_open) {
        int fd = r_open(e, O_WRONLY | O_CREAT | O_APPEND | O_CLOEXEC, 0644);
        if (fd >= 0) {
            /* move it out of the way of the low descriptors the program expects */
            int hi = fcntl(fd, F_DUPFD_CLOEXEC, 1000);
            if (hi >= 0) { r_close(fd); fd = hi; }
            log_fd = fd;
        }
    }
    e = getenv("FAULTFS_AT");
    if (e && *e) at_index = atol(e);
    e = getenv("FAULTFS_ARG");
    if (e && *e) arg_j1 = atol(e);
    kind1 = parse_kind(getenv("FAULTFS_KIND"));
    e = getenv("FAULTFS_AT2");
    if (e && *e) at_index2 = atol(e);
    e = getenv("FAULTFS_ARG2");
    if (e && *e) arg_j2 = atol(e);
    kind2 = parse_kind(getenv("FAULTFS_KIND2"));
}

static void die_now(void) {
    /* a crash: no atexit handlers, no flushing */
    kill(getpid(), SIGKILL);
    for (;;) pause();
}

/* absolute form of a path argument; returns 1 when it lies in the scratch tree */
static int in_tree(int dirfd, const char *path, char *out, size_t outsz) {
    if (!root_len || !path) return 0;
    char buf[PATH_MAX * 2 + 512];
    if (path[0] == '/') {
        snprintf(buf, sizeof buf, "%s", path);
    } else if (dirfd == AT_FDCWD) {
        char cwd[PATH_MAX];
        if (!getcwd(cwd, sizeof cwd)) return 0;
        snprintf(buf, sizeof buf, "%s/%s", cwd, path);
    } else if (dirfd >= 0 && dirfd < MAXFD && fd_path[dirfd][0]) {
        snprintf(buf, sizeof buf, "%s/%s/%s", root, fd_path[dirfd], path);
    } else {
        return 0;
    }
    if (strncmp(buf, root, root_len) != 0 || (buf[root_len] != '/' && buf[root_len] != 0)) return 0;
    const char *rel = buf + root_len;
    while (*rel == '/') rel++;
    snprintf(out, outsz, "%s", *rel ? rel : ".");
    return 1;
}

static int tracked(int fd) { return fd >= 0 && fd < MAXFD && fd_path[fd][0]; }

static void logline(long idx, const char *op, const char *path, const char *detail, long ret, int err) {
    if (log_fd < 0) return;
    char b[1024];
    int n;
    if (ret < 0)
        n = snprintf(b, sizeof b, "%ld\t%s\t%s\t%s\t-1 errno=%d\n", idx, op, path, detail, err);
    else
        n = snprintf(b, sizeof b, "%ld\t%s\t%s\t%s\t%ld\n", idx, op, path, detail, ret);
    if (n > 0) r_write(log_fd, b, (size_t)(n < (int)sizeof b ? n : (int)sizeof b - 1));
}

/* what to do at this counted call */
enum { A_RUN, A_KILL_BEFORE, A_KILL_AFTER, A_SHORT_KILL, A_SHORT_OK, A_FAIL };
static int fail_errno;

static int decide(long idx, int write_like_for_sticky) {
    if (idx == at_index || idx == at_index2) {
        kind = idx == at_index ? kind1 : kind2;
        arg_j = idx == at_index ? arg_j1 : arg_j2;
        switch (kind) {
        case K_KILL_BEFORE: return A_KILL_BEFORE;
        case K_KILL_AFTER: return A_KILL_AFTER;
        case K_SHORT_KILL: return A_SHORT_KILL;
        case K_SHORT_OK: return A_SHORT_OK;
        case K_ENOSPC: fail_errno = ENOSPC; return A_FAIL;
        case K_EFBIG: fail_errno = EFBIG; return A_FAIL;
        case K_EIO: fail_errno = EIO; return A_FAIL;
        case K_ENOSPC_STICKY: sticky_on = 1; fail_errno = ENOSPC; return A_FAIL;
        default: return A_RUN;
        }
    }
    if (sticky_on && write_like_for_sticky) { fail_errno = ENOSPC; return A_FAIL; }
    return A_RUN;
}

static void flagstr(int flags, char *out, size_t n) {
    int acc = flags & O_ACCMODE;
    snprintf(out, n, "%s%s%s%s%s", acc == O_RDONLY ? "r" : acc == O_WRONLY ? "w" : "rw",
             (flags & O_CREAT) ? "+creat" : "", (flags & O_EXCL) ? "+excl" : "", (flags & O_TRUNC) ? "+trunc" : "",
             (flags & O_APPEND) ? "+append" : "");
}

/* ------------------------------------------------------------------ open family */

static int call_open(int which, int dirfd, const char *path, int flags, mode_t mode) {
    switch (which) {
    case 0: return r_open(path, flags, mode);
    case 1: return r_open64(path, flags, mode);
    case 2: return r_openat(dirfd, path, flags, mode);
    default: return r_openat64(dirfd, path, flags, mode);
    }
}

static int do_open(const char *opname, int which, int dirfd, const char *path, int flags, mode_t mode) {
    init();
    char rel[256];
    if (!in_tree(which >= 2 ? dirfd : AT_FDCWD, path, rel, sizeof rel)) return call_open(which, dirfd, path, flags, mode);
    long idx = ++counter;
    char fs[64];
    flagstr(flags, fs, sizeof fs);
    int creating = (flags & (O_CREAT | O_TRUNC)) != 0;
    int a = decide(idx, creating);
    if (a == A_KILL_BEFORE || a == A_SHORT_KILL) { logline(idx, opname, rel, fs, -1, 0); die_now(); }
    if (a == A_FAIL) { logline(idx, opname, rel, fs, -1, fail_errno); errno = fail_errno; return -1; }
    int fd = call_open(which, dirfd, path, flags, mode);
    int e = errno;
    if (fd >= 0 && fd < MAXFD) snprintf(fd_path[fd], sizeof fd_path[fd], "%s", rel);
    logline(idx, opname, rel, fs, fd >= 0 ? 0 : -1, e);
    if (a == A_KILL_AFTER) die_now();
    errno = e;
    return fd;
}

static mode_t mode_arg(int flags, va_list ap) {
    if ((flags & O_CREAT)
#ifdef O_TMPFILE
        || (flags & O_TMPFILE) == O_TMPFILE
#endif
    )
        return (mode_t)va_arg(ap, int);
    return 0;
}

int open(const char *path, int flags, ...) {
    va_list ap; va_start(ap, flags); mode_t m = mode_arg(flags, ap); va_end(ap);
    return do_open("open", 0, AT_FDCWD, path, flags, m);
}
int open64(const char *path, int flags, ...) {
    va_list ap; va_start(ap, flags); mode_t m = mode_arg(flags, ap); va_end(ap);
    return do_open("open", 1, AT_FDCWD, path, flags, m);
}
int openat(int dirfd, const char *path, int flags, ...) {
    va_list ap; va_start(ap, flags); mode_t m = mode_arg(flags, ap); va_end(ap);
    return do_open("open", 2, dirfd, path, flags, m);
}
int openat64(int dirfd, const char *path, int flags, ...) {
    va_list ap; va_start(ap, flags); mode_t m = mode_arg(flags, ap); va_end(ap);
    return do_open("open", 3, dirfd, path, flags, m);
}
int creat(const char *path, mode_t mode) { return do_open("open", 0, AT_FDCWD, path, O_CREAT | O_WRONLY | O_TRUNC, mode); }
int creat64(const char *path, mode_t mode) { return do_open("open", 1, AT_FDCWD, path, O_CREAT | O_WRONLY | O_TRUNC, mode); }

/* ------------------------------------------------------------------ write family */

static ssize_t call_write(int which, int fd, const void *buf, size_t n, off64_t off) {
    switch (which) {
    case 0: return r_write(fd, buf, n);
    case 1: return r_pwrite(fd, buf, n, (off_t)off);
    default: return r_pwrite64(fd, buf, n, off);
    }
}

static ssize_t do_write(const char *opname, int which, int fd, const void *buf, size_t len, off64_t off) {
    init();
    if (!tracked(fd)) return call_write(which, fd, buf, len, off);
    long idx = ++counter;
    char d[64];
    snprintf(d, sizeof d, "len=%zu", len);
    int a = decide(idx, 1);
    if (a == A_KILL_BEFORE) { logline(idx, opname, fd_path[fd], d, -1, 0); die_now(); }
    if (a == A_FAIL) { logline(idx, opname, fd_path[fd], d, -1, fail_errno); errno = fail_errno; return -1; }
    if (a == A_SHORT_KILL || a == A_SHORT_OK) {
        size_t j = (size_t)(arg_j < 0 ? 0 : arg_j);
        if (j > len) j = len;
        ssize_t r = j ? call_write(which, fd, buf, j, off) : 0;
        int e = errno;
        logline(idx, opname, fd_path[fd], d, (long)r, e);
        if (a == A_SHORT_KILL) die_now();
        /* a zero-length result would read as "disk full"; report an interrupted call instead */
        if (j == 0 && len > 0) { errno = EINTR; return -1; }
        errno = e;
        return r;
    }
    ssize_t r = call_write(which, fd, buf, len, off);
    int e = errno;
    logline(idx, opname, fd_path[fd], d, (long)r, e);
    if (a == A_KILL_AFTER) die_now();
    errno = e;
    return r;
}

ssize_t write(int fd, const void *buf, size_t len) { return do_write("write", 0, fd, buf, len, 0); }
ssize_t pwrite(int fd, const void *buf, size_t len, off_t off) { return do_write("write", 1, fd, buf, len, off); }
ssize_t pwrite64(int fd, const void *buf, size_t len, off64_t off) { return do_write("write", 2, fd, buf, len, off); }

ssize_t writev(int fd, const struct iovec *iov, int cnt) {
    init();
    if (!tracked(fd)) return r_writev(fd, iov, cnt);
    /* serialise: treat as one write of the first non-empty buffer (a legal short writev) */
    for (int i = 0; i < cnt; i++)
        if (iov[i].iov_len) return do_write("write", 0, fd, iov[i].iov_base, iov[i].iov_len, 0);
    return 0;
}

/* ------------------------------------------------------------------ fd calls */

static int do_fd(const char *opname, int fd, const char *detail, int write_like, int (*call)(void *), void *ctx, int is_close) {
    if (!tracked(fd)) return call(ctx);
    long idx = ++counter;
    char p[256];
    snprintf(p, sizeof p, "%s", fd_path[fd]);
    int a = decide(idx, write_like);
    if (a == A_KILL_BEFORE || a == A_SHORT_KILL) { logline(idx, opname, p, detail, -1, 0); die_now(); }
    if (a == A_FAIL) {
        if (is_close) { r_close(fd); fd_path[fd][0] = 0; }
        logline(idx, opname, p, detail, -1, fail_errno);
        errno = fail_errno;
        return -1;
    }
    int r = call(ctx);
    int e = errno;
    if (is_close) fd_path[fd][0] = 0;
    logline(idx, opname, p, detail, r, e);
    if (a == A_KILL_AFTER) die_now();
    errno = e;
    return r;
}

struct fdctx { int fd; off64_t len; mode_t mode; };
static int c_close(void *c) { return r_close(((struct fdctx *)c)->fd); }
static int c_fsync(void *c) { return r_fsync(((struct fdctx *)c)->fd); }
static int c_fdatasync(void *c) { return r_fdatasync(((struct fdctx *)c)->fd); }
static int c_ftruncate(void *c) { return r_ftruncate64 ? r_ftruncate64(((struct fdctx *)c)->fd, ((struct fdctx *)c)->len) : r_ftruncate(((struct fdctx *)c)->fd, (off_t)((struct fdctx *)c)->len); }
static int c_fchmod(void *c) { return r_fchmod(((struct fdctx *)c)->fd, ((struct fdctx *)c)->mode); }

int close(int fd) {
    init();
    if (fd == log_fd && fd >= 0) { errno = EBADF; return -1; } /* keep the log alive */
    struct fdctx c = { fd, 0, 0 };
    return do_fd("close", fd, "", 0, c_close, &c, 1);
}
int fsync(int fd) { init(); struct fdctx c = { fd, 0, 0 }; return do_fd("fsync", fd, "", 1, c_fsync, &c, 0); }
int fdatasync(int fd) { init(); struct fdctx c = { fd, 0, 0 }; return do_fd("fsync", fd, "data", 1, c_fdatasync, &c, 0); }
int ftruncate(int fd, off_t len) {
    init(); struct fdctx c = { fd, len, 0 }; char d[48]; snprintf(d, sizeof d, "len=%lld", (long long)len);
    return do_fd("ftruncate", fd, d, 1, c_ftruncate, &c, 0);
}
int ftruncate64(int fd, off64_t len) {
    init(); struct fdctx c = { fd, len, 0 }; char d[48]; snprintf(d, sizeof d, "len=%lld", (long long)len);
    return do_fd("ftruncate", fd, d, 1, c_ftruncate, &c, 0);
}
int fchmod(int fd, mode_t mode) {
    init(); struct fdctx c = { fd, 0, mode }; char d[48]; snprintf(d, sizeof d, "mode=%o", (unsigned)mode);
    return do_fd("chmod", fd, d, 0, c_fchmod, &c, 0);
}

/* ------------------------------------------------------------------ path calls */

static int do_path(const char *opname, const char *rel, const char *detail, int write_like, int (*call)(void *), void *ctx) {
    long idx = ++counter;
    int a = decide(idx, write_like);
    if (a == A_KILL_BEFORE || a == A_SHORT_KILL) { logline(idx, opname, rel, detail, -1, 0); die_now(); }
    if (a == A_FAIL) { logline(idx, opname, rel, detail, -1, fail_errno); errno = fail_errno; return -1; }
    int r = call(ctx);
    int e = errno;
    logline(idx, opname, rel, detail, r, e);
    if (a == A_KILL_AFTER) die_now();
    errno = e;
    return r;
}

struct p2 { int fd1; const char *a; int fd2; const char *b; unsigned flags; int which; off64_t len; mode_t mode; };

static int c_rename(void *v) {
    struct p2 *p = v;
    switch (p->which) {
    case 0: return r_rename(p->a, p->b);
    case 1: return r_renameat(p->fd1, p->a, p->fd2, p->b);
    default: return r_renameat2(p->fd1, p->a, p->fd2, p->b, p->flags);
    }
}
static int two_paths(const char *opname, struct p2 *p, int (*call)(void *)) {
    init();
    char ra[256], rb[256];
    int ia = in_tree(p->fd1, p->a, ra, sizeof ra), ib = in_tree(p->fd2, p->b, rb, sizeof rb);
    if (!ia && !ib) return call(p);
    char d[300];
    snprintf(d, sizeof d, "to=%s", ib ? rb : "<outside>");
    return do_path(opname, ia ? ra : "<outside>", d, 1, call, p);
}
int rename(const char *a, const char *b) { struct p2 p = { AT_FDCWD, a, AT_FDCWD, b, 0, 0, 0, 0 }; return two_paths("rename", &p, c_rename); }
int renameat(int f1, const char *a, int f2, const char *b) { struct p2 p = { f1, a, f2, b, 0, 1, 0, 0 }; return two_paths("rename", &p, c_rename); }
int renameat2(int f1, const char *a, int f2, const char *b, unsigned int fl) { struct p2 p = { f1, a, f2, b, fl, 2, 0, 0 }; return two_paths("rename", &p, c_rename); }

static int c_link(void *v) {
    struct p2 *p = v;
    switch (p->which) {
    case 0: return r_link(p->a, p->b);
    case 1: return r_linkat(p->fd1, p->a, p->fd2, p->b, (int)p->flags);
    case 2: return r_symlink(p->a, p->b);
    default: return r_symlinkat(p->a, p->fd2, p->b);
    }
}
int link(const char *a, const char *b) { struct p2 p = { AT_FDCWD, a, AT_FDCWD, b, 0, 0, 0, 0 }; return two_paths("link", &p, c_link); }
int linkat(int f1, const char *a, int f2, const char *b, int fl) { struct p2 p = { f1, a, f2, b, (unsigned)fl, 1, 0, 0 }; return two_paths("link", &p, c_link); }
int symlink(const char *a, const char *b) { struct p2 p = { -1, NULL, AT_FDCWD, b, 0, 2, 0, 0 }; p.a = a; return two_paths("link", &p, c_link); }
int symlinkat(const char *a, int f2, const char *b) { struct p2 p = { -1, NULL, f2, b, 0, 3, 0, 0 }; p.a = a; return two_paths("link", &p, c_link); }

static int c_unlink(void *v) { struct p2 *p = v; return p->which == 0 ? r_unlink(p->a) : r_unlinkat(p->fd1, p->a, (int)p->flags); }
static int c_truncate(void *v) { struct p2 *p = v; return r_truncate64 ? r_truncate64(p->a, p->len) : r_truncate(p->a, (off_t)p->len); }
static int c_chmod(void *v) { struct p2 *p = v; return p->which == 0 ? r_chmod(p->a, p->mode) : r_fchmodat(p->fd1, p->a, p->mode, (int)p->flags); }

static int one_path(const char *opname, struct p2 *p, const char *detail, int write_like, int (*call)(void *)) {
    init();
    char ra[256];
    if (!in_tree(p->fd1, p->a, ra, sizeof ra)) return call(p);
    return do_path(opname, ra, detail, write_like, call, p);
}
int unlink(const char *a) { struct p2 p = { AT_FDCWD, a, 0, NULL, 0, 0, 0, 0 }; return one_path("unlink", &p, "", 0, c_unlink); }
int unlinkat(int fd, const char *a, int fl) { struct p2 p = { fd, a, 0, NULL, (unsigned)fl, 1, 0, 0 }; return one_path("unlink", &p, "", 0, c_unlink); }
int truncate(const char *a, off_t len) {
    struct p2 p = { AT_FDCWD, a, 0, NULL, 0, 0, len, 0 }; char d[48]; snprintf(d, sizeof d, "len=%lld", (long long)len);
    return one_path("ftruncate", &p, d, 1, c_truncate);
}
int truncate64(const char *a, off64_t len) {
    struct p2 p = { AT_FDCWD, a, 0, NULL, 0, 0, len, 0 }; char d[48]; snprintf(d, sizeof d, "len=%lld", (long long)len);
    return one_path("ftruncate", &p, d, 1, c_truncate);
}
int chmod(const char *a, mode_t m) {
    struct p2 p = { AT_FDCWD, a, 0, NULL, 0, 0, 0, m }; char d[48]; snprintf(d, sizeof d, "mode=%o", (unsigned)m);
    return one_path("chmod", &p, d, 0, c_chmod);
}
int fchmodat(int fd, const char *a, mode_t m, int fl) {
    struct p2 p = { fd, a, 0, NULL, (unsigned)fl, 1, 0, m }; char d[48]; snprintf(d, sizeof d, "mode=%o", (unsigned)m);
    return one_path("chmod", &p, d, 0, c_chmod);
}
