//! C31 — loading any configuration never crashes.
//!
//! Alphabets (DESIGN §4 C31):
//!  (A) JSON objects with ≤ n entries over KEYS × VALS (real keys in flat / nested / colliding
//!      forms, wrong value types), in one file, split over two files, and file + client partial
//!      config; every iteration order of the flattened key map (seam H2) is enumerated;
//!  (B) malformed bytes: every word ≤ k over BYTE_FRAGS as file content, alone and next to a valid
//!      file (before / after), plus missing and directory paths;
//!  (C) `.emmyrc.lua` texts: every word ≤ k over LUA_FRAGS, run in subprocesses (a stack overflow,
//!      an `os.exit`, a hang are observed instead of killing the harness);
//!  (D) path strings: every concatenation of ≤ k PATH_FRAGS in every pre-processed field.
//! Oracle: `load_configs` + `pre_process_emmyrc` return an `Emmyrc` (no panic, no abort, no hang);
//! a file that is not JSON is skipped (result = the other file alone) or everything falls back to
//! the default configuration.
use crate::common::*;
use serde_json::{Value, json};
use std::time::Duration;
use vcore::*;

pub const KEYS: &[&str] = &[
    "diagnostics",
    "diagnostics.enable",
    "diagnostics.enable.x",
    "diagnostics.globals",
    "workspace",
    "workspace.library",
    "workspace.ignoreDir",
    "runtime",
    "runtime.version",
    "runtime.special",
    "runtime.special.require",
    "Lua",
    "Lua.diagnostics.globals",
    "",
    ".",
    "a..b",
    "a",
    "a.b",
    "a.b.c",
    "$schema",
];

/// the 8 values of the DESIGN alphabet first (the "core"), then structured ones
pub fn vals() -> Vec<Value> {
    vec![
        json!(true),
        json!(1),
        json!("s"),
        json!([]),
        json!({}),
        Value::Null,
        json!([1, "s"]),
        json!({"x": 1}),
        // extended (the first three are also used by the quick tier's two-entry spaces)
        json!({"enable": false}),
        json!({"b": 1}),
        json!({"b": {"c": 1}}),
        json!(false),
        json!("Lua5.1"),
        json!(["x"]),
        json!({"enable": {"x": 1}}),
        json!({"b.c": 1}),
        json!({"": 1}),
        json!({"enable": false, "globals": ["x"]}),
        json!({"library": ["x"], "ignoreDir": ["y"]}),
    ]
}
pub const N_CORE_VALS: usize = 8;
pub const N_QUICK_VALS: usize = 11;
/// keys of the quick tier's two-entry spaces (single entries always use all KEYS × all values)
pub const KEYS_QUICK: &[&str] =
    &["diagnostics", "diagnostics.enable", "diagnostics.enable.x", "workspace", "workspace.library", "runtime.version", "Lua", "", "a..b", "a", "a.b", "a.b.c"];

pub const BYTE_FRAGS: &[&[u8]] = &[
    b"{", b"}", b"[", b"]", b"\"", b":", b",", b"1", b"a", b"\"a\"", b"\xff", b"\xef\xbb\xbf", b"\0", b" ", b"//x\n", b"\xff\xfe", b"\\", b"nul",
    b"{\"a\":", b"\xc3",
];

pub const LUA_FRAGS: &[&str] = &[
    "return ",
    "{ ",
    "} ",
    "a = 1, ",
    "[\"a.b\"] = 2, ",
    "a = { b = 3 }, ",
    "diagnostics = { enable = false }, ",
    "\"s\", ",
    "0/0, ",
    "function() end, ",
    "local t = {} t.t = t return t ",
    "while true do end ",
    "error(\"x\") ",
    "os.exit(0) ",
];

pub const PATH_FRAGS: &[&str] = &[
    "~", "~x", "~/x", "~é", "./x", "x", "/abs", "${workspaceFolder}/x", "{workspaceFolder}", "{env:HOME}", "$HOME/x", "$", "{", "}", "", "é", "..",
];

/// the fields that `pre_process_emmyrc` expands; `%` is replaced by the JSON string
pub const PATH_SLOTS: &[(&str, &str)] = &[
    ("workspace.ignoreDir", "[%]"),
    ("workspace.workspaceRoots", "[%]"),
    ("workspace.library", "[%]"),
    ("workspace.library", "[{\"path\":%}]"),
    ("workspace.library", "[{\"path\":\"lib\",\"ignoreDir\":[%]}]"),
    ("workspace.packages", "[%]"),
    ("resource.paths", "[%]"),
    ("runtime.requirePattern", "[%]"),
];

fn good_file() -> Source {
    Source::json("{\"diagnostics\":{\"enable\":false}}")
}

// ------------------------------------------------------------------ running and judging one case

/// the signature under which `c` (with its own seam order) fails in-process, if it does
fn fails(c: &Case) -> Option<String> {
    run_case(c, true).res.err().map(|e| panic_sig(&e))
}

/// find a seam order under which the case fails with `sig` (canonical order first)
fn find_failing(c: &Case, sig: &str) -> Option<Case> {
    let base = c.with_perm(None);
    let o = run_case(&base, true);
    if let Err(e) = &o.res {
        if panic_sig(e) == sig {
            return Some(base);
        }
    }
    for p in perms_for(o.k).into_iter().skip(1) {
        let cand = base.with_perm(p);
        if fails(&cand).as_deref() == Some(sig) {
            return Some(cand);
        }
    }
    None
}

/// hang budgets: the Lua sandbox of the loader is configured with a 1 s timeout; a case counts as
/// hanging after EXPLORE_HANG_S without output, is confirmed with VERIFY_HANG_S before it is
/// reported, and minimisation candidates get MINIMISE_HANG_S (the final witness is re-verified).
const EXPLORE_HANG_S: u64 = 3;
const VERIFY_HANG_S: u64 = 8;
const MINIMISE_HANG_S: u64 = 3;

/// a failing outcome class observed in a fresh process (crash / hang / panic)
fn fails_isolated(c: &Case) -> Option<String> {
    fails_isolated_t(c, VERIFY_HANG_S)
}
fn fails_isolated_t(c: &Case, secs: u64) -> Option<String> {
    let r = run_batch(&[c.to_json()], true, true, Duration::from_secs(secs));
    let cl = r.into_iter().next().unwrap_or_default();
    if cl.starts_with("ok:") { None } else { Some(cl) }
}

/// `return { … }` of the simple shapes the Lua alphabet produces, rewritten token by token into a
/// JSON object. Only a *candidate* generator for the minimiser: the JSON file replaces the Lua file
/// only if the real loader still fails on it with the same signature.
fn lua_as_json(src: &Source) -> Option<Source> {
    let text = src.text()?;
    let body = text.trim().strip_prefix("return")?.trim();
    // Lua table constructor → JSON by token rewriting of the simple shapes the alphabet can produce
    let mut out = String::new();
    let mut chars = body.chars().peekable();
    while let Some(ch) = chars.next() {
        match ch {
            '[' => {
                // ["key"] = → "key":
                let mut key = String::new();
                for c in chars.by_ref() {
                    if c == ']' {
                        break;
                    }
                    key.push(c);
                }
                out.push_str(key.trim());
            }
            '=' => out.push(':'),
            c if c.is_ascii_alphabetic() || c == '_' => {
                let mut id = c.to_string();
                while let Some(&n) = chars.peek() {
                    if n.is_ascii_alphanumeric() || n == '_' {
                        id.push(n);
                        chars.next();
                    } else {
                        break;
                    }
                }
                if id == "true" || id == "false" {
                    out.push_str(&id);
                } else {
                    out.push_str(&format!("\"{id}\""));
                }
            }
            c => out.push(c),
        }
    }
    // drop trailing commas
    let cleaned = out.replace(", }", "}").replace(",}", "}");
    let v: Value = serde_json::from_str(cleaned.trim()).ok()?;
    if !v.is_object() {
        return None;
    }
    Some(Source::json(v.to_string()))
}

const CANON_PATH_KEY: &str = "workspace.ignoreDir";

/// Delta-minimise a failing case in the engine's own vocabulary while it keeps failing with the
/// same signature: drop sources, turn partial configs and Lua tables into JSON files, merge files,
/// drop keys / key segments / array elements / characters, turn leaves into 1, rename key segments to a, b, c
/// (by name, then by position),
/// flatten single-key nesting, move a path list to the canonical pre-processed field.
pub fn minimise(start: &Case, sig: &str, isolated: bool) -> Case {
    let test = |c: &Case| -> Option<Case> {
        if isolated {
            let c = c.with_perm(None);
            (fails_isolated_t(&c, MINIMISE_HANG_S).as_deref() == Some(sig)).then_some(c)
        } else {
            find_failing(c, sig)
        }
    };
    let mut cur = match test(start) {
        Some(c) => c,
        None => return start.clone(),
    };
    let mut budget = 4000usize;
    'outer: loop {
        if budget == 0 {
            break;
        }
        let mut cands: Vec<Case> = Vec::new();
        // drop a source
        for i in 0..cur.files.len() {
            let mut c = cur.clone();
            c.files.remove(i);
            cands.push(c);
        }
        for i in 0..cur.partial.len() {
            let mut c = cur.clone();
            c.partial.remove(i);
            cands.push(c);
        }
        // partial → file
        if !cur.partial.is_empty() {
            let mut c = cur.clone();
            let p = c.partial.remove(0);
            c.files.push(Source::json(p.to_string()));
            cands.push(c);
        }
        // lua → json, unusual names → .emmyrc.json
        for i in 0..cur.files.len() {
            if cur.files[i].is_lua() {
                if let Some(j) = lua_as_json(&cur.files[i]) {
                    let mut c = cur.clone();
                    c.files[i] = j;
                    cands.push(c);
                }
            } else if cur.files[i].name != ".emmyrc.json" && cur.files[i].text().is_some() {
                let mut c = cur.clone();
                c.files[i].name = ".emmyrc.json".into();
                cands.push(c);
            }
        }
        // merge two JSON-object files with disjoint keys
        for i in 0..cur.files.len() {
            for j in i + 1..cur.files.len() {
                let (Some(a), Some(b)) = (cur.files[i].text().and_then(parse_obj), cur.files[j].text().and_then(parse_obj)) else { continue };
                if cur.files[i].is_lua() || cur.files[j].is_lua() {
                    continue;
                }
                let (Some(am), Some(bm)) = (a.as_object(), b.as_object()) else { continue };
                if am.keys().any(|k| bm.contains_key(k)) {
                    continue;
                }
                let mut m = am.clone();
                m.extend(bm.clone());
                let mut c = cur.clone();
                c.files[i] = Source::json(Value::Object(m).to_string());
                c.files.remove(j);
                cands.push(c);
            }
        }
        // shrink JSON objects / texts
        for i in 0..cur.files.len() {
            let f = &cur.files[i];
            if f.is_lua() {
                continue;
            }
            if let Some(obj) = f.text().and_then(parse_obj) {
                for s in shrink_candidates(&obj) {
                    let mut c = cur.clone();
                    c.files[i] = Source { name: f.name.clone(), data: Data::Text(s.to_string()) };
                    cands.push(c);
                }
                // canonical compact text
                if f.text() != Some(obj.to_string().as_str()) {
                    let mut c = cur.clone();
                    c.files[i] = Source { name: f.name.clone(), data: Data::Text(obj.to_string()) };
                    cands.push(c);
                }
            }
        }
        for c in cands {
            if budget == 0 {
                break 'outer;
            }
            budget -= 1;
            if c == cur {
                continue;
            }
            if let Some(ok) = test(&c) {
                cur = ok;
                continue 'outer;
            }
        }
        // non-JSON texts and raw bytes: character / byte level
        let mut progressed = false;
        for i in 0..cur.files.len() {
            let f = cur.files[i].clone();
            match &f.data {
                Data::Text(t) if f.is_lua() || parse_obj(t).is_none() => {
                    let m = minimise_text(t, |cand| {
                        let mut c = cur.clone();
                        c.files[i].data = Data::Text(cand.to_string());
                        test(&c).is_some()
                    });
                    if &m != t {
                        cur.files[i].data = Data::Text(m);
                        if let Some(ok) = test(&cur) {
                            cur = ok;
                        }
                        progressed = true;
                    }
                }
                Data::Bytes(b) => {
                    let m = minimise_seq(b, |cand| {
                        let mut c = cur.clone();
                        c.files[i] = Source::bytes(&f.name, cand.to_vec());
                        test(&c).is_some()
                    });
                    if &m != b {
                        cur.files[i] = Source::bytes(&f.name, m);
                        if let Some(ok) = test(&cur) {
                            cur = ok;
                        }
                        progressed = true;
                    }
                }
                _ => {}
            }
        }
        if progressed {
            continue;
        }
        // canonical forms: flatten single-key nesting, rename segments, canonical path field
        let objs: Vec<Option<Value>> = cur.files.iter().map(|f| if f.is_lua() { None } else { f.text().and_then(parse_obj) }).collect();
        if !objs.is_empty() && objs.iter().all(|o| o.is_some()) {
            let objs: Vec<Value> = objs.into_iter().flatten().collect();
            let mut tries: Vec<Vec<Value>> = Vec::new();
            // flatten {"a":{"b":v}} → {"a.b":v}
            let flat: Vec<Value> = objs
                .iter()
                .map(|o| {
                    let mut m = serde_json::Map::new();
                    for (k, v) in o.as_object().cloned().unwrap_or_default() {
                        match v.as_object() {
                            Some(inner) if inner.len() == 1 && !k.is_empty() => {
                                let (k2, v2) = inner.iter().next().map(|(a, b)| (a.clone(), b.clone())).unwrap_or_default();
                                m.insert(format!("{k}.{k2}"), v2);
                            }
                            _ => {
                                m.insert(k, v);
                            }
                        }
                    }
                    Value::Object(m)
                })
                .collect();
            tries.push(flat);
            tries.push(rename_segments(&objs));
            if let Some(t) = rename_positional(&objs) {
                tries.push(t);
            }
            if objs.len() == 1 {
                if let Some(m) = objs[0].as_object() {
                    if m.len() == 1 {
                        if let Some((k, v)) = m.iter().next() {
                            if k != CANON_PATH_KEY && PATH_SLOTS.iter().any(|(s, _)| s == k) {
                                if let Some(first) = v.as_array().and_then(|a| a.first()) {
                                    // a path item object {"path": p} → its path string
                                    let s = first.get("path").cloned().unwrap_or(first.clone());
                                    tries.push(vec![json!({CANON_PATH_KEY: [s]})]);
                                    if let Some(ig) = first.get("ignoreDir").and_then(|x| x.as_array()).and_then(|a| a.first()) {
                                        tries.push(vec![json!({CANON_PATH_KEY: [ig]})]);
                                    }
                                }
                            }
                        }
                    }
                }
            }
            for t in tries {
                if t == objs {
                    continue;
                }
                let mut c = cur.clone();
                for (i, o) in t.iter().enumerate() {
                    c.files[i].data = Data::Text(o.to_string());
                }
                if c == cur {
                    continue;
                }
                if budget == 0 {
                    break 'outer;
                }
                budget -= 1;
                if let Some(ok) = test(&c) {
                    cur = ok;
                    continue 'outer;
                }
            }
        }
        break;
    }
    cur
}

fn report(c: &Case, sig: &str, isolated: bool, st: &mut Stats, phase: &str, n: u64) {
    // determinism before verdict: the identical failure must show again
    let again = if isolated { fails_isolated(c) } else { fails(c) };
    if again.as_deref() != Some(sig) {
        st.undecided += 1;
        st.outcome("unstable-failure");
        return;
    }
    let mut m = minimise(c, sig, isolated);
    if isolated && m != *c && fails_isolated(&m).as_deref() != Some(sig) {
        m = c.clone(); // the shorter budget misjudged a candidate: keep the verified case
    }
    let detail = if isolated {
        format!("loading this configuration in a fresh process ends with {sig} instead of returning an Emmyrc (first seen in phase {phase})")
    } else {
        let msg = run_case(&m, true).res.err().unwrap_or_default();
        format!(
            "load_configs + pre_process_emmyrc panics: {msg}{} (first seen in phase {phase})",
            match &m.perm {
                Some(p) => format!("; iteration order of the flattened keys (sorted order permuted by) {p:?}"),
                None => "; flattened keys iterated in sorted order".to_string(),
            }
        )
    };
    add_violation(st, Violation { signature: sig.to_string(), witness: m.to_json(), detail }, n);
}

type Col = Collector<Case>;

fn rank(c: &Case) -> (usize, String) {
    let t = c.to_json().to_string();
    (t.len(), t)
}

/// run a case under every seam order; every panicking (case, order) is offered to the collector
fn explore(case: &Case, st: &mut Stats, phase: &str, col: &Col) -> Option<Value> {
    let base = run_case(case, true);
    let k = base.k;
    let mut first_ok = None;
    let orders = perms_for(k);
    for (i, p) in orders.iter().enumerate() {
        let c = case.with_perm(p.clone());
        let o = if i == 0 { Out { res: base.res.clone(), k } } else { run_case(&c, true) };
        st.eval(k >= 1);
        match o.res {
            Ok(v) => {
                st.outcome(if &v == default_emmyrc() { "loaded:default" } else { "loaded:custom" });
                if first_ok.is_none() {
                    first_ok = Some(v);
                }
            }
            Err(e) => {
                let s = panic_sig(&e);
                st.outcome(&s);
                col.offer(&format!("{s}|{phase}"), &c, rank(&c));
            }
        }
    }
    if k > MAX_PERM_K {
        st.undecided += 1;
        st.outcome("seam-orders-capped");
    }
    first_ok
}

// ------------------------------------------------------------------ replay

pub fn replay(w: &Value, want_sig: Option<&str>) -> Option<Violation> {
    if w.get("check").and_then(|c| c.as_str()) == Some("skip") {
        let c = Case::from_json(w)?;
        return skip_oracle(&c).map(|d| Violation { signature: "invalid-file-not-skipped".into(), witness: w.clone(), detail: d });
    }
    let c = Case::from_json(w)?;
    let cl = fails_isolated(&c)?;
    if let Some(s) = want_sig {
        if s != cl {
            println!("note: replay fails with {cl}, recorded signature was {s}");
        }
    }
    Some(Violation { signature: cl.clone(), witness: w.clone(), detail: format!("loading the configuration ends with {cl}") })
}

// ------------------------------------------------------------------ phase B oracle

fn is_invalid_config_text(src: &Source) -> bool {
    match &src.data {
        Data::Missing | Data::Dir => true,
        Data::Bytes(_) => true, // not UTF-8 (Source::bytes keeps valid UTF-8 as Text)
        Data::Text(t) => {
            let t2 = t.trim_start_matches('\u{feff}');
            serde_json::from_str::<Value>(t).is_err() && serde_json::from_str::<Value>(t2).is_err()
        }
    }
}

/// files = any mix of invalid sources and `good_file()`: the result must be the good file alone
/// (invalid ones skipped) or the default configuration (fallback). Some(detail) when it is neither.
fn skip_oracle(c: &Case) -> Option<String> {
    let got = run_case(c, true).res.ok()?;
    let good: Vec<Source> = c.files.iter().filter(|f| !is_invalid_config_text(f)).cloned().collect();
    let alone = run_case(&Case::of(good), true).res.ok()?;
    if got == alone || &got == default_emmyrc() {
        None
    } else {
        Some(format!(
            "with the invalid file(s) present the configuration differs from both the valid file alone and the defaults: {}",
            diff_from_default(&got, true)
        ))
    }
}

// ------------------------------------------------------------------ the exploration

pub fn run(args: &Args) -> ! {
    if let Some(w) = args.replay_witness() {
        let sig = w.get("signature").and_then(|s| s.as_str()).map(|s| s.to_string());
        let wit = if w.get("witness").is_some() { w["witness"].clone() } else { w.clone() };
        let r = replay(&wit, sig.as_deref());
        cleanup();
        finish_replay(r, "C31");
    }
    let dl = args.deadline();
    let thorough = args.tier == Tier::Thorough;
    let mut rep = Report::new("C31", "exploration");
    let mut all = Stats::default();
    let vals = vals();
    let obj_of = |keys: &[&str], nv: usize, es: &[usize]| -> String {
        let mut m = serde_json::Map::new();
        for &e in es {
            m.insert(keys[e / nv].to_string(), vals[e % nv].clone());
        }
        Value::Object(m).to_string()
    };
    let _ = default_emmyrc();
    let col: Col = Collector::new();

    // ---- (A1) one source, one entry: all keys × all values
    let mut a_done: Vec<(String, bool)> = Vec::new();
    let mut times: Vec<(String, f64)> = Vec::new();
    let mut t_phase = std::time::Instant::now();
    let mut lap = |name: &str, times: &mut Vec<(String, f64)>| {
        times.push((name.to_string(), t_phase.elapsed().as_secs_f64()));
        t_phase = std::time::Instant::now();
    };
    {
        let (nk, nv) = (KEYS.len(), vals.len());
        let ne = nk * nv;
        let (st, ok) = par_range(ne as u64 + 1, args.threads, &dl, |i, st| {
            if i == ne as u64 {
                explore(&Case::one("{}"), st, "A1", &col);
                return;
            }
            let t = obj_of(KEYS, nv, &[i as usize]);
            for name in [".emmyrc.json", ".luarc.json"] {
                explore(&Case::of(vec![Source::named(name, t.clone())]), st, "A1", &col);
            }
            let p: Value = serde_json::from_str(&t).unwrap_or(Value::Null);
            explore(&Case { files: vec![], partial: vec![p], perm: None }, st, "A1", &col);
        });
        all.merge(st);
        a_done.push((format!("one entry, {nk} keys × {nv} values, as .emmyrc.json / .luarc.json / client partial"), ok));
    }
    lap("A1", &mut times);
    // ---- (B) malformed bytes
    let kb = args.tier.pick(2, 3);
    let (st, b_done) = par_words(BYTE_FRAGS.len(), 0, kb, args.threads, &dl, |w, st| {
        let bytes: Vec<u8> = w.iter().flat_map(|&i| BYTE_FRAGS[i].iter().copied()).collect();
        let m = Source::bytes(".emmyrc.json", bytes);
        let invalid = is_invalid_config_text(&m);
        if w.len() == 2 && (w[0] * BYTE_FRAGS.len() + w[1]) % 131 == 7 {
            st.sample(|| json!({"phase": "B: malformed bytes", "file": Case::of(vec![m.clone()]).to_json()}));
        }
        for layout in 0..3 {
            let files = match layout {
                0 => vec![m.clone()],
                1 => vec![m.clone(), good_file()],
                _ => vec![good_file(), m.clone()],
            };
            let c = Case::of(files);
            let r = explore(&c, st, "B", &col);
            if invalid && r.is_some() {
                st.eval(true);
                match skip_oracle(&c) {
                    None => st.outcome("invalid-file:skipped-or-default"),
                    Some(_) => {
                        st.outcome("invalid-file:not-skipped");
                        col.offer("invalid-file-not-skipped|B", &c, rank(&c));
                    }
                }
            } else if !invalid {
                st.outcome("valid-json-text");
            }
        }
    });
    all.merge(st);
    {
        // unreadable paths
        let mut st = Stats::default();
        for bad in [Source::missing(), Source::dir()] {
            for files in [vec![bad.clone()], vec![bad.clone(), good_file()], vec![good_file(), bad.clone()], vec![bad.clone(), Source::dir()]] {
                let c = Case::of(files);
                if explore(&c, &mut st, "B", &col).is_some() {
                    st.eval(true);
                    match skip_oracle(&c) {
                        None => st.outcome("unreadable-file:skipped-or-default"),
                        Some(_) => {
                            st.outcome("unreadable-file:not-skipped");
                            col.offer("invalid-file-not-skipped|B", &c, rank(&c));
                        }
                    }
                }
            }
        }
        all.merge(st);
    }

    lap("B", &mut times);
    // ---- (A2) two entries
    let (keys2, nv2): (&[&str], usize) = if thorough { (KEYS, vals.len()) } else { (KEYS_QUICK, N_QUICK_VALS) };
    {
        let (nk, nv) = (keys2.len(), nv2);
        let ne = nk * nv;
        let (st, ok) = par_range((ne * ne) as u64, args.threads, &dl, |i, st| {
            let (e1, e2) = ((i as usize) / ne, (i as usize) % ne);
            // one file with two distinct keys (unordered: e1 < e2 by key)
            if e1 / nv < e2 / nv {
                let t = obj_of(keys2, nv, &[e1, e2]);
                if i % 5003 == 3 {
                    st.sample(|| json!({"phase": "A: one file, two entries", "text": t}));
                }
                explore(&Case::one(t), st, "A2", &col);
            }
            // two sources, any two entries (also the same key); both orders are separate indices
            let (t1, t2) = (obj_of(keys2, nv, &[e1]), obj_of(keys2, nv, &[e2]));
            explore(&Case::of(vec![Source::json(t1.clone()), Source::named(".luarc.json", t2.clone())]), st, "A2", &col);
            let p: Value = serde_json::from_str(&t2).unwrap_or(Value::Null);
            explore(&Case { files: vec![Source::json(t1)], partial: vec![p], perm: None }, st, "A2", &col);
        });
        all.merge(st);
        a_done.push((format!("two entries, {nk} keys × {nv} values: one file / file + file / file + client partial"), ok));
    }
    if thorough {
        // three entries over the core values: one file (distinct keys) and file, file, partial
        let (nk, nv) = (KEYS.len(), N_CORE_VALS);
        let nc = nk * nv;
        let (st, ok) = par_range((nc * nc * nc) as u64, args.threads, &dl, |i, st| {
            let i = i as usize;
            let (e1, e2, e3) = (i / (nc * nc), (i / nc) % nc, i % nc);
            if e1 / nv < e2 / nv && e2 / nv < e3 / nv {
                explore(&Case::one(obj_of(KEYS, nv, &[e1, e2, e3])), st, "A3", &col);
            }
            let p: Value = serde_json::from_str(&obj_of(KEYS, nv, &[e3])).unwrap_or(Value::Null);
            explore(&Case { files: vec![Source::json(obj_of(KEYS, nv, &[e1])), Source::json(obj_of(KEYS, nv, &[e2]))], partial: vec![p], perm: None }, st, "A3", &col);
        });
        all.merge(st);
        a_done.push((format!("three entries, {nk} keys × the {nv} core values: one file / file + file + partial"), ok));
    }

    lap("A2/A3", &mut times);
    // ---- (D) path strings
    let kp = args.tier.pick(2, 3);
    let (st, d_done) = par_words(PATH_FRAGS.len(), 0, kp, args.threads, &dl, |w, st| {
        let s: String = w.iter().map(|&i| PATH_FRAGS[i]).collect();
        let js = Value::String(s.clone()).to_string();
        for (si, (key, shape)) in PATH_SLOTS.iter().enumerate() {
            // quick tier: the full word length only in the first position, single fragments elsewhere
            if !thorough && si > 0 && w.len() > 1 {
                continue;
            }
            let text = format!("{{{}:{}}}", Value::String(key.to_string()), shape.replace('%', &js));
            if w.len() == 2 && si == 0 && (w[0] * PATH_FRAGS.len() + w[1]) % 97 == 5 {
                st.sample(|| json!({"phase": "D: path strings", "text": text}));
            }
            explore(&Case::one(text), st, "D", &col);
        }
        // two strings in one list (the de-duplication path)
        if w.len() == 2 {
            let (a, b) = (Value::String(PATH_FRAGS[w[0]].into()).to_string(), Value::String(PATH_FRAGS[w[1]].into()).to_string());
            explore(&Case::one(format!("{{\"workspace.ignoreDir\":[{a},{b}]}}")), st, "D", &col);
            if thorough {
                explore(&Case::one(format!("{{\"workspace\":{{\"library\":[{a},{{\"path\":{b},\"ignoreDir\":[{a}]}}]}}}}")), st, "D", &col);
            }
        }
    });
    all.merge(st);

    lap("D", &mut times);
    // ---- (C) .emmyrc.lua texts, in subprocesses
    let kl = args.tier.pick(3, 4);
    let mut c_done = None;
    let mut lua_cases = 0u64;
    for k in 0..=kl {
        if dl.expired() {
            break;
        }
        let n = pow(LUA_FRAGS.len() as u64, k as u32);
        let texts: Vec<String> = (0..n)
            .map(|i| {
                let mut w = Vec::new();
                decode_word(i, LUA_FRAGS.len() as u64, k, &mut w);
                w.iter().map(|&x| LUA_FRAGS[x]).collect()
            })
            .collect();
        let shards = args.threads.max(1);
        let results: Vec<(usize, String)> = std::thread::scope(|s| {
            let hs: Vec<_> = (0..shards)
                .map(|sh| {
                    let texts = &texts;
                    let dl = dl.clone();
                    s.spawn(move || {
                        let idx: Vec<usize> = (sh..texts.len()).step_by(shards).collect();
                        let mut out = Vec::new();
                        for chunk in idx.chunks(64) {
                            if dl.expired() {
                                break;
                            }
                            let cases: Vec<Value> = chunk.iter().map(|&i| Case::of(vec![Source::named(".emmyrc.lua", texts[i].clone())]).to_json()).collect();
                            let r = run_batch(&cases, true, true, Duration::from_secs(EXPLORE_HANG_S));
                            out.extend(chunk.iter().copied().zip(r));
                        }
                        out
                    })
                })
                .collect();
            hs.into_iter().flat_map(|h| h.join().unwrap_or_default()).collect()
        });
        let complete = results.len() == texts.len();
        let mut st = Stats::default();
        for (i, cl) in &results {
            st.eval(k >= 2);
            lua_cases += 1;
            if cl.starts_with("ok:") {
                st.outcome("lua:loaded-or-skipped");
            } else {
                st.outcome(&format!("lua:{cl}"));
                let c = Case::of(vec![Source::named(".emmyrc.lua", texts[*i].clone())]);
                if cl == "crash:exit-0" && texts[*i].contains("os.exit") {
                    // the script itself asked the process to exit: the statement (about panics and
                    // invalid content) does not say what must happen — counted, not judged
                    st.undecided += 1;
                } else {
                    col.offer(&format!("{cl}|C"), &c, rank(&c));
                }
            }
            if k == 3 && i % 900 == 17 {
                st.sample(|| json!({"phase": "C: .emmyrc.lua", "text": texts[*i], "outcome": cl}));
            }
        }
        all.merge(st);
        if complete {
            c_done = Some(k);
        } else {
            break;
        }
    }

    lap("C", &mut times);
    // ---- minimise and report: one representative (the smallest raw case) per (signature, phase)
    {
        let mut st = Stats::default();
        for (key, c, n) in col.take() {
            let (sig, phase) = key.rsplit_once('|').unwrap_or((&key, ""));
            if sig == "invalid-file-not-skipped" {
                match skip_oracle(&c) {
                    Some(d) => {
                        let mut w = c.to_json();
                        w["check"] = json!("skip");
                        add_violation(&mut st, Violation { signature: sig.into(), witness: w, detail: d }, n);
                    }
                    None => st.undecided += 1,
                }
            } else {
                // an ordinary panic is handled (and its seam order searched) in-process; aborts,
                // exits and hangs only in fresh processes
                report(&c, sig, !sig.starts_with("panic:"), &mut st, phase, n);
            }
        }
        all.merge(st);
    }

    lap("minimise", &mut times);
    let a_ok = a_done.iter().all(|x| x.1);
    rep.exhaustive = a_ok && b_done == Some(kb) && d_done == Some(kp) && c_done == Some(kl);
    rep.rule = format!(
        "every case below is loaded through the real load_configs + Emmyrc::pre_process_emmyrc (HOME = scratch dir) under catch_unwind, once per iteration order of the flattened key map (all k! orders at seam {SITE}, k ≤ {MAX_PERM_K}); oracle: an Emmyrc comes back (no panic / abort / hang) and files that are not JSON are skipped or everything falls back to defaults. \
         (A) JSON objects over real settings in flat, nested and colliding scalar-and-prefix forms plus \"\", \".\", \"a..b\" × values of right and wrong types: {}; \
         (B) every word ≤{kb} over {} byte fragments (BOMs, NUL, invalid UTF-8, truncated JSON) as file content alone / before / after a valid file, plus missing and directory paths; \
         (C) every word ≤{kl} over {} Lua fragments as .emmyrc.lua, each in a subprocess; \
         (D) every concatenation of ≤{kp} of {} path fragments in {} pre-processed positions{}, plus every pair in one list. non-trivial = the loader reached the flattening seam with ≥1 key",
        a_done.iter().map(|x| x.0.clone()).collect::<Vec<_>>().join("; "),
        BYTE_FRAGS.len(),
        LUA_FRAGS.len(),
        PATH_FRAGS.len(),
        PATH_SLOTS.len(),
        if thorough { "" } else { " (full length in workspace.ignoreDir, single fragments in the other positions)" }
    );
    rep.bounds = json!({
        "A": a_done.iter().map(|(n, ok)| json!({"space": n, "completed": ok})).collect::<Vec<_>>(),
        "B_k_target": kb, "B_k_completed": b_done,
        "C_k_target": kl, "C_k_completed": c_done, "C_cases": lua_cases,
        "D_k_target": kp, "D_k_completed": d_done,
        "keys": KEYS.len(), "values": vals.len(), "max_seam_k": MAX_PERM_K,
        "wall_cap_s": args.wall_cap_s, "wall_cap_hit": dl.was_hit(),
        "phase_seconds": times.iter().map(|(n, t)| json!({"phase": n, "s": (t * 10.0).round() / 10.0})).collect::<Vec<_>>(),
    });
    rep.assumptions = vec![
        "the only order-dependent step of config loading is the iteration of the flattened key map (seam H2); serde_json maps are BTreeMaps (no preserve_order feature)".into(),
        "keys, values, byte / Lua / path fragments outside the alphabets and larger objects are not covered".into(),
        "pre_process_emmyrc is called whenever one of the five lists it expands is non-empty; with all five empty it only builds its context (two regexes, the luarocks lookup), which is exercised once at start-up".into(),
        "PATH is pointed at an empty directory, so the `luarocks` lookup of PreProcessContext::new fails the same way on every machine ({luarocks} expands to the empty string)".into(),
        "a .emmyrc.lua that itself calls os.exit (allowed by the loader's sandbox) ends the process; the statement does not say what must happen, those cases are counted as undecided".into(),
    ];
    rep.set("loads_executed", json!(LOADS.load(std::sync::atomic::Ordering::Relaxed)));
    cleanup();
    rep.finish(args, all)
}
