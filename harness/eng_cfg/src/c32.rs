//! C32 — configuration merging is deterministic and later files win.
//!
//! State space: tuples (pairs, triples) of config files over a file alphabet F built from
//! 6 scalar and 3 array settings × values × spelling {flat "a.b", nested {"a":{"b":…}}, mixed},
//! plus two wrong-typed "section is a scalar" files (judged for determinism only);
//! × every iteration order of the flattened key map at seam H2 (k! orders).
//! Oracle, one clause per sentence of the statement:
//!  S1 deterministic: the serialized Emmyrc is the same for every seam order and for a repeated load
//!     (and, sampled, in fresh processes with the real hash seed);
//!  S2 flat ≡ nested: a single file gives the same Emmyrc in every spelling;
//!  S3 later file wins: a scalar set by several files has the last file's value, whichever spelling;
//!  S4 arrays: concatenation in file order without duplicates.
//! S2–S4 are judged against a *reference load*: one file in nested spelling that holds the final
//! values computed by the model; the reference must itself show those values (else undecided).
use crate::common::*;
use serde_json::{Map, Value, json};
use std::collections::BTreeSet;
use std::sync::atomic::{AtomicU64, Ordering};
use std::time::Duration;
use vcore::*;

#[derive(Clone, Copy, PartialEq, Eq, Debug)]
enum Kind {
    Scalar,
    Array,
}

struct Setting {
    path: &'static str,
    kind: Kind,
    values: Vec<Value>,
}

fn settings() -> Vec<Setting> {
    let arr = |e: [&str; 3]| -> Vec<Value> { vec![json!([e[0]]), json!([e[1]]), json!([e[0], e[1]]), json!([e[1], e[2]])] };
    vec![
        Setting { path: "diagnostics.enable", kind: Kind::Scalar, values: vec![json!(false), json!(true)] },
        Setting { path: "runtime.version", kind: Kind::Scalar, values: vec![json!("Lua5.1"), json!("Lua5.3")] },
        Setting { path: "workspace.encoding", kind: Kind::Scalar, values: vec![json!("gbk"), json!("utf-16")] },
        Setting { path: "workspace.reindexDuration", kind: Kind::Scalar, values: vec![json!(100), json!(200)] },
        Setting { path: "strict.requirePath", kind: Kind::Scalar, values: vec![json!(true), json!(false)] },
        Setting { path: "format.externalTool.program", kind: Kind::Scalar, values: vec![json!("p1"), json!("p2")] },
        Setting { path: "diagnostics.globals", kind: Kind::Array, values: arr(["x", "y", "z"]) },
        Setting { path: "diagnostics.disable", kind: Kind::Array, values: arr(["undefined-global", "unused", "syntax-error"]) },
        Setting { path: "runtime.requireLikeFunction", kind: Kind::Array, values: arr(["import", "load", "include"]) },
    ]
}

/// spellings of a dotted path: every way of cutting it into key groups.
/// 2 segments: 0 = flat ["a.b"], 1 = nested ["a","b"]; 3 segments: flat, ["a.b","c"], ["a","b.c"], nested.
fn spellings(path: &str) -> Vec<Vec<String>> {
    let segs: Vec<&str> = path.split('.').collect();
    let cuts = segs.len() - 1;
    let mut out = Vec::new();
    for mask in 0..(1u32 << cuts) {
        let mut groups = vec![segs[0].to_string()];
        for (i, s) in segs.iter().enumerate().skip(1) {
            if mask & (1 << (i - 1)) != 0 {
                groups.push(s.to_string());
            } else if let Some(l) = groups.last_mut() {
                l.push('.');
                l.push_str(s);
            }
        }
        out.push(groups);
    }
    out
}
fn nested_spelling(path: &str) -> usize {
    (1usize << (path.split('.').count() - 1)) - 1
}
fn spelling_name(path: &str, sp: usize) -> &'static str {
    if sp == 0 {
        "flat"
    } else if sp == nested_spelling(path) {
        "nested"
    } else {
        "mixed"
    }
}

#[derive(Clone, Debug, PartialEq, Eq, PartialOrd, Ord)]
struct Assign {
    s: usize,
    v: usize,
    sp: usize,
}

#[derive(Clone, Debug, PartialEq, Eq, PartialOrd, Ord)]
enum CFile {
    Assigns(Vec<Assign>),
    /// a wrong-typed file (a section set to a scalar); judged for determinism only
    Raw(&'static str),
}

const RAW_FILES: &[&str] = &["{\"diagnostics\":1}", "{\"runtime\":\"x\"}"];

fn put(obj: &mut Map<String, Value>, groups: &[String], v: &Value) -> bool {
    if groups.len() == 1 {
        if obj.contains_key(&groups[0]) {
            return false;
        }
        obj.insert(groups[0].clone(), v.clone());
        return true;
    }
    let e = obj.entry(groups[0].clone()).or_insert_with(|| Value::Object(Map::new()));
    match e.as_object_mut() {
        Some(m) => put(m, &groups[1..], v),
        None => false,
    }
}

/// JSON text of a file; None when two assignments would occupy the same key (not a meaningful file)
fn render(f: &CFile, ss: &[Setting]) -> Option<String> {
    match f {
        CFile::Raw(t) => Some(t.to_string()),
        CFile::Assigns(a) => {
            let mut m = Map::new();
            for x in a {
                let sp = spellings(ss[x.s].path);
                if !put(&mut m, &sp[x.sp], &ss[x.s].values[x.v]) {
                    return None;
                }
            }
            Some(Value::Object(m).to_string())
        }
    }
}

fn section(path: &str) -> &str {
    path.split('.').next().unwrap_or(path)
}

/// F1: single assignments in every spelling. F2: two assignments in one file — two settings of
/// the same section (first two values each) in every spelling combination, and the same setting
/// twice in two spellings with different values (in-file conflict). F3: the wrong-typed files.
fn alphabet(ss: &[Setting]) -> (Vec<CFile>, usize) {
    let mut f = Vec::new();
    for (s, set) in ss.iter().enumerate() {
        for v in 0..set.values.len() {
            for sp in 0..spellings(set.path).len() {
                f.push(CFile::Assigns(vec![Assign { s, v, sp }]));
            }
        }
    }
    let n1 = f.len();
    for s1 in 0..ss.len() {
        for s2 in s1..ss.len() {
            if section(ss[s1].path) != section(ss[s2].path) {
                continue;
            }
            for v1 in 0..2 {
                for v2 in 0..2 {
                    if s1 == s2 && v1 == v2 {
                        continue;
                    }
                    for sp1 in 0..spellings(ss[s1].path).len() {
                        for sp2 in 0..spellings(ss[s2].path).len() {
                            if s1 == s2 && sp1 >= sp2 {
                                continue;
                            }
                            let c = CFile::Assigns(vec![Assign { s: s1, v: v1, sp: sp1 }, Assign { s: s2, v: v2, sp: sp2 }]);
                            if render(&c, ss).is_some() {
                                f.push(c);
                            }
                        }
                    }
                }
            }
        }
    }
    for r in RAW_FILES {
        f.push(CFile::Raw(r));
    }
    (f, n1)
}

fn get_path<'a>(v: &'a Value, path: &str) -> Option<&'a Value> {
    let mut cur = v;
    for seg in path.split('.') {
        cur = cur.get(seg)?;
    }
    Some(cur)
}

/// The model: final value per setting after loading `files` in order. None = the statement does
/// not determine it (wrong-typed file present, or the deciding file sets the setting twice).
fn model(files: &[CFile], ss: &[Setting]) -> Option<Vec<(usize, Value)>> {
    let mut out: Vec<(usize, Value)> = Vec::new();
    for (s, set) in ss.iter().enumerate() {
        let mut cur: Option<Value> = None;
        for f in files {
            let CFile::Assigns(a) = f else { return None };
            let mine: Vec<&Assign> = a.iter().filter(|x| x.s == s).collect();
            if mine.is_empty() {
                continue;
            }
            if mine.len() > 1 {
                // in-file conflict: which spelling wins inside one file is not stated
                return None;
            }
            let v = &set.values[mine[0].v];
            cur = Some(match (set.kind, cur.take()) {
                (Kind::Scalar, _) | (Kind::Array, None) => v.clone(),
                (Kind::Array, Some(prev)) => {
                    let mut items = prev.as_array().cloned().unwrap_or_default();
                    for it in v.as_array().cloned().unwrap_or_default() {
                        if !items.contains(&it) {
                            items.push(it);
                        }
                    }
                    Value::Array(items)
                }
            });
        }
        if let Some(v) = cur {
            out.push((s, v));
        }
    }
    Some(out)
}

fn case_of(files: &[CFile], ss: &[Setting]) -> Option<Case> {
    let mut v = Vec::new();
    for f in files {
        v.push(Source::json(render(f, ss)?));
    }
    Some(Case::of(v))
}

fn witness(files: &[CFile], ss: &[Setting]) -> Value {
    Value::Array(
        files
            .iter()
            .map(|f| match f {
                CFile::Raw(t) => json!({"raw": t}),
                CFile::Assigns(a) => {
                    json!({
                        "set": a.iter().map(|x| json!({"key": ss[x.s].path, "value": ss[x.s].values[x.v], "spelling": spelling_name(ss[x.s].path, x.sp), "sp": x.sp})).collect::<Vec<_>>(),
                        "text": render(f, ss),
                    })
                }
            })
            .collect(),
    )
}

fn from_witness(w: &Value, ss: &[Setting]) -> Option<Vec<CFile>> {
    let mut out = Vec::new();
    for f in w.as_array()? {
        if let Some(r) = f.get("raw").and_then(|r| r.as_str()) {
            out.push(CFile::Raw(RAW_FILES.iter().find(|x| **x == r)?));
            continue;
        }
        let mut a = Vec::new();
        for x in f.get("set")?.as_array()? {
            let s = ss.iter().position(|s| Some(s.path) == x.get("key").and_then(|k| k.as_str()))?;
            let v = ss[s].values.iter().position(|v| Some(v) == x.get("value"))?;
            let sp = x.get("sp")?.as_u64()? as usize;
            a.push(Assign { s, v, sp });
        }
        out.push(CFile::Assigns(a));
    }
    Some(out)
}

static STATES: AtomicU64 = AtomicU64::new(0);
static REPLAYS: AtomicU64 = AtomicU64::new(0);

/// Judge one tuple of files. Returns every violated clause as (signature, detail).
fn judge(files: &[CFile], ss: &[Setting], st: Option<&mut Stats>) -> Vec<(String, String)> {
    let mut local = Stats::default();
    let counting = st.is_some();
    let st = st.unwrap_or(&mut local);
    let mut bad = Vec::new();
    let Some(case) = case_of(files, ss) else { return bad };
    let base = run_case(&case, false);
    let k = base.k;
    let base_class = class_of(&base);
    // S1: every seam order, each executed twice
    let mut classes: Vec<(Option<Vec<usize>>, String)> = Vec::new();
    for (i, p) in perms_for(k).into_iter().enumerate() {
        let c = case.with_perm(p.clone());
        // the canonical order is executed twice (repeated load), every other order once
        let first = class_of(&run_case(&c, false));
        if counting {
            STATES.fetch_add(1, Ordering::Relaxed);
            if i == 0 {
                REPLAYS.fetch_add(1, Ordering::Relaxed);
            }
        }
        st.eval(k >= 2);
        if i == 0 && first != base_class {
            bad.push(("repeated-load-differs".to_string(), format!("same files, same seam order: {base_class} then {first}")));
        }
        classes.push((p, first));
    }
    if k > MAX_PERM_K {
        st.undecided += 1;
        st.outcome("seam-orders-capped");
    }
    if let Some((p, cl)) = classes.iter().find(|(_, c)| *c != base_class) {
        let show = |cl: &str, p: &Option<Vec<usize>>| -> String {
            if cl.starts_with("ok:") {
                match run_case(&case.with_perm(p.clone()), false).res {
                    Ok(v) => format!("config with non-default part {}", diff_from_default(&v, false)),
                    Err(e) => e,
                }
            } else {
                cl.to_string()
            }
        };
        bad.push((
            "order-dependent".to_string(),
            format!(
                "the result depends on the iteration order of the {k} flattened keys (hash order in production): sorted order gives {}; order {:?} gives {}",
                show(&base_class, &None),
                p.clone().unwrap_or_default(),
                show(cl, p)
            ),
        ));
        st.outcome("S1:order-dependent");
    } else {
        st.outcome("S1:same-for-all-orders");
    }
    // S2–S4 need a defined expectation and a loaded result
    let Ok(got) = &base.res else {
        if !bad.iter().any(|b| b.0 == "order-dependent") {
            bad.push(("load-panics".to_string(), base_class.clone()));
        }
        return bad;
    };
    // S2, judged directly: a single assignment must load to the same Emmyrc in every spelling
    // (checked once per assignment, at its flat spelling)
    if let [CFile::Assigns(a)] = files {
        if a.len() == 1 && a[0].sp == 0 {
            for sp in 1..spellings(ss[a[0].s].path).len() {
                let other = [CFile::Assigns(vec![Assign { s: a[0].s, v: a[0].v, sp }])];
                let Some(c) = case_of(&other, ss) else { continue };
                st.eval(true);
                match run_case(&c, false).res {
                    Ok(v) if &v == got => st.outcome("S2:same-as-flat"),
                    Ok(v) => {
                        st.outcome("S2:differs-from-flat");
                        bad.push((
                            "flat-differs-from-nested".to_string(),
                            format!(
                                "{} = {}: flat spelling loads to non-default part {}, {} spelling {} to {}",
                                ss[a[0].s].path,
                                ss[a[0].s].values[a[0].v],
                                diff_from_default(got, false),
                                spelling_name(ss[a[0].s].path, sp),
                                render(&other[0], ss).unwrap_or_default(),
                                diff_from_default(&v, false)
                            ),
                        ));
                        return bad;
                    }
                    Err(e) => {
                        bad.push(("flat-differs-from-nested".to_string(), format!("the {} spelling panics: {e}", spelling_name(ss[a[0].s].path, sp))));
                        return bad;
                    }
                }
            }
        }
    }
    let Some(fin) = model(files, ss) else {
        st.undecided += 1;
        st.outcome("content:not-determined-by-statement");
        return bad;
    };
    // reference load: the final values in one nested-spelling file
    let mut m = Map::new();
    for (s, v) in &fin {
        let sp = spellings(ss[*s].path);
        put(&mut m, &sp[nested_spelling(ss[*s].path)], v);
    }
    let reference = run_case(&Case::one(Value::Object(m).to_string()), false);
    let Ok(expect) = reference.res else {
        st.undecided += 1;
        st.outcome("content:reference-load-panics");
        return bad;
    };
    // the reference must show the model's values (guards against the fallback-to-default path)
    for (s, v) in &fin {
        if get_path(&expect, ss[*s].path) != Some(v) {
            st.undecided += 1;
            st.outcome("content:reference-does-not-show-value");
            return bad;
        }
    }
    if *got == expect {
        st.outcome(if files.len() == 1 { "S2:spelling-equivalent" } else { "S3/S4:as-model" });
        return bad;
    }
    // name the clause that fails: first assigned setting whose field differs
    let mut named = false;
    for (s, v) in &fin {
        let actual = get_path(got, ss[*s].path).cloned().unwrap_or(Value::Null);
        if &actual == v {
            continue;
        }
        named = true;
        let setters: Vec<usize> = files.iter().enumerate().filter(|(_, f)| matches!(f, CFile::Assigns(a) if a.iter().any(|x| x.s == *s))).map(|(i, _)| i).collect();
        let sig = if files.len() == 1 {
            "flat-differs-from-nested"
        } else {
            match ss[*s].kind {
                Kind::Scalar => {
                    if setters.len() > 1 {
                        "later-file-does-not-win"
                    } else {
                        "scalar-lost"
                    }
                }
                Kind::Array => {
                    let items = actual.as_array().cloned().unwrap_or_default();
                    let uniq: BTreeSet<String> = items.iter().map(|x| x.to_string()).collect();
                    let want = v.as_array().cloned().unwrap_or_default();
                    if uniq.len() < items.len() {
                        "array-has-duplicates"
                    } else if want.iter().any(|w| !items.contains(w)) {
                        "array-not-appended"
                    } else {
                        "array-order"
                    }
                }
            }
        };
        bad.push((sig.to_string(), format!("{} is {actual} but the statement gives {v} (set by file(s) {setters:?} of {})", ss[*s].path, files.len())));
        st.outcome(&format!("content:{sig}"));
        break;
    }
    if !named {
        bad.push((
            "unrelated-field-differs".to_string(),
            format!("got non-default part {}, reference {}", diff_from_default(got, false), diff_from_default(&expect, false)),
        ));
        st.outcome("content:unrelated-field-differs");
    }
    bad
}

fn fails_with(files: &[CFile], ss: &[Setting], sig: &str) -> bool {
    judge(files, ss, None).iter().any(|b| b.0 == sig)
}

/// shrink a violating tuple while the same clause keeps failing: drop files, drop assignments,
/// canonical setting of the same kind, nested spelling, smallest values.
fn minimise(files: &[CFile], ss: &[Setting], sig: &str) -> Vec<CFile> {
    let mut cur = files.to_vec();
    let canon = |k: Kind| ss.iter().position(|s| s.kind == k).unwrap_or(0);
    loop {
        let mut cands: Vec<Vec<CFile>> = Vec::new();
        for i in 0..cur.len() {
            let mut c = cur.clone();
            c.remove(i);
            if !c.is_empty() {
                cands.push(c);
            }
        }
        for i in 0..cur.len() {
            if let CFile::Assigns(a) = &cur[i] {
                if a.len() > 1 {
                    for j in 0..a.len() {
                        let mut b = a.clone();
                        b.remove(j);
                        let mut c = cur.clone();
                        c[i] = CFile::Assigns(b);
                        cands.push(c);
                    }
                }
            }
        }
        // one setting → the canonical setting of its kind, everywhere
        let used: BTreeSet<usize> = cur.iter().flat_map(|f| if let CFile::Assigns(a) = f { a.iter().map(|x| x.s).collect::<Vec<_>>() } else { vec![] }).collect();
        for &s in &used {
            let to = canon(ss[s].kind);
            if to == s || used.contains(&to) {
                continue;
            }
            let nsp_from = spellings(ss[s].path).len();
            let nsp_to = spellings(ss[to].path).len();
            let c: Vec<CFile> = cur
                .iter()
                .map(|f| match f {
                    CFile::Assigns(a) => CFile::Assigns(
                        a.iter()
                            .map(|x| {
                                if x.s == s {
                                    let sp = if x.sp == 0 { 0 } else if x.sp == nsp_from - 1 { nsp_to - 1 } else { 1.min(nsp_to - 1) };
                                    Assign { s: to, v: x.v, sp }
                                } else {
                                    x.clone()
                                }
                            })
                            .collect(),
                    ),
                    r => r.clone(),
                })
                .collect();
            cands.push(c);
        }
        // smaller value index, then nested spelling
        for i in 0..cur.len() {
            if let CFile::Assigns(a) = &cur[i] {
                for j in 0..a.len() {
                    for v in 0..a[j].v {
                        let mut b = a.clone();
                        b[j].v = v;
                        let mut c = cur.clone();
                        c[i] = CFile::Assigns(b);
                        cands.push(c);
                    }
                    let n = nested_spelling(ss[a[j].s].path);
                    if a[j].sp != n {
                        let mut b = a.clone();
                        b[j].sp = n;
                        let mut c = cur.clone();
                        c[i] = CFile::Assigns(b);
                        cands.push(c);
                    }
                }
            }
        }
        let mut progressed = false;
        for c in cands {
            if c != cur && case_of(&c, ss).is_some() && fails_with(&c, ss, sig) {
                cur = c;
                progressed = true;
                break;
            }
        }
        if !progressed {
            return cur;
        }
    }
}

type Col = Collector<Vec<CFile>>;

fn check_tuple(files: &[CFile], ss: &[Setting], st: &mut Stats, col: &Col) {
    for (sig, _) in judge(files, ss, Some(st)) {
        let assigns: usize = files.iter().map(|f| if let CFile::Assigns(a) = f { a.len() } else { 1 }).sum();
        col.offer(&sig, &files.to_vec(), (files.len() * 100 + assigns, format!("{files:?}")));
    }
}

/// one representative (the smallest raw tuple) per signature: re-execute, minimise, report
fn report_all(col: &Col, ss: &[Setting], st: &mut Stats) {
    for (sig, files, n) in col.take() {
        // determinism before verdict
        if !fails_with(&files, ss, &sig) {
            st.undecided += 1;
            st.outcome("unstable-violation");
            continue;
        }
        let m = minimise(&files, ss, &sig);
        let detail = judge(&m, ss, None).into_iter().find(|b| b.0 == sig).map(|b| b.1).unwrap_or_default();
        add_violation(st, Violation { signature: sig, witness: witness(&m, ss), detail }, n);
    }
}

/// Fresh-process replays of tuples: (a) every (files, seam order) in 2 fresh processes must give the
/// in-process observation; (b) the files loaded with the real hash order in 2 fresh processes must
/// give one of the observations enumerated over the seam orders. Returns (runs, violations).
fn fresh_check(tuples: &[Vec<CFile>], ss: &[Setting], st: &mut Stats) -> (u64, Vec<(usize, String, String)>) {
    let mut batch: Vec<Value> = Vec::new();
    let mut owner: Vec<usize> = Vec::new();
    let mut expect: Vec<String> = Vec::new();
    let mut plain: Vec<Value> = Vec::new();
    let mut plain_owner: Vec<usize> = Vec::new();
    let mut allowed: Vec<Vec<String>> = Vec::new();
    for (ti, t) in tuples.iter().enumerate() {
        let Some(case) = case_of(t, ss) else { continue };
        let k = run_case(&case, false).k;
        let mut seen = Vec::new();
        for p in perms_for(k) {
            let c = case.with_perm(p);
            let cl = class_of(&run_case(&c, false));
            batch.push(c.to_json());
            owner.push(ti);
            expect.push(cl.clone());
            seen.push(cl);
        }
        plain.push(case.to_json());
        plain_owner.push(ti);
        allowed.push(seen);
    }
    let mut runs = 0u64;
    let mut bad: Vec<(usize, String, String)> = Vec::new();
    for round in 0..2 {
        let got = run_batch(&batch, false, true, Duration::from_secs(30));
        for (i, g) in got.iter().enumerate() {
            runs += 1;
            st.eval(true);
            if g != &expect[i] {
                st.outcome("fresh-process:differs");
                if !bad.iter().any(|b| b.0 == owner[i] && b.1 == "fresh-process-differs") {
                    bad.push((owner[i], "fresh-process-differs".into(), format!("same files and seam order {}: in-process {} but fresh process (round {round}) {g}", batch[i]["perm"], expect[i])));
                }
            } else {
                st.outcome("fresh-process:same");
            }
        }
        let got = run_batch(&plain, false, false, Duration::from_secs(30));
        for (i, g) in got.iter().enumerate() {
            runs += 1;
            st.eval(true);
            if !allowed[i].contains(g) {
                st.outcome("real-hash-order:outside-enumerated-orders");
                if !bad.iter().any(|b| b.0 == plain_owner[i] && b.1 == "seam-does-not-own-order") {
                    bad.push((plain_owner[i], "seam-does-not-own-order".into(), format!("with the real hash order a fresh process gives {g}, which no enumerated seam order gives ({:?})", allowed[i])));
                }
            } else {
                st.outcome("real-hash-order:within-enumerated-orders");
            }
        }
    }
    (runs, bad)
}

pub fn replay(w: &Value, want: Option<&str>) -> Option<Violation> {
    let ss = settings();
    let files = from_witness(w, &ss)?;
    let mut bad = judge(&files, &ss, None);
    if matches!(want, Some("fresh-process-differs") | Some("seam-does-not-own-order")) {
        let mut st = Stats::default();
        bad.extend(fresh_check(&[files.clone()], &ss, &mut st).1.into_iter().map(|b| (b.1, b.2)));
    }
    let pick = bad.iter().find(|b| Some(b.0.as_str()) == want).or(bad.first())?;
    Some(Violation { signature: pick.0.clone(), witness: w.clone(), detail: pick.1.clone() })
}

pub fn run(args: &Args) -> ! {
    if let Some(w) = args.replay_witness() {
        let sig = w.get("signature").and_then(|s| s.as_str()).map(|s| s.to_string());
        let wit = if w.get("witness").is_some() { w["witness"].clone() } else { w.clone() };
        let r = replay(&wit, sig.as_deref());
        cleanup();
        finish_replay(r, "C32");
    }
    let dl = args.deadline();
    let thorough = args.tier == Tier::Thorough;
    let mut rep = Report::new("C32", "model_checking");
    let mut all = Stats::default();
    let ss = settings();
    let (f, n1) = alphabet(&ss);
    let nf = f.len();
    let _ = default_emmyrc();
    let mut spaces: Vec<(String, u64, bool)> = Vec::new();
    let col: Col = Collector::new();
    let is_raw = |x: &CFile| matches!(x, CFile::Raw(_));
    let touches = |x: &CFile, paths: &[&str]| matches!(x, CFile::Assigns(a) if a.iter().all(|y| paths.contains(&ss[y.s].path)));
    let single = |x: &CFile| matches!(x, CFile::Assigns(a) if a.len() == 1);
    // sub-alphabets
    let f13: Vec<CFile> = f.iter().filter(|x| single(x) || is_raw(x)).cloned().collect();
    let fq: Vec<CFile> = f.iter().filter(|x| single(x) || is_raw(x) || touches(x, &["diagnostics.enable", "diagnostics.globals", "diagnostics.disable"])).cloned().collect();
    let ft: Vec<CFile> = f13.iter().filter(|x| is_raw(x) || touches(x, &["diagnostics.enable", "diagnostics.globals", "format.externalTool.program"])).cloned().collect();

    let run_tuples = |name: String, alpha: &[CFile], n: usize, only: &(dyn Fn(&[CFile]) -> bool + Sync), all: &mut Stats, spaces: &mut Vec<(String, u64, bool)>| {
        let a = alpha.len();
        let total = (a as u64).pow(n as u32);
        let (st, ok) = par_range(total, args.threads, &dl, |i, st| {
            let mut idx = Vec::new();
            decode_word(i, a as u64, n, &mut idx);
            let t: Vec<CFile> = idx.iter().map(|&j| alpha[j].clone()).collect();
            if !only(&t) {
                return;
            }
            if i % 1009 == 5 {
                st.sample(|| json!({"tuple_size": n, "files": witness(&t, &ss)}));
            }
            check_tuple(&t, &ss, st, &col);
        });
        all.merge(st);
        spaces.push((name, total, ok));
    };
    let any = |_: &[CFile]| true;
    run_tuples(format!("single files over F ({nf})"), &f, 1, &any, &mut all, &mut spaces);
    if thorough {
        run_tuples(format!("ordered pairs over F ({nf})"), &f, 2, &any, &mut all, &mut spaces);
        run_tuples(format!("ordered triples over F1∪F3 ({})", f13.len()), &f13, 3, &any, &mut all, &mut spaces);
        let one_double = |t: &[CFile]| t.iter().filter(|x| matches!(x, CFile::Assigns(a) if a.len() == 2)).count() == 1;
        run_tuples(format!("ordered triples over F ({nf}) with exactly one two-assignment file"), &f, 3, &one_double, &mut all, &mut spaces);
    } else {
        run_tuples(format!("ordered pairs over F1∪F3∪F2(diagnostics section) ({})", fq.len()), &fq, 2, &any, &mut all, &mut spaces);
        run_tuples(format!("ordered triples over the F1∪F3 files of diagnostics.enable, diagnostics.globals, format.externalTool.program ({})", ft.len()), &ft, 3, &any, &mut all, &mut spaces);
    }
    {
        let mut st = Stats::default();
        report_all(&col, &ss, &mut st);
        all.merge(st);
    }

    // supplementary (sampled, labelled so): fresh processes — (a) with the seam order installed the
    // observation must equal the in-process one; (b) with no harness order (real hash seed) it must
    // be one of the observations enumerated for that tuple.
    let stride = args.tier.pick(97, 23);
    let sa: &[CFile] = if thorough { &f } else { &fq };
    let sampled: Vec<Vec<CFile>> = (0..sa.len() * sa.len()).step_by(stride).map(|i| vec![sa[i / sa.len()].clone(), sa[i % sa.len()].clone()]).collect();
    let mut fresh_runs = 0u64;
    let mut st = Stats::default();
    if !dl.expired() {
        let (runs, bad) = fresh_check(&sampled, &ss, &mut st);
        fresh_runs = runs;
        for (ti, sig, detail) in bad {
            st.violation(Violation { signature: sig, witness: witness(&sampled[ti], &ss), detail });
        }
    }
    all.merge(st);

    rep.exhaustive = spaces.iter().all(|s| s.2);
    rep.rule = format!(
        "file alphabet F ({nf} files): F1 = every single assignment of 6 scalar + 3 array settings × values × spelling (flat \"a.b\" / nested / mixed for 3-segment keys) ({n1} files), F2 = two assignments in one file (same section, every spelling mix; same setting twice in two spellings), F3 = {} wrong-typed section files; \
         tuple spaces: {}; every tuple is loaded by the real load_configs under all k! iteration orders of the flattened key map (seam {SITE}, k ≤ {MAX_PERM_K}), the canonical order twice; \
         oracle per sentence of the statement: S1 identical serialized Emmyrc for all orders and repeats; S2 a single assignment loads to the same Emmyrc in every spelling; S3 scalar = last setting file's value; S4 array = concatenation in file order without duplicates; S2–S4 against a reference load of the model's final values (undecided when the statement leaves the value open: wrong-typed file, in-file conflict). \
         Supplementary, sampled (every {stride}th pair of the pair space): each (files, order) replayed in 2 fresh processes, and each sampled pair loaded in 2 fresh processes with the real hash order, which must fall within the enumerated observations. non-trivial = ≥2 flattened keys at the seam",
        RAW_FILES.len(),
        spaces.iter().map(|x| x.0.clone()).collect::<Vec<_>>().join("; "),
    );
    rep.bounds = json!({
        "spaces": spaces.iter().map(|(n, c, ok)| json!({"space": n, "tuples": c, "completed": ok})).collect::<Vec<_>>(),
        "alphabet_files": nf, "single_assignment_files": n1, "max_seam_k": MAX_PERM_K,
        "wall_cap_s": args.wall_cap_s, "wall_cap_hit": dl.was_hit(),
    });
    rep.assumptions = vec![
        "hash iteration order reaches the result only through the flattened key map in to_emmyrc_json (seam H2); serde_json maps are BTreeMaps".into(),
        "real hash seeds are sampled (fresh processes), not enumerated; the deciding step is the permutation enumeration".into(),
        "settings, values and file counts outside the alphabet are not covered".into(),
    ];
    let states = STATES.load(Ordering::Relaxed);
    rep.set("states", json!(states));
    rep.set("transitions", json!(LOADS.load(Ordering::Relaxed)));
    rep.set("traces_validated_against_impl", json!(REPLAYS.load(Ordering::Relaxed) + fresh_runs));
    rep.set("fresh_process_replays", json!(fresh_runs));
    cleanup();
    rep.finish(args, all)
}
