//! eng_cfg — C31 (loading any configuration never crashes) and C32 (configuration merging is
//! deterministic and later files win): bounded-exhaustive exploration of the real
//! `load_configs` + `Emmyrc::pre_process_emmyrc`, with every iteration order of the flattened
//! key map enumerated through the `config.to_emmyrc_json` order seam (hook H2).
mod c31;
mod c32;
mod common;

fn main() {
    let raw: Vec<String> = std::env::args().collect();
    if raw.len() > 2 && raw[1] == "--child" {
        common::child(&raw[2..]);
    }
    let args = vcore::parse_args();
    common::init_work(&args);
    match args.prop.as_str() {
        "C31" => c31::run(&args),
        "C32" => c32::run(&args),
        "DUMP" => {
            // debugging aid: --case '<case json>' [--pre 0|1]
            let txt = args.extra.get("case").cloned().unwrap_or_else(|| "{\"files\":[]}".into());
            let v: serde_json::Value = serde_json::from_str(&txt).unwrap_or_else(|e| vcore::die(&format!("bad case: {e}")));
            let c = common::Case::from_json(&v).unwrap_or_else(|| vcore::die("bad case"));
            let pre = args.extra.get("pre").map(|s| s != "0").unwrap_or(true);
            let o = common::run_case(&c, pre);
            println!("k = {}", o.k);
            match o.res {
                Ok(v) => println!("{}", serde_json::to_string_pretty(&common::diff_from_default(&v, pre)).unwrap_or_default()),
                Err(e) => println!("PANIC {e}\nsignature {}", common::panic_sig(&e)),
            }
            common::cleanup();
        }
        "MIN" => {
            // debugging aid: minimise --case '<case json>' for --sig '<signature>'
            let txt = args.extra.get("case").cloned().unwrap_or_default();
            let v: serde_json::Value = serde_json::from_str(&txt).unwrap_or_else(|e| vcore::die(&format!("bad case: {e}")));
            let c = common::Case::from_json(&v).unwrap_or_else(|| vcore::die("bad case"));
            let sig = args.extra.get("sig").cloned().unwrap_or_default();
            println!("{}", c31::minimise(&c, &sig, !sig.starts_with("panic:")).to_json());
            common::cleanup();
        }
        p => vcore::die(&format!("eng_cfg does not serve {p}")),
    }
}
