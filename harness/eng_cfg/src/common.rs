//! Shared by C31/C32: the case vocabulary (files on disk + client partial configs + seam order),
//! the one function that runs a case through the real loader, panic signatures, subprocess
//! batches (for cases that may abort or hang, and for fresh-hash-seed replays) and a JSON shrinker.
use emmylua_code_analysis::{load_configs, verif_hooks};
use serde_json::{Map, Value, json};
use std::cell::RefCell;
use std::io::{BufRead, BufReader, Write};
use std::path::PathBuf;
use std::process::{Command, Stdio};
use std::sync::OnceLock;
use std::sync::atomic::{AtomicU64, AtomicUsize, Ordering};
use std::time::Duration;
use vcore::*;

/// name of the order seam in `flatten_config::to_emmyrc_json` (hook H2)
pub const SITE: &str = "config.to_emmyrc_json";
/// all k! seam orders are enumerated up to this k (720 orders); larger maps are counted as capped
pub const MAX_PERM_K: usize = 6;

static WORK: OnceLock<PathBuf> = OnceLock::new();
static NEXT_DIR: AtomicUsize = AtomicUsize::new(0);
/// every call of the real loader made by this process
pub static LOADS: AtomicU64 = AtomicU64::new(0);

thread_local! {
    static TDIR: RefCell<Option<PathBuf>> = const { RefCell::new(None) };
    /// what this thread last put into slot i (skip rewriting identical files between seam orders)
    static WRITTEN: RefCell<Vec<Option<Source>>> = const { RefCell::new(Vec::new()) };
}

/// Scratch root = `--work` (given by ./check); HOME is pointed into it before any thread starts.
pub fn init_work(args: &Args) {
    let w = match args.extra.get("work") {
        Some(w) => PathBuf::from(w).join("eng_cfg"),
        None => args.out.parent().map(|p| p.to_path_buf()).unwrap_or_default().join(format!("eng_cfg_work_{}", std::process::id())),
    };
    set_work(w);
}

fn set_work(w: PathBuf) {
    let home = w.join("home");
    if let Err(e) = std::fs::create_dir_all(&home) {
        die(&format!("cannot create scratch dir {home:?}: {e}"));
    }
    // single-threaded at this point
    unsafe {
        std::env::set_var("HOME", &home);
        // `PreProcessContext::new` looks `luarocks` up on PATH for every load; an empty directory
        // makes that lookup one failed exec (and the result the same on every machine)
        std::env::set_var("PATH", &home);
        std::env::remove_var("EMMYLUALS_CONFIG");
    }
    let _ = WORK.set(w);
}

pub fn work() -> PathBuf {
    WORK.get().cloned().unwrap_or_else(|| die("work dir not initialised"))
}

pub fn cleanup() {
    if let Some(w) = WORK.get() {
        let _ = std::fs::remove_dir_all(w);
    }
}

fn tdir() -> PathBuf {
    TDIR.with(|d| {
        let mut d = d.borrow_mut();
        if d.is_none() {
            let n = NEXT_DIR.fetch_add(1, Ordering::Relaxed);
            let p = work().join(format!("p{}_t{n}", std::process::id()));
            for i in 0..4 {
                let _ = std::fs::create_dir_all(p.join(format!("c{i}")));
            }
            *d = Some(p);
        }
        d.clone().unwrap_or_default()
    })
}

// ------------------------------------------------------------------ cases

#[derive(Clone, Debug, PartialEq)]
pub enum Data {
    Text(String),
    Bytes(Vec<u8>),
    /// the path handed to the loader does not exist
    Missing,
    /// the path handed to the loader is a directory
    Dir,
}

#[derive(Clone, Debug, PartialEq)]
pub struct Source {
    pub name: String,
    pub data: Data,
}

impl Source {
    pub fn json(text: impl Into<String>) -> Source {
        Source { name: ".emmyrc.json".into(), data: Data::Text(text.into()) }
    }
    pub fn named(name: &str, text: impl Into<String>) -> Source {
        Source { name: name.into(), data: Data::Text(text.into()) }
    }
    pub fn bytes(name: &str, b: Vec<u8>) -> Source {
        match String::from_utf8(b) {
            Ok(s) => Source { name: name.into(), data: Data::Text(s) },
            Err(e) => Source { name: name.into(), data: Data::Bytes(e.into_bytes()) },
        }
    }
    pub fn missing() -> Source {
        Source { name: "missing.json".into(), data: Data::Missing }
    }
    pub fn dir() -> Source {
        Source { name: "dir.json".into(), data: Data::Dir }
    }
    pub fn is_lua(&self) -> bool {
        self.name.ends_with(".lua")
    }
    pub fn text(&self) -> Option<&str> {
        match &self.data {
            Data::Text(t) => Some(t),
            _ => None,
        }
    }
}

/// One load: config files in load order, client partial configs, and the seam order
/// (None = canonical key-sorted order, i.e. the identity permutation).
#[derive(Clone, Debug, PartialEq)]
pub struct Case {
    pub files: Vec<Source>,
    pub partial: Vec<Value>,
    pub perm: Option<Vec<usize>>,
}

fn hex(b: &[u8]) -> String {
    b.iter().map(|x| format!("{x:02x}")).collect()
}
fn unhex(s: &str) -> Option<Vec<u8>> {
    if s.len() % 2 != 0 {
        return None;
    }
    (0..s.len() / 2).map(|i| u8::from_str_radix(s.get(2 * i..2 * i + 2)?, 16).ok()).collect()
}

impl Case {
    pub fn one(text: impl Into<String>) -> Case {
        Case { files: vec![Source::json(text)], partial: vec![], perm: None }
    }
    pub fn of(files: Vec<Source>) -> Case {
        Case { files, partial: vec![], perm: None }
    }
    pub fn with_perm(&self, p: Option<Vec<usize>>) -> Case {
        let mut c = self.clone();
        c.perm = match p {
            Some(p) if p.iter().enumerate().all(|(i, &x)| i == x) => None,
            p => p,
        };
        c
    }
    pub fn to_json(&self) -> Value {
        let files: Vec<Value> = self
            .files
            .iter()
            .map(|f| match &f.data {
                Data::Text(t) => json!({"name": f.name, "text": t}),
                Data::Bytes(b) => json!({"name": f.name, "hex": hex(b)}),
                Data::Missing => json!({"name": f.name, "missing": true}),
                Data::Dir => json!({"name": f.name, "dir": true}),
            })
            .collect();
        let mut m = Map::new();
        m.insert("files".into(), Value::Array(files));
        if !self.partial.is_empty() {
            m.insert("partial".into(), Value::Array(self.partial.clone()));
        }
        if let Some(p) = &self.perm {
            m.insert("perm".into(), json!(p));
        }
        Value::Object(m)
    }
    pub fn from_json(v: &Value) -> Option<Case> {
        let mut files = Vec::new();
        for f in v.get("files")?.as_array()? {
            let name = f.get("name")?.as_str()?.to_string();
            let data = if let Some(t) = f.get("text").and_then(|t| t.as_str()) {
                Data::Text(t.to_string())
            } else if let Some(h) = f.get("hex").and_then(|t| t.as_str()) {
                Data::Bytes(unhex(h)?)
            } else if f.get("dir").is_some() {
                Data::Dir
            } else {
                Data::Missing
            };
            files.push(Source { name, data });
        }
        let partial = v.get("partial").and_then(|p| p.as_array()).cloned().unwrap_or_default();
        let perm = v.get("perm").and_then(|p| p.as_array()).map(|a| a.iter().filter_map(|x| x.as_u64().map(|x| x as usize)).collect());
        Some(Case { files, partial, perm })
    }
}

pub struct Out {
    /// serialized `Emmyrc`, or the panic text
    pub res: Result<Value, String>,
    /// number of entries of the flattened key map seen at the seam (0 = the seam was not reached)
    pub k: usize,
}

/// Write the files under this thread's scratch directory and run the real
/// `load_configs` (+ `pre_process_emmyrc` when `pre`) with the case's seam order installed.
pub fn run_case(c: &Case, pre: bool) -> Out {
    run_case_mode(c, pre, true)
}

/// `canon == false`: no harness order at all — the loader iterates in its real hash order.
pub fn run_case_mode(c: &Case, pre: bool, canon: bool) -> Out {
    let d = tdir();
    let mut paths = Vec::new();
    for (i, f) in c.files.iter().enumerate() {
        let sub = d.join(format!("c{i}"));
        if i >= 4 {
            let _ = std::fs::create_dir_all(&sub);
        }
        let p = sub.join(&f.name);
        let same = WRITTEN.with(|w| {
            let mut w = w.borrow_mut();
            if w.len() <= i {
                w.resize(i + 1, None);
            }
            if w[i].as_ref() == Some(f) && !matches!(f.data, Data::Missing) {
                true
            } else {
                w[i] = Some(f.clone());
                false
            }
        });
        if same {
            paths.push(p);
            continue;
        }
        let r = match &f.data {
            Data::Text(t) => std::fs::write(&p, t),
            Data::Bytes(b) => std::fs::write(&p, b),
            Data::Missing => {
                let _ = std::fs::remove_file(&p);
                Ok(())
            }
            Data::Dir => std::fs::create_dir_all(&p),
        };
        if let Err(e) = r {
            die(&format!("cannot prepare {p:?}: {e}"));
        }
        paths.push(p);
    }
    verif_hooks::clear_orders();
    if canon {
        verif_hooks::set_canonical(true);
        if let Some(p) = &c.perm {
            verif_hooks::install_order(SITE, p.clone());
        }
    }
    let partial = if c.partial.is_empty() { None } else { Some(c.partial.clone()) };
    let root = d.join("ws");
    LOADS.fetch_add(1, Ordering::Relaxed);
    let res = catch(move || {
        let mut e = load_configs(paths, partial);
        // with all five expanded lists empty, pre_process_emmyrc only builds its context (two
        // regexes, the luarocks lookup) — input independent, exercised once in default_emmyrc()
        let has_paths = !(e.workspace.workspace_roots.is_empty()
            && e.workspace.library.is_empty()
            && e.workspace.packages.is_empty()
            && e.workspace.ignore_dir.is_empty()
            && e.resource.paths.is_empty());
        if pre && has_paths {
            e.pre_process_emmyrc(&root);
        }
        serde_json::to_value(&e).unwrap_or_else(|err| Value::String(format!("<unserialisable Emmyrc: {err}>")))
    });
    let k = verif_hooks::seen_lengths().iter().find(|(s, _)| *s == SITE).and_then(|(_, v)| v.first().copied()).unwrap_or(0);
    verif_hooks::clear_orders();
    Out { res, k }
}

/// the orders to enumerate for a flattened map of k entries (identity first, as `None`)
pub fn perms_for(k: usize) -> Vec<Option<Vec<usize>>> {
    if k <= 1 || k > MAX_PERM_K {
        return vec![None];
    }
    let mut v: Vec<Option<Vec<usize>>> = vec![None];
    v.extend(permutations(k).into_iter().skip(1).map(Some));
    v
}

static DEFAULTS: OnceLock<Value> = OnceLock::new();
/// the configuration produced by loading no file at all
pub fn default_emmyrc() -> &'static Value {
    DEFAULTS.get_or_init(|| {
        let root = tdir().join("ws");
        let r = catch(move || {
            let mut e = load_configs(vec![], None);
            e.pre_process_emmyrc(&root);
            serde_json::to_value(&e).unwrap_or(Value::Null)
        });
        match r {
            Ok(v) => v,
            Err(e) => die(&format!("loading no configuration panics: {e}")),
        }
    })
}

/// only the parts of a serialized Emmyrc that differ from the default (for readable details)
pub fn diff_from_default(v: &Value, _pre: bool) -> Value {
    fn d(a: &Value, b: &Value) -> Option<Value> {
        if a == b {
            return None;
        }
        match (a, b) {
            (Value::Object(x), Value::Object(y)) => {
                let mut m = Map::new();
                for (k, v) in x {
                    match y.get(k) {
                        Some(w) => {
                            if let Some(c) = d(v, w) {
                                m.insert(k.clone(), c);
                            }
                        }
                        None => {
                            m.insert(k.clone(), v.clone());
                        }
                    }
                }
                Some(Value::Object(m))
            }
            _ => Some(a.clone()),
        }
    }
    d(v, default_emmyrc()).unwrap_or(Value::Object(Map::new()))
}

// ------------------------------------------------------------------ panic signatures

/// `panic:<last two path components of the panic site>:<message words up to the first digit/quote>`
/// — no line numbers, no values, so one panic site is one signature.
pub fn panic_sig(msg: &str) -> String {
    let (m, loc) = msg.rsplit_once(" @ ").unwrap_or((msg, ""));
    let file = loc.rsplit_once(':').map(|x| x.0).unwrap_or(loc);
    let comps: Vec<&str> = file.split('/').filter(|c| !c.is_empty()).collect();
    let file2 = comps[comps.len().saturating_sub(2)..].join("/");
    let mut class = String::new();
    for ch in m.chars() {
        if ch.is_ascii_digit() || ch == '"' || ch == '`' || ch == '\'' || ch == ':' || ch == '(' {
            break;
        }
        class.push(if ch.is_ascii_alphabetic() { ch } else { '-' });
        if class.len() >= 40 {
            break;
        }
    }
    let class = class.trim_matches('-').to_string();
    format!("panic:{file2}:{class}")
}

/// outcome class of one load, as a single token: `ok:<hash>` or `panic:…`
pub fn class_of(o: &Out) -> String {
    match &o.res {
        Ok(v) => format!("ok:{:016x}", fnv(v.to_string().as_bytes())),
        Err(e) => panic_sig(e).replace(' ', "-"),
    }
}

// ------------------------------------------------------------------ subprocess batches

/// `eng_cfg --child batch <batch file> <work dir>`: run every case of the batch, printing
/// `START i` before and `DONE i <class>` after each, so that the parent can tell which case
/// killed or hung the process.
pub fn child(a: &[String]) -> ! {
    if a.len() < 3 || a[0] != "batch" {
        die("child usage: --child batch <file> <work>");
    }
    set_work(PathBuf::from(&a[2]));
    let txt = std::fs::read_to_string(&a[1]).unwrap_or_else(|e| die(&format!("child cannot read batch: {e}")));
    let v: Value = serde_json::from_str(&txt).unwrap_or_else(|e| die(&format!("child: bad batch: {e}")));
    let pre = v["pre"].as_bool().unwrap_or(true);
    let canon = v["canon"].as_bool().unwrap_or(true);
    let out = std::io::stdout();
    for (i, c) in v["cases"].as_array().cloned().unwrap_or_default().iter().enumerate() {
        let Some(c) = Case::from_json(c) else { die("child: bad case") };
        {
            let mut o = out.lock();
            let _ = writeln!(o, "START {i}");
            let _ = o.flush();
        }
        let r = run_case_mode(&c, pre, canon);
        let mut o = out.lock();
        let _ = writeln!(o, "DONE {i} {}", class_of(&r));
        let _ = o.flush();
    }
    if let Some(d) = TDIR.with(|d| d.borrow().clone()) {
        let _ = std::fs::remove_dir_all(d);
    }
    std::process::exit(0)
}

static BATCH_NO: AtomicUsize = AtomicUsize::new(0);

/// Run the cases in fresh processes; returns one class per case: what the child printed, or
/// `crash:signal-N` / `crash:exit-N` / `hang` when the child died or exceeded `timeout` on it.
pub fn run_batch(cases: &[Value], pre: bool, canon: bool, timeout: Duration) -> Vec<String> {
    let n = cases.len();
    let mut out = vec![String::new(); n];
    let mut start = 0usize;
    let exe = std::env::current_exe().unwrap_or_else(|e| die(&format!("current_exe: {e}")));
    while start < n {
        let no = BATCH_NO.fetch_add(1, Ordering::Relaxed);
        let file = work().join(format!("batch_{}_{no}.json", std::process::id()));
        let body = json!({"pre": pre, "canon": canon, "cases": &cases[start..]});
        if let Err(e) = std::fs::write(&file, body.to_string()) {
            die(&format!("cannot write batch file: {e}"));
        }
        let mut ch = Command::new(&exe)
            .arg("--child")
            .arg("batch")
            .arg(&file)
            .arg(work())
            .stdout(Stdio::piped())
            .stderr(Stdio::null())
            .spawn()
            .unwrap_or_else(|e| die(&format!("spawn child: {e}")));
        let Some(stdout) = ch.stdout.take() else { die("child stdout") };
        let (tx, rx) = std::sync::mpsc::channel::<String>();
        std::thread::spawn(move || {
            for l in BufReader::new(stdout).lines().map_while(Result::ok) {
                if tx.send(l).is_err() {
                    break;
                }
            }
        });
        let mut cur: usize = 0;
        let mut done_upto: usize = 0; // number of cases of this slice with a DONE line
        let mut hung = false;
        loop {
            match rx.recv_timeout(timeout) {
                Ok(l) => {
                    let p: Vec<&str> = l.splitn(3, ' ').collect();
                    match p[0] {
                        "START" => cur = p.get(1).and_then(|x| x.parse().ok()).unwrap_or(cur),
                        "DONE" => {
                            let i: usize = p.get(1).and_then(|x| x.parse().ok()).unwrap_or(cur);
                            if start + i < n {
                                out[start + i] = p.get(2).unwrap_or(&"").to_string();
                            }
                            done_upto = i + 1;
                        }
                        _ => {}
                    }
                }
                Err(std::sync::mpsc::RecvTimeoutError::Disconnected) => break,
                Err(std::sync::mpsc::RecvTimeoutError::Timeout) => {
                    let _ = ch.kill();
                    hung = true;
                    break;
                }
            }
        }
        let status = ch.wait();
        let _ = std::fs::remove_file(&file);
        if hung {
            out[start + cur] = "hang".into();
            start += cur + 1;
            continue;
        }
        if start + done_upto >= n {
            break;
        }
        // died before finishing: the case after the last DONE is the culprit
        use std::os::unix::process::ExitStatusExt;
        let how = match status {
            Ok(s) => match s.signal() {
                Some(sig) => format!("crash:signal-{sig}"),
                None => format!("crash:exit-{}", s.code().unwrap_or(-1)),
            },
            Err(_) => "crash:unknown".into(),
        };
        out[start + done_upto] = how;
        start += done_upto + 1;
    }
    out
}

// ------------------------------------------------------------------ JSON shrinking

/// One-step-smaller variants of a JSON value: drop an object key / array element, shrink a child,
/// turn a leaf into `1`, drop one character of a string.
pub fn shrink_candidates(v: &Value) -> Vec<Value> {
    let mut out = Vec::new();
    match v {
        Value::Object(m) => {
            for k in m.keys() {
                let mut c = m.clone();
                c.remove(k);
                out.push(Value::Object(c));
            }
            for (k, child) in m {
                let segs: Vec<&str> = k.split('.').collect();
                if segs.len() > 1 {
                    for i in 0..segs.len() {
                        let mut t = segs.clone();
                        t.remove(i);
                        let nk = t.join(".");
                        if !m.contains_key(&nk) {
                            let mut c = m.clone();
                            c.remove(k);
                            c.insert(nk, child.clone());
                            out.push(Value::Object(c));
                        }
                    }
                }
            }
            for (k, child) in m {
                for s in shrink_candidates(child) {
                    let mut c = m.clone();
                    c.insert(k.clone(), s);
                    out.push(Value::Object(c));
                }
            }
        }
        Value::Array(a) => {
            for i in 0..a.len() {
                let mut c = a.clone();
                c.remove(i);
                out.push(Value::Array(c));
            }
            if a.is_empty() {
                out.push(json!(1));
            }
            for (i, child) in a.iter().enumerate() {
                if child.is_object() || child.is_array() || child.is_string() {
                    for s in shrink_candidates(child) {
                        let mut c = a.clone();
                        c[i] = s;
                        out.push(Value::Array(c));
                    }
                }
            }
        }
        Value::String(s) => {
            let chars: Vec<char> = s.chars().collect();
            for i in 0..chars.len() {
                let mut c = chars.clone();
                c.remove(i);
                out.push(Value::String(c.into_iter().collect()));
            }
            out.push(json!(1));
        }
        Value::Number(n) => {
            if n.as_i64() != Some(1) {
                out.push(json!(1));
            }
        }
        Value::Bool(_) | Value::Null => out.push(json!(1)),
    }
    out
}

/// Rename the dotted-key segments used at the top level of the given JSON objects to a, b, c, …
/// (consistently, in order of first appearance). Nested keys are renamed with the same map.
pub fn rename_segments(objs: &[Value]) -> Vec<Value> {
    let mut names: Vec<String> = Vec::new();
    fn collect(v: &Value, names: &mut Vec<String>) {
        if let Value::Object(m) = v {
            for (k, c) in m {
                for seg in k.split('.') {
                    if !seg.is_empty() && !names.iter().any(|n| n == seg) {
                        names.push(seg.to_string());
                    }
                }
                collect(c, names);
            }
        }
    }
    for o in objs {
        collect(o, &mut names);
    }
    fn letter(i: usize) -> String {
        ((b'a' + (i % 26) as u8) as char).to_string()
    }
    fn apply(v: &Value, names: &[String]) -> Value {
        match v {
            Value::Object(m) => {
                let mut out = Map::new();
                for (k, c) in m {
                    let nk: Vec<String> = k
                        .split('.')
                        .map(|seg| match names.iter().position(|n| n == seg) {
                            Some(i) => letter(i),
                            None => seg.to_string(),
                        })
                        .collect();
                    out.insert(nk.join("."), apply(c, names));
                }
                Value::Object(out)
            }
            other => other.clone(),
        }
    }
    objs.iter().map(|o| apply(o, &names)).collect()
}

/// Rename the segments of every top-level dotted key by *position* (first segment a, second b, …),
/// which keeps "is a prefix of" relations between keys such as "" and "." ({"a":…, "a.b":…}).
/// None when two keys of one object would coincide.
pub fn rename_positional(objs: &[Value]) -> Option<Vec<Value>> {
    let mut out = Vec::new();
    for o in objs {
        let m = o.as_object()?;
        let mut n = Map::new();
        for (k, v) in m {
            let nk: Vec<String> = k.split('.').enumerate().map(|(i, _)| ((b'a' + (i % 26) as u8) as char).to_string()).collect();
            if n.insert(nk.join("."), v.clone()).is_some() {
                return None;
            }
        }
        out.push(Value::Object(n));
    }
    Some(out)
}

pub fn parse_obj(text: &str) -> Option<Value> {
    serde_json::from_str::<Value>(text).ok().filter(|v| v.is_object())
}


// ------------------------------------------------------------------ violation collector

/// Raw violating cases are only *collected* during the exploration: per key (signature, phase) the
/// smallest raw case by `rank` is kept together with the number of raw cases. The (expensive)
/// minimisation then runs once per key. The choice is deterministic: it depends on the set of
/// enumerated cases, not on thread scheduling.
pub struct Collector<R> {
    m: std::sync::Mutex<std::collections::BTreeMap<String, (R, u64, (usize, String))>>,
}

impl<R: Clone> Collector<R> {
    pub fn new() -> Self {
        Collector { m: std::sync::Mutex::new(Default::default()) }
    }
    pub fn offer(&self, key: &str, raw: &R, rank: (usize, String)) {
        let mut m = self.m.lock().unwrap_or_else(|e| e.into_inner());
        match m.get_mut(key) {
            Some(e) => {
                e.1 += 1;
                if rank < e.2 {
                    e.0 = raw.clone();
                    e.2 = rank;
                }
            }
            None => {
                m.insert(key.to_string(), (raw.clone(), 1, rank));
            }
        }
    }
    pub fn take(&self) -> Vec<(String, R, u64)> {
        let mut m = self.m.lock().unwrap_or_else(|e| e.into_inner());
        std::mem::take(&mut *m).into_iter().map(|(k, (r, n, _))| (k, r, n)).collect()
    }
}

/// record a violation that stands for `n` raw cases
pub fn add_violation(st: &mut Stats, v: Violation, n: u64) {
    let key = format!("{}:{}", v.signature, Violation::identity(&v.witness));
    st.violation(v);
    if n > 1 {
        st.raw_violating_cases += n - 1;
        if let Some(e) = st.violations.get_mut(&key) {
            e.1 += n - 1;
        }
    }
}
