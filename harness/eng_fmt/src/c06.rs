//! C06 — formatting is idempotent: f(f(x)) == f(x) byte for byte, and check_text(f(x)).changed == false
//! (what `luafmt --check` right after `luafmt --write` computes).
use crate::common::*;
use crate::space::{Verdict, explore};
use emmylua_formatter::check_text;
use vcore::*;

pub fn judge(text: &str, b: &Built) -> Verdict {
    let p1 = match format(text, b) {
        Ok(o) => o,
        Err(p) => return Verdict::Bad { sig: format!("panic:{}", panic_site(&p)), detail: p },
    };
    let r = match catch(|| check_text(&p1, b.level, &b.config)) {
        Ok(r) => r,
        Err(p) => return Verdict::Bad { sig: format!("panic-pass2:{}", panic_site(&p)), detail: p },
    };
    if r.formatted != p1 {
        // first differing line decides the class (keeps unrelated drifts apart while minimising)
        let (l1, l2): (Vec<&str>, Vec<&str>) = (p1.lines().collect(), r.formatted.lines().collect());
        let i = l1.iter().zip(l2.iter()).take_while(|(a, b)| a == b).count();
        let a = l1.get(i).copied().unwrap_or("<end>");
        let c = l2.get(i).copied().unwrap_or("<end>");
        let class = if a.trim_start().starts_with("--") || c.trim_start().starts_with("--") { "comment" } else { "code" };
        return Verdict::Bad {
            sig: format!("pass2!=pass1:{class}"),
            detail: format!("pass1 {:?} → pass2 {:?} (line {}: {a:?} → {c:?})", clip(&p1, 120), clip(&r.formatted, 120), i + 1),
        };
    }
    if r.changed || !r.changed_line_ranges.is_empty() {
        return Verdict::Bad { sig: "check-reports-change".into(), detail: format!("check_text(f(x)).changed == true for {:?}", clip(&p1, 120)) };
    }
    if p1 == text {
        let valid = !parse(text, b.level).has_syntax_errors();
        Verdict::Ok(if valid { "fixpoint-input" } else { "invalid-untouched" }, false)
    } else {
        Verdict::Ok("stable-after-one-pass", true)
    }
}

pub fn run(args: &Args) -> ! {
    explore(
        args,
        "C06",
        judge,
        "p1 = reformat_lua_code(x); check_text(p1) must return formatted == p1 byte for byte, changed == false and no changed line ranges",
    )
}
