//! Shared by C05/C06/C07: the statement/comment alphabet Σ_f, the formatter configuration space
//! (deviation bounding over every knob of `LuaFormatConfig`), the canonical form used by the
//! oracles, and witness minimisation.
use emmylua_formatter::{LuaFormatConfig, SourceText, reformat_lua_code};
use emmylua_parser::{LuaKind, LuaLanguageLevel, LuaParser, LuaSyntaxKind, LuaSyntaxNode, LuaSyntaxTree, LuaTokenKind, ParserConfig};
use rowan::{NodeOrToken, WalkEvent};
use serde_json::{Map, Value, json};
use std::collections::HashMap;
use std::sync::Mutex;

// ------------------------------------------------------------------ alphabet Σ_f

/// Σ_f: one item per statement form / table shape / call shape / string form / comment position /
/// doc tag and type form the formatter has code for. Every item is whole lines.
pub const SIGMA_F_BASE: &[&str] = &[
    // --- statements
    "local a = 1\n",
    "local a <const>, b <close> = 1, nil\n",
    "a, b.c = f(), g\n",
    "a.b:c(1)[2] = 3\n",
    "f()\n",
    "local x = y;\n",
    "(f or g)()\n",
    ";\n",
    "do local a end\n",
    "while a do f() break end\n",
    "repeat f() until a\n",
    "if a then f() elseif b then g() else h() end\n",
    "for i = 1, 2, 3 do end\n",
    "for k, v in pairs(t) do f(k) end\n",
    "function m.a.b:c(x, ...) return x end\n",
    "local function f(a, b) end\n",
    "return f(), 1\n",
    "::l::\n",
    "goto l\n",
    "global x = 1\n",
    "local f = function(a) return a end\n",
    "local f = function(a)\n  return a\nend\n",
    "if a then\n    if b then\n        f()\n    end\nend\n",
    // --- expressions
    "x = a and b or not c\n",
    "x = 1 .. 2\n",
    "x = - -1 - -a\n",
    "x = 2 ^ -3 // 4 % 5 & 6 | 7 ~ 8 << 9 >> 1\n",
    "x = a.b[\"c\"][ [[d]] ]\n",
    "x = #t == 0 and ~a ~= b\n",
    "x = (\"s\"):rep(2)\n",
    "x = (a + b) * (c)\n",
    "x = 0x1p4 + 1e-2 + .5 + 3.\n",
    // --- tables
    "local t = {}\n",
    "local t = { 1, 2, 3 }\n",
    "local t = { [1] = 2; y = {} }\n",
    "local t = { a = 1, b = 2, }\n",
    "local t = {\n  a = 1, -- c1\n  bbb = 2, -- c2\n}\n",
    "local t = { f = function() end, [k] = v; \"s\" }\n",
    "t = { { 1 }, { 2 }; }\n",
    "local t = { -- lead\n  1,\n  -- dangling\n}\n",
    "local t = {\n  --[[c]] 1, 2 --[[d]]\n}\n",
    "local t = {\n  a = 1,\n\n  b = 2\n}\n",
    "t = { [ 1 ] = 2, [ \"k\" ] = 3, [ [[l]] ] = 4 }\n",
    // --- calls
    "f\"x\"\n",
    "f'x'\n",
    "f[[x]]\n",
    "f{}\n",
    "f{ a = 1 }\n",
    "f(\"x\")\n",
    "f({})\n",
    "f(\"x\", 1)\n",
    "f(a, {})\n",
    "a.b:c\"x\":d{}\n",
    "f(--[[c]] a, b --[[d]])\n",
    "f(a, -- c\n  b)\n",
    "f(function() end, 1)\n",
    "f(g(h(1), 2), 3).x.y:z()\n",
    // --- strings
    "s = 'a\"b'\n",
    "s = \"a'b\"\n",
    "s = 'a\\'b\"c'\n",
    "s = \"\\65\\x41\\u{41}\\z  x\\\\\"\n",
    "s = [[a\n  b]]\n",
    "s = [==[a]]b]==]\n",
    "s = ''\n",
    // --- plain comments in every position
    "-- c\n",
    "--c\n",
    "--  a   b\n",
    "--[[ long\n  c ]]\n",
    "--[==[ l ]==]\n",
    "----------\n",
    "\n",
    "\n\n\n",
    "local a = 1 -- trailing\n",
    "local bbb = 22   -- tr2\n",
    "local a = 1 --[[ c ]]\n",
    "f() -- c\n",
    "local a --[[c]] = --[[d]] 1\n",
    "if a then -- c\nend\n",
    "function f() -- c\nend\n",
    "local function f(a, -- ca\n  b) -- cb\nend\n",
    "x = a -- c\n  + b\n",
    "if a then\n  -- only\nend\n",
    "do\n  f()\n  -- last\nend\n",
    "--region r\n",
    "--endregion\n",
    // --- doc comments: descriptions, fences
    "---\n",
    "--- desc\n",
    "---desc\n",
    "--- text *x* `y`\n",
    "--- - item\n---   continued\n",
    "---```lua\n---local x   =   1\n---```\n",
    "--- ```lua\n--- local t = {\n---     a = 1,\n--- }\n--- ```\n",
    // --- doc tags with every type form
    "---@class A : B, C\n",
    "---@class (exact) A<T>\n",
    "---@field x integer? desc\n",
    "---@field private [string] any\n",
    "---@field [1] string\n",
    "---@param x fun(a: string): T[] desc\n",
    "---@param chunk (fun(...): string) | X\n",
    "---@param ... any\n",
    "---@param x? string|nil\n",
    "--- @param y string # d\n",
    "---@return T ... desc\n",
    "---@return integer code, string? err # reason\n",
    "---@type table<string, {x: 1, y?: A}>\n",
    "---@type A | B\n",
    "---@type [string, integer][]\n",
    "---@type 'a' | \"b\" | 1 | true\n",
    "---@alias X\n---| 'a' # d\n---| \"bcd\" # longer\n",
    "---@alias Y 'a' | 'b'\n",
    "---@generic T : A, U\n",
    "---@overload fun(...): A | B\n",
    "---@enum (key) E\n",
    "---@cast a +?\n",
    "---@diagnostic disable-next-line: x\n",
    "---@operator add(A): B\n",
    "---@see a.b\n",
    "---@deprecated use x\n",
    "---@async\n",
    "---@nodiscard\n",
    "---@meta\n",
    "---@version >5.1\n",
    "---@module 'x'\n",
    "---@source x\n",
    "---@namespace N\n",
    "---@using N\n",
    "---@private\n",
    "---@readonly\n",
    "---@unknowntag stuff  here\n",
    "---@param x string desc\n--- more\n",
    "---@field x string\n---@field longer integer\n",
    "local x = y --[[@as string]]\n",
    "---@type string\nlocal a\n",
    "---@param a string\n---@return integer\nfunction f(a) end\n",
];

/// width-sensitive items: one logical line of exactly `target` bytes.
fn width_item(prefix: &str, sep: &str, suffix: &str, target: usize) -> String {
    let mut s = String::from(prefix);
    let mut n = 0;
    loop {
        let name = format!("v{:03}", n);
        let next_len = s.len() + if n > 0 { sep.len() } else { 0 } + name.len() + suffix.len();
        if next_len > target {
            break;
        }
        if n > 0 {
            s.push_str(sep);
        }
        s.push_str(&name);
        n += 1;
    }
    // pad the last name so that the line has exactly `target` bytes
    while s.len() + suffix.len() < target {
        s.push('z');
    }
    s.push_str(suffix);
    assert_eq!(s.len(), target);
    s.push('\n');
    s
}

pub fn sigma_f() -> Vec<String> {
    let mut v: Vec<String> = SIGMA_F_BASE.iter().map(|s| s.to_string()).collect();
    // lines at width-1, width, width+1 of the default width (120) for the main sequence kinds
    for w in [119usize, 120, 121] {
        v.push(width_item("local x = f(", ", ", ")", w));
    }
    for w in [120usize, 121] {
        v.push(width_item("x = ", " + ", "", w));
        v.push(width_item("local t = { ", ", ", " }", w));
    }
    v.push(width_item("local function f(", ", ", ") end", 121));
    v.push(width_item("if ", " and ", " then f() end", 121));
    v.push(width_item("return ", ", ", "", 121));
    v.push(width_item("x = a.", ".", "", 121));
    v.push(width_item("x = a:", "():", "()", 121));
    v.push(width_item("s = 's' .. ", " .. ", "", 121));
    v.push(width_item("-- ", " ", "", 121));
    v.push(width_item("---@param x string ", " ", "", 121));
    v.push(width_item("local a = 1 -- ", " ", "", 121));
    v
}

/// Σ₁ of the parser engine (fragments; mostly invalid words) — used for the invalid-input leg.
pub const SIGMA1: &[&str] = &[
    "a", "local ", "function ", "end ", "if ", "then ", "else ", "for ", "in ", "do ", "while ", "repeat ", "until ",
    "return ", "goto ", "global ", "not ", "nil", "=", "==", "~=", "<", ">", "+", "-", "..", "...", ".", ":", "::", ",", ";",
    "(", ")", "{", "}", "[", "]", "#", "//", "/*", "*/", "?", "|", "@", "!", "`", "$", "1", "0x", "1e", "\"", "'", "[[", "]]",
    "[=[", "\\", "--", "---@", "---|", "--[[", "--region", "--endregion", "---@class ", "---@type ", "---@param ", "#!",
    "\n", "\r", " ", "\t", "\0", "\u{feff}", "é", "中", "😀",
];

pub fn word_text<S: AsRef<str>>(sigma: &[S], w: &[usize]) -> String {
    let mut s = String::new();
    for &i in w {
        s.push_str(sigma[i].as_ref());
    }
    s
}

/// expression derivations by depth (a stand-in for C03(a)'s grammar enumeration, expression part):
/// depth 0 = atoms; depth d = unop e | e binop e | ( e ) with one operand of depth d-1.
pub const ATOMS: &[&str] = &["a", "1", "\"s\"", "nil", "...", "{}", "f()", "a.b", "2.5", "[[l]]"];
pub const ATOMS_CORE: &[&str] = &["a", "1", "\"s\""];
pub const UNOPS: &[&str] = &["-", "not ", "#", "~"];
pub const BINOPS: &[&str] =
    &["+", "-", "*", "/", "//", "%", "^", "..", "==", "~=", "<", "<=", ">", ">=", "and", "or", "&", "|", "~", "<<", ">>"];

pub fn expr_depth1(atoms: &[&str]) -> Vec<String> {
    let mut v = Vec::new();
    for u in UNOPS {
        for a in atoms {
            v.push(format!("{u}{a}"));
        }
    }
    for b in BINOPS {
        for x in atoms {
            for y in atoms {
                v.push(format!("{x} {b} {y}"));
            }
        }
    }
    for a in atoms {
        v.push(format!("({a})"));
    }
    v
}

pub fn expr_depth2() -> Vec<String> {
    let e1 = expr_depth1(ATOMS_CORE);
    let mut v = Vec::new();
    for u in UNOPS {
        for e in &e1 {
            v.push(format!("{u}{e}"));
            v.push(format!("{u}({e})"));
        }
    }
    for b in BINOPS {
        for e in &e1 {
            for a in ATOMS_CORE {
                v.push(format!("{e} {b} {a}"));
                v.push(format!("{a} {b} {e}"));
                v.push(format!("({e}) {b} {a}"));
                v.push(format!("{a} {b} ({e})"));
            }
        }
    }
    v
}

/// String-literal family: every body of ≤2 pieces over {each quote character after a backslash run of
/// length 0..3, `\\z`+blanks, `\\n`, `\\x41`, `\\u{41}`, a backslash pair, a letter} inside each of the
/// four delimiters (`"`, `'`, `[[ ]]`, `[==[ ]==]`), in each of four syntactic positions. Bodies that
/// end the literal early give invalid programs (they must come back unchanged).
pub fn string_literal_family() -> Vec<String> {
    let mut pieces: Vec<String> = Vec::new();
    for q in ['"', '\''] {
        for run in 0..=3 {
            pieces.push(format!("{}{q}", "\\".repeat(run)));
        }
    }
    for p in ["\\z  ", "\\n", "\\x41", "\\u{41}", "\\\\", "a"] {
        pieces.push(p.to_string());
    }
    let mut bodies: Vec<String> = vec![String::new()];
    bodies.extend(pieces.iter().cloned());
    for a in &pieces {
        for b in &pieces {
            bodies.push(format!("{a}{b}"));
        }
    }
    let delims = [("\"", "\""), ("'", "'"), ("[[", "]]"), ("[==[", "]==]")];
    let mut out = Vec::new();
    for body in &bodies {
        for (open, close) in delims {
            let lit = format!("{open}{body}{close}");
            out.push(format!("local s = {lit}\n"));
            out.push(format!("f({lit})\n"));
            out.push(format!("f {lit}\n"));
            out.push(format!("t = {{ [ {lit} ] = 1 }}\n"));
        }
    }
    out
}

/// the bundled std library sources (read from the working tree at run time)
pub fn std_files() -> Vec<(String, String)> {
    let root = vcore::repo_root().join("crates/emmylua_code_analysis/resources/std");
    let mut out = Vec::new();
    fn walk(p: &std::path::Path, root: &std::path::Path, out: &mut Vec<(String, String)>) {
        let Ok(rd) = std::fs::read_dir(p) else { return };
        let mut es: Vec<_> = rd.flatten().map(|e| e.path()).collect();
        es.sort();
        for e in es {
            if e.is_dir() {
                walk(&e, root, out);
            } else if e.extension().is_some_and(|x| x == "lua") {
                if let Ok(t) = std::fs::read_to_string(&e) {
                    let rel = e.strip_prefix(root).unwrap_or(&e).to_string_lossy().to_string();
                    out.push((rel, t));
                }
            }
        }
    }
    walk(&root, &root, &mut out);
    out
}

/// paragraphs (blank-line separated blocks) of the std files, deduplicated, sorted
pub fn std_paragraphs() -> Vec<String> {
    let mut out = Vec::new();
    for (_, t) in std_files() {
        let mut cur = String::new();
        for line in t.split_inclusive('\n') {
            if line.trim().is_empty() {
                if !cur.is_empty() {
                    out.push(std::mem::take(&mut cur));
                }
            } else {
                cur.push_str(line);
            }
        }
        if !cur.is_empty() {
            out.push(cur);
        }
    }
    out.sort();
    out.dedup();
    out
}

// ------------------------------------------------------------------ configuration space

/// values explored for the non-boolean knobs (every value of every enum; boundary values of the
/// numeric knobs). Boolean knobs are discovered from the serialised default config and flipped.
fn knob_table() -> Vec<(&'static str, Vec<Value>)> {
    let s = |xs: &[&str]| xs.iter().map(|x| json!(x)).collect::<Vec<_>>();
    let n = |xs: &[u64]| xs.iter().map(|x| json!(x)).collect::<Vec<_>>();
    vec![
        ("syntax.level", s(&["Lua51", "Lua52", "Lua53", "Lua54", "Lua55", "LuaJIT", "LuaJITExt", "LuaJIT3"])),
        ("indent.kind", s(&["Tab", "Space"])),
        ("indent.width", n(&[0, 2, 4, 8])),
        ("layout.max_line_width", n(&[1, 20, 40, 80, 120])),
        ("layout.max_blank_lines", n(&[0, 1, 2])),
        ("layout.table_expand", s(&["Never", "Always", "Auto"])),
        ("layout.call_args_expand", s(&["Never", "Always", "Auto"])),
        ("layout.func_params_expand", s(&["Never", "Always", "Auto"])),
        ("output.trailing_comma", s(&["Never", "Multiline", "Always"])),
        ("output.trailing_table_separator", s(&["Inherit", "Never", "Multiline", "Always"])),
        ("output.quote_style", s(&["Preserve", "Double", "Single"])),
        ("output.single_arg_call_parens", s(&["Preserve", "Always", "Omit"])),
        ("output.simple_lambda_single_line", s(&["Preserve", "Always", "Never"])),
        ("output.end_of_line", s(&["LF", "CRLF"])),
        ("comments.line_comment_min_spaces_before", n(&[0, 1, 2, 4])),
        ("comments.line_comment_min_column", n(&[0, 10, 40])),
    ]
}

#[derive(Clone, Debug)]
pub struct Knob {
    pub path: String,
    /// the non-default values
    pub others: Vec<Value>,
}

pub struct ConfigSpace {
    pub default_json: Value,
    pub knobs: Vec<Knob>,
    /// leaves of the default config for which no alternative value is known (reported in evidence)
    pub uncovered: Vec<String>,
}

fn walk_leaves(prefix: &str, v: &Value, out: &mut Vec<(String, Value)>) {
    match v {
        Value::Object(m) => {
            for (k, x) in m {
                let p = if prefix.is_empty() { k.clone() } else { format!("{prefix}.{k}") };
                walk_leaves(&p, x, out);
            }
        }
        other => out.push((prefix.to_string(), other.clone())),
    }
}

impl ConfigSpace {
    pub fn new() -> Self {
        let default_json = serde_json::to_value(LuaFormatConfig::default()).expect("config serialises");
        let mut leaves = Vec::new();
        walk_leaves("", &default_json, &mut leaves);
        leaves.sort_by(|a, b| a.0.cmp(&b.0));
        let table: HashMap<&str, Vec<Value>> = knob_table().into_iter().collect();
        let mut knobs = Vec::new();
        let mut uncovered = Vec::new();
        for (path, dv) in leaves {
            let others: Vec<Value> = match (&dv, table.get(path.as_str())) {
                (Value::Bool(b), _) => vec![json!(!b)],
                (_, Some(vals)) => vals.iter().filter(|x| **x != dv).cloned().collect(),
                _ => {
                    uncovered.push(path.clone());
                    continue;
                }
            };
            // keep only values the config type accepts
            let mut ok = Vec::new();
            for o in others {
                let mut j = default_json.clone();
                set_path(&mut j, &path, o.clone());
                if serde_json::from_value::<LuaFormatConfig>(j).is_ok() {
                    ok.push(o);
                } else {
                    uncovered.push(format!("{path}={o} (rejected by the config type)"));
                }
            }
            knobs.push(Knob { path, others: ok });
        }
        ConfigSpace { default_json, knobs, uncovered }
    }

    /// all deviation sets of size exactly d, in a fixed order
    pub fn deviations(&self, d: usize) -> Vec<Cfg> {
        let mut out = Vec::new();
        match d {
            0 => out.push(Cfg::default()),
            1 => {
                for k in &self.knobs {
                    for v in &k.others {
                        out.push(Cfg { devs: vec![(k.path.clone(), v.clone())] });
                    }
                }
            }
            2 => {
                for (i, k1) in self.knobs.iter().enumerate() {
                    for k2 in &self.knobs[i + 1..] {
                        for v1 in &k1.others {
                            for v2 in &k2.others {
                                out.push(Cfg { devs: vec![(k1.path.clone(), v1.clone()), (k2.path.clone(), v2.clone())] });
                            }
                        }
                    }
                }
            }
            _ => panic!("deviation > 2 not supported"),
        }
        out
    }

    pub fn build(&self, c: &Cfg) -> Built {
        let mut j = self.default_json.clone();
        for (p, v) in &c.devs {
            set_path(&mut j, p, v.clone());
        }
        let config: LuaFormatConfig = serde_json::from_value(j).unwrap_or_else(|e| vcore::die(&format!("config {:?}: {e}", c.devs)));
        let level: LuaLanguageLevel = config.syntax.level.into();
        Built { cfg: c.clone(), config, level }
    }

    pub fn from_witness(&self, v: &Value) -> Option<Built> {
        let mut devs = Vec::new();
        if let Some(m) = v.as_object() {
            for (k, x) in m {
                devs.push((k.clone(), x.clone()));
            }
        }
        let mut j = self.default_json.clone();
        for (p, v) in &devs {
            set_path(&mut j, p, v.clone());
        }
        let config: LuaFormatConfig = serde_json::from_value(j).ok()?;
        let level = config.syntax.level.into();
        Some(Built { cfg: Cfg { devs }, config, level })
    }
}

fn set_path(j: &mut Value, path: &str, v: Value) {
    let mut cur = j;
    let parts: Vec<&str> = path.split('.').collect();
    for (i, p) in parts.iter().enumerate() {
        if i + 1 == parts.len() {
            cur[*p] = v;
            return;
        }
        cur = &mut cur[*p];
    }
}

/// a configuration = the set of deviations from the default
#[derive(Clone, Debug, Default, PartialEq)]
pub struct Cfg {
    pub devs: Vec<(String, Value)>,
}
impl Cfg {
    pub fn to_json(&self) -> Value {
        let mut m = Map::new();
        let mut d = self.devs.clone();
        d.sort_by(|a, b| a.0.cmp(&b.0));
        for (k, v) in d {
            m.insert(k, v);
        }
        Value::Object(m)
    }
    pub fn is_default(&self) -> bool {
        self.devs.is_empty()
    }
}

pub struct Built {
    pub cfg: Cfg,
    pub config: LuaFormatConfig,
    /// what `luafmt` passes as the parser level: `config.syntax.level`
    pub level: LuaLanguageLevel,
}

// ------------------------------------------------------------------ calling the formatter

pub fn parse(text: &str, level: LuaLanguageLevel) -> LuaSyntaxTree {
    LuaParser::parse(text, ParserConfig::with_level(level))
}

pub fn format(text: &str, b: &Built) -> Result<String, String> {
    vcore::catch(|| reformat_lua_code(&SourceText { text, level: b.level }, &b.config))
}

// ------------------------------------------------------------------ canonical form

/// Canonical view of a parsed program: what C05 says must survive formatting.
#[derive(Debug, Clone, PartialEq, Default)]
pub struct Canon {
    /// non-comment, non-whitespace tokens after erasing every normalisation a configuration may enable
    pub code: Vec<String>,
    /// comment items: doc node kind markers + token texts with blank runs collapsed
    pub comments: Vec<String>,
    /// same, blank runs kept (differences only here are counted as undecided)
    pub comments_strict: Vec<String>,
    /// interleaving of code tokens and comments ('#' = a comment starts here)
    pub interleave: Vec<u32>,
    /// pre-order sequence of code node kinds (EmptyStat and Block dropped)
    pub structure: Vec<u16>,
    /// number of parse errors of any kind (doc errors are not syntax errors)
    pub doc_errors: usize,
    /// number of comment opener tokens (`--`, `---`, `---@`, `---|`, `--[[` …)
    pub openers: usize,
}

fn collapse_blanks(s: &str) -> String {
    let mut out = String::with_capacity(s.len());
    let mut in_blank = false;
    for ch in s.chars() {
        if ch == ' ' || ch == '\t' || ch == '\r' {
            in_blank = true;
        } else {
            if in_blank && !out.is_empty() && !out.ends_with('\n') && ch != '\n' {
                out.push(' ');
            }
            in_blank = false;
            out.push(ch);
        }
    }
    out
}

fn strict_text(s: &str) -> String {
    // line endings are whitespace the configuration controls
    s.replace("\r\n", "\n").trim_end_matches([' ', '\t']).to_string()
}

/// decode a short string literal per the reference manual (§3.1); None if malformed
pub fn decode_short_string(tok: &str) -> Option<Vec<u8>> {
    let b = tok.as_bytes();
    if b.len() < 2 {
        return None;
    }
    let q = b[0];
    if (q != b'"' && q != b'\'') || b[b.len() - 1] != q {
        return None;
    }
    let s = &b[1..b.len() - 1];
    let mut out = Vec::with_capacity(s.len());
    let mut i = 0;
    while i < s.len() {
        let c = s[i];
        if c != b'\\' {
            out.push(c);
            i += 1;
            continue;
        }
        i += 1;
        let e = *s.get(i)?;
        match e {
            b'a' => out.push(7),
            b'b' => out.push(8),
            b'f' => out.push(12),
            b'n' => out.push(b'\n'),
            b'r' => out.push(b'\r'),
            b't' => out.push(b'\t'),
            b'v' => out.push(11),
            b'\\' | b'"' | b'\'' => out.push(e),
            b'\n' => {
                out.push(b'\n');
                if s.get(i + 1) == Some(&b'\r') {
                    i += 1;
                }
            }
            b'\r' => {
                out.push(b'\n');
                if s.get(i + 1) == Some(&b'\n') {
                    i += 1;
                }
            }
            b'z' => {
                while i + 1 < s.len() && (s[i + 1] as char).is_ascii_whitespace() {
                    i += 1;
                }
            }
            b'x' => {
                let h = std::str::from_utf8(s.get(i + 1..i + 3)?).ok()?;
                out.push(u8::from_str_radix(h, 16).ok()?);
                i += 2;
            }
            b'u' => {
                if s.get(i + 1) != Some(&b'{') {
                    return None;
                }
                let close = s[i + 2..].iter().position(|&c| c == b'}')? + i + 2;
                let h = std::str::from_utf8(&s[i + 2..close]).ok()?;
                let cp = u32::from_str_radix(h, 16).ok()?;
                // value only needs to be compared, not emitted: store as tagged code point
                out.extend_from_slice(format!("\u{1}U+{cp:X}\u{1}").as_bytes());
                i = close;
            }
            b'0'..=b'9' => {
                let mut n = 0u32;
                let mut k = 0;
                while k < 3 && i + k < s.len() && s[i + k].is_ascii_digit() {
                    n = n * 10 + (s[i + k] - b'0') as u32;
                    k += 1;
                }
                if n > 255 {
                    return None;
                }
                out.push(n as u8);
                i += k - 1;
            }
            _ => return None,
        }
        i += 1;
    }
    Some(out)
}

/// value of a long bracket string: content without the brackets, first newline skipped, line ends → \n
pub fn decode_long_string(tok: &str) -> Option<String> {
    let t = tok.strip_prefix('[')?;
    let eqs = t.bytes().take_while(|&c| c == b'=').count();
    let t = t[eqs..].strip_prefix('[')?;
    let close = format!("]{}]", "=".repeat(eqs));
    let t = t.strip_suffix(close.as_str())?;
    let t = t.replace("\r\n", "\n").replace("\n\r", "\n").replace('\r', "\n");
    Some(t.strip_prefix('\n').unwrap_or(&t).to_string())
}

fn hex(b: &[u8]) -> String {
    match std::str::from_utf8(b) {
        Ok(s) if !s.contains('\u{0}') => s.to_string(),
        _ => b.iter().map(|x| format!("\\x{x:02x}")).collect(),
    }
}

fn is_table(k: LuaSyntaxKind) -> bool {
    matches!(k, LuaSyntaxKind::TableArrayExpr | LuaSyntaxKind::TableObjectExpr | LuaSyntaxKind::TableEmptyExpr)
}

/// `( "s" )` / `( {..} )` as the only call argument: the parentheses are optional syntax
fn optional_call_parens(n: &LuaSyntaxNode) -> bool {
    if n.kind() != LuaKind::Syntax(LuaSyntaxKind::CallArgList) {
        return false;
    }
    let mut exprs = 0;
    let mut ok = false;
    for ch in n.children_with_tokens() {
        match ch {
            NodeOrToken::Node(c) => {
                let k: LuaSyntaxKind = c.kind().into();
                if k == LuaSyntaxKind::Comment {
                    continue;
                }
                exprs += 1;
                ok = is_table(k)
                    || (k == LuaSyntaxKind::LiteralExpr
                        && c.first_token().is_some_and(|t| {
                            let tk: LuaTokenKind = t.kind().into();
                            matches!(tk, LuaTokenKind::TkString | LuaTokenKind::TkLongString)
                        }));
            }
            NodeOrToken::Token(t) => {
                let tk: LuaTokenKind = t.kind().into();
                if tk == LuaTokenKind::TkComma {
                    return false;
                }
            }
        }
    }
    exprs == 1 && ok
}

pub fn canon(tree: &LuaSyntaxTree) -> Canon {
    let root = tree.get_red_root();
    let mut c = Canon::default();
    c.doc_errors = tree.get_errors().len();
    let mut comment_depth = 0usize;
    // index in c.code of a pending table separator (dropped if the table closes right after it)
    let mut pending_sep: Option<usize> = None;
    for ev in root.preorder_with_tokens() {
        match ev {
            WalkEvent::Enter(NodeOrToken::Node(n)) => {
                let k: LuaSyntaxKind = n.kind().into();
                if k == LuaSyntaxKind::Comment {
                    if comment_depth == 0 && c.interleave.last() != Some(&u32::MAX) {
                        c.interleave.push(u32::MAX);
                    }
                    comment_depth += 1;
                } else if comment_depth > 0 {
                    if k != LuaSyntaxKind::DocDescription {
                        let m = format!("<{k:?}");
                        c.comments.push(m.clone());
                        c.comments_strict.push(m);
                    }
                } else if k != LuaSyntaxKind::EmptyStat && k != LuaSyntaxKind::Block {
                    c.structure.push(k as u16);
                }
            }
            WalkEvent::Leave(NodeOrToken::Node(n)) => {
                let k: LuaSyntaxKind = n.kind().into();
                if k == LuaSyntaxKind::Comment {
                    comment_depth -= 1;
                } else if comment_depth > 0 && k != LuaSyntaxKind::DocDescription {
                    c.comments.push(">".into());
                    c.comments_strict.push(">".into());
                }
            }
            WalkEvent::Enter(NodeOrToken::Token(t)) => {
                let tk: LuaTokenKind = t.kind().into();
                if matches!(tk, LuaTokenKind::TkWhitespace | LuaTokenKind::TkEndOfLine) {
                    continue;
                }
                let text = t.text();
                if comment_depth > 0 {
                    let (a, b) = match tk {
                        // comment openers: `--`, `---`, `--- `: the blank belongs to spacing config
                        LuaTokenKind::TkNormalStart | LuaTokenKind::TkDocContinue | LuaTokenKind::TkDocStart
                        | LuaTokenKind::TkDocContinueOr | LuaTokenKind::TkDocLongStart | LuaTokenKind::TkLongCommentStart
                        | LuaTokenKind::TKDocTriviaStart => {
                            c.openers += 1;
                            let s: String = text.chars().filter(|c| !c.is_whitespace()).collect();
                            (s.clone(), s)
                        }
                        LuaTokenKind::TkString => match decode_short_string(text) {
                            Some(v) => {
                                let s = format!("S:{}", hex(&v));
                                (s.clone(), s)
                            }
                            None => (collapse_blanks(text.trim()), strict_text(text)),
                        },
                        _ => (collapse_blanks(text.trim()), strict_text(text)),
                    };
                    if a.is_empty() && b.is_empty() {
                        continue;
                    }
                    c.comments.push(a);
                    c.comments_strict.push(b);
                    continue;
                }
                let parent = t.parent();
                let pk: LuaSyntaxKind = parent.as_ref().map(|p| p.kind().into()).unwrap_or(LuaSyntaxKind::None);
                let item = match tk {
                    LuaTokenKind::TkSemicolon | LuaTokenKind::TkComma if is_table(pk) => {
                        pending_sep = Some(c.code.len());
                        c.code.push(",".into());
                        c.interleave.push(0);
                        continue;
                    }
                    // optional statement terminator
                    LuaTokenKind::TkSemicolon => continue,
                    LuaTokenKind::TkLeftParen | LuaTokenKind::TkRightParen
                        if pk == LuaSyntaxKind::CallArgList && parent.as_ref().is_some_and(optional_call_parens) =>
                    {
                        continue;
                    }
                    LuaTokenKind::TkRightBrace if is_table(pk) => {
                        if let Some(i) = pending_sep.take() {
                            if i + 1 == c.code.len() {
                                c.code.pop();
                                // remove its interleave slot (last code slot)
                                if let Some(pos) = c.interleave.iter().rposition(|&x| x == 0) {
                                    c.interleave.remove(pos);
                                }
                            }
                        }
                        "}".to_string()
                    }
                    LuaTokenKind::TkString => match decode_short_string(text) {
                        Some(v) => format!("S:{}", hex(&v)),
                        None => format!("RAW:{text}"),
                    },
                    LuaTokenKind::TkLongString => match decode_long_string(text) {
                        Some(v) => format!("S:{v}"),
                        None => format!("RAW:{text}"),
                    },
                    _ => text.trim_end().to_string(),
                };
                if tk != LuaTokenKind::TkRightBrace {
                    // any other token after a separator means the separator was not trailing
                    pending_sep = None;
                }
                c.code.push(item);
                c.interleave.push(0);
            }
            WalkEvent::Leave(NodeOrToken::Token(_)) => {}
        }
    }
    c
}

/// classification of the difference between the canon of an input and of its formatted output
#[derive(Debug, Clone, PartialEq)]
pub enum Diff {
    Same,
    /// a hard difference: (signature, detail)
    Hard(String, String),
    /// a difference the statement does not clearly forbid
    Undecided(&'static str),
}

fn first_diff<T: PartialEq>(a: &[T], b: &[T]) -> usize {
    a.iter().zip(b.iter()).take_while(|(x, y)| x == y).count()
}

fn token_class(s: &str) -> &'static str {
    if s.starts_with("S:") || s.starts_with("RAW:") {
        "string"
    } else if s.starts_with("--") {
        "opener"
    } else if s.chars().next().is_some_and(|c| c.is_ascii_digit()) || (s.starts_with('.') && s.len() > 1 && s.as_bytes()[1].is_ascii_digit()) {
        "number"
    } else if s.chars().next().is_some_and(|c| c.is_alphabetic() || c == '_') {
        "word"
    } else {
        "punct"
    }
}

/// class of a comment item: node markers by kind name, tokens by class
fn item_class(s: Option<&String>) -> String {
    match s {
        None => "end".into(),
        Some(s) if s.starts_with('<') && s.len() > 1 => s.clone(),
        Some(s) if s == ">" => ">".into(),
        Some(s) => token_class(s).into(),
    }
}

pub fn compare(inp: &Canon, out: &Canon) -> Diff {
    if inp.code != out.code {
        let i = first_diff(&inp.code, &out.code);
        let a = inp.code.get(i).cloned().unwrap_or_else(|| "<end>".into());
        let b = out.code.get(i).cloned().unwrap_or_else(|| "<end>".into());
        let class = if i < inp.code.len() { token_class(&a) } else { "extra" };
        return Diff::Hard(format!("tokens-differ:{class}"), format!("code token #{i}: input {a:?}, output {b:?}"));
    }
    if inp.comments != out.comments {
        let i = first_diff(&inp.comments, &out.comments);
        let (ia, ib) = (inp.comments.get(i), out.comments.get(i));
        let a = ia.cloned().unwrap_or_else(|| "<end>".into());
        let b = ib.cloned().unwrap_or_else(|| "<end>".into());
        let detail = format!("comment item #{i}: input {a:?}, output {b:?}");
        // every blank removed: same characters in the same items ⇒ blanks were inserted into / removed from
        // a comment token (`---|x` → `--- | x`); "keep their text" does not settle whether that counts
        let squeeze = |v: &Vec<String>| v.iter().map(|s| s.chars().filter(|c| !c.is_whitespace()).collect::<String>()).collect::<Vec<_>>();
        if squeeze(&inp.comments) == squeeze(&out.comments) {
            return Diff::Undecided("comment-blanks-inserted-or-removed");
        }
        // a malformed annotation has no defined "same structure"
        if inp.doc_errors > 0 {
            return Diff::Undecided("comment-differs-but-input-annotation-malformed");
        }
        if out.openers < inp.openers {
            return Diff::Hard("comment-lost".into(), format!("{} comment opener(s) in the input, {} in the output; {detail}", inp.openers, out.openers));
        }
        if out.openers > inp.openers {
            return Diff::Hard("comment-duplicated".into(), format!("{} comment opener(s) in the input, {} in the output; {detail}", inp.openers, out.openers));
        }
        // same node markers in the same order ⇒ only texts differ
        let shape = |c: &Canon| c.comments.iter().filter(|s| s.starts_with('<') && s.len() > 1 || *s == ">").cloned().collect::<Vec<_>>();
        let sig = if shape(inp) == shape(out) {
            format!("comment-text-differs:{}", item_class(ia))
        } else {
            format!("doc-shape-differs:{}/{}", item_class(ia), item_class(ib))
        };
        return Diff::Hard(sig, detail);
    }
    if inp.structure != out.structure {
        let i = first_diff(&inp.structure, &out.structure);
        return Diff::Hard("code-structure-differs".into(), format!("node #{i} in pre-order differs (same tokens, different tree)"));
    }
    if inp.interleave != out.interleave {
        return Diff::Undecided("comment-moved-across-token");
    }
    if inp.comments_strict != out.comments_strict {
        return Diff::Undecided("comment-blank-runs-changed");
    }
    Diff::Same
}

// ------------------------------------------------------------------ witness minimisation

/// process-wide memo of char-level minimisations: (prop, signature, cfg, text) → minimal text
static MIN_CACHE: Mutex<Option<HashMap<String, String>>> = Mutex::new(None);

/// delta-minimise a character sequence: remove every window [i, i+len) for len = n/2 … 1 at every
/// offset while `fails` holds; repeated until no single removal succeeds.
fn minimise_chars(text: &str, fails: &dyn Fn(&str) -> bool) -> String {
    let mut cur: Vec<char> = text.chars().collect();
    let to_s = |v: &[char]| v.iter().collect::<String>();
    loop {
        let before = cur.len();
        // structural step: keep only one statement / block (smallest first)
        {
            let t = to_s(&cur);
            for (s, e) in subtree_ranges(&t, LuaLanguageLevel::Lua55) {
                if fails(&t[s..e]) {
                    cur = t[s..e].chars().collect();
                    break;
                }
            }
        }
        let mut len = (cur.len() / 2).max(1);
        loop {
            let mut i = 0;
            while i + len <= cur.len() {
                let mut cand = cur.clone();
                cand.drain(i..i + len);
                if fails(&to_s(&cand)) {
                    cur = cand;
                } else {
                    i += 1;
                }
            }
            if len == 1 {
                break;
            }
            len = if len > 8 { len / 2 } else { len - 1 };
        }
        if cur.len() == before {
            return to_s(&cur);
        }
    }
}

/// byte ranges of the statements and blocks of `text` (proper sub-ranges only), shortest first
pub fn subtree_ranges(text: &str, level: LuaLanguageLevel) -> Vec<(usize, usize)> {
    let tree = parse(text, level);
    let mut v: Vec<(usize, usize)> = Vec::new();
    for n in tree.get_red_root().descendants() {
        let k: LuaSyntaxKind = n.kind().into();
        let is_stat = (k as u16) >= (LuaSyntaxKind::Block as u16) && (k as u16) <= (LuaSyntaxKind::UnknownStat as u16);
        if !is_stat {
            continue;
        }
        let r = n.text_range();
        let (s, e) = (u32::from(r.start()) as usize, u32::from(r.end()) as usize);
        if e - s < text.len() && e > s {
            v.push((s, e));
        }
    }
    v.sort_by_key(|&(s, e)| (e - s, s));
    v.dedup();
    v
}

/// Hierarchical substitution: replace a whole statement by `a()` or a whole expression by `a` where the
/// failure persists (outermost first), so that witnesses differing only in an irrelevant sub-tree coincide.
pub fn substitute_subtrees(text: &str, fails: &dyn Fn(&str) -> bool) -> String {
    let mut cur = text.to_string();
    'again: loop {
        let tree = parse(&cur, LuaLanguageLevel::Lua55);
        let mut cands: Vec<(usize, usize, &'static str)> = Vec::new();
        for n in tree.get_red_root().descendants() {
            let k: LuaSyntaxKind = n.kind().into();
            let ku = k as u16;
            let rep = if ku > (LuaSyntaxKind::Block as u16) && ku <= (LuaSyntaxKind::UnknownStat as u16) && k != LuaSyntaxKind::EmptyStat {
                "a()"
            } else if ku >= (LuaSyntaxKind::ParenExpr as u16) && ku <= (LuaSyntaxKind::SafeIndexExpr as u16) {
                "a"
            } else {
                continue;
            };
            let r = n.text_range();
            let (s, e) = (u32::from(r.start()) as usize, u32::from(r.end()) as usize);
            if &cur[s..e] != rep && e - s >= rep.len() {
                cands.push((s, e, rep));
            }
        }
        // largest first: one accepted replacement removes everything below it
        cands.sort_by_key(|&(s, e, _)| (std::cmp::Reverse(e - s), s));
        for (s, e, rep) in cands {
            let cand = format!("{}{}{}", &cur[..s], rep, &cur[e..]);
            if cand.len() <= cur.len() && cand != cur && fails(&cand) {
                cur = cand;
                continue 'again;
            }
            // width-sensitive failures: an expression may only be replaceable by a name of the same width
            if rep == "a" && e - s > 1 && !cur[s..e].chars().all(|c| c == 'a') {
                let cand = format!("{}{}{}", &cur[..s], "a".repeat(cur[s..e].chars().count()), &cur[e..]);
                if fails(&cand) {
                    cur = cand;
                    continue 'again;
                }
            }
        }
        return cur;
    }
}

/// Make the minimal text canonical: every letter becomes 'a' and every digit '1' where the failure persists,
/// so that witnesses differing only in the spelling of a name or number coincide.
fn normalise_chars(text: &str, fails: &dyn Fn(&str) -> bool) -> String {
    let mut cur: Vec<char> = text.chars().collect();
    for i in 0..cur.len() {
        let c = cur[i];
        let r = if c.is_alphabetic() && c != 'a' {
            'a'
        } else if c.is_ascii_digit() && c != '1' {
            '1'
        } else {
            continue;
        };
        cur[i] = r;
        if !fails(&cur.iter().collect::<String>()) {
            cur[i] = c;
        }
    }
    cur.iter().collect()
}

/// Canonical spelling of binary operators other than `..`: each operator becomes the first of `+`, `==`, `and` with which the
/// failure persists (left to right), so that witnesses differing only in which arithmetic / comparison /
/// logical operator they use coincide.
fn normalise_operators(text: &str, fails: &dyn Fn(&str) -> bool) -> String {
    let mut cur = text.to_string();
    let mut from = 0usize; // operators starting before this offset are settled
    loop {
        let tree = parse(&cur, LuaLanguageLevel::Lua55);
        let mut ops: Vec<(usize, usize)> = Vec::new();
        for n in tree.get_red_root().descendants() {
            if n.kind() != LuaKind::Syntax(LuaSyntaxKind::BinaryExpr) {
                continue;
            }
            for ch in n.children_with_tokens() {
                if let NodeOrToken::Token(t) = ch {
                    let k: LuaTokenKind = t.kind().into();
                    if !matches!(k, LuaTokenKind::TkWhitespace | LuaTokenKind::TkEndOfLine) {
                        let r = t.text_range();
                        ops.push((u32::from(r.start()) as usize, u32::from(r.end()) as usize));
                    }
                }
            }
        }
        ops.sort();
        let Some(&(s, e)) = ops.iter().find(|&&(s, _)| s >= from) else { return cur };
        let mut next_from = e;
        for cand in ["+", "==", "and"] {
            // `..` has its own spacing knob and numeral hazards: it is a class of its own
            if &cur[s..e] == cand || &cur[s..e] == ".." {
                break;
            }
            let word = cand == "and";
            let pad_l = if word && s > 0 && !cur[..s].ends_with([' ', '\n', ')']) { " " } else { "" };
            let pad_r = if word && !cur[e..].starts_with([' ', '\n', '(', '"']) { " " } else { "" };
            let t = format!("{}{pad_l}{cand}{pad_r}{}", &cur[..s], &cur[e..]);
            if fails(&t) {
                next_from = s + pad_l.len() + cand.len();
                cur = t;
                break;
            }
        }
        from = next_from;
    }
}

/// Part-level reduction (alphabet items / lines): greedy from the left — drop part i if the rest still
/// fails — which is what `vcore::minimise_seq` does. For long part lists (std files) the same greedy
/// walk is taken in blocks: at position i a block of m parts is dropped at once and m doubles while
/// that succeeds (whenever a failing input stays failing when parts are added back, this removes
/// exactly what the one-at-a-time walk removes, with far fewer formatter runs); the one-at-a-time
/// pass to a fixpoint follows for every input.
pub fn reduce_parts(parts: &[String], fails: &dyn Fn(&str) -> bool) -> String {
    let mut cur: Vec<String> = parts.to_vec();
    if cur.len() > 32 {
        let mut i = 0;
        let mut m = 16usize;
        while i < cur.len() {
            let take = m.min(cur.len() - i);
            let mut cand = cur.clone();
            cand.drain(i..i + take);
            if fails(&cand.concat()) {
                cur = cand;
                m *= 2;
            } else if take > 1 {
                m = take / 2;
            } else {
                i += 1;
                m = 2;
            }
        }
    }
    vcore::minimise_seq(&cur, |ps| fails(&ps.concat())).concat()
}

pub fn min_cache_get(key: &str) -> Option<String> {
    MIN_CACHE.lock().unwrap().as_ref().and_then(|m| m.get(key).cloned())
}

/// Character-level minimisation of a part-reduced text (pure function of its arguments; memoised
/// under `key`). Formatter runs on identical candidate texts are answered from a local memo.
pub fn minimise_text_cached(key: &str, t1: &str, fails: &dyn Fn(&str) -> bool) -> String {
    if let Some(m) = min_cache_get(key) {
        return m;
    }
    if std::env::var("ENG_FMT_RAW").is_ok() {
        return t1.to_string(); // debugging aid: stop after part-level reduction
    }
    let memo: std::cell::RefCell<HashMap<String, bool>> = std::cell::RefCell::new(HashMap::new());
    let fails = |t: &str| -> bool {
        if let Some(&r) = memo.borrow().get(t) {
            return r;
        }
        let r = fails(t);
        memo.borrow_mut().insert(t.to_string(), r);
        r
    };
    // the passes are repeated until none of them changes the text, so that a minimal witness is a fixpoint of
    // the whole pipeline (minimising a witness again returns it)
    let mut min = t1.to_string();
    for _ in 0..6 {
        let next = normalise_operators(&normalise_chars(&minimise_chars(&substitute_subtrees(&minimise_chars(&min, &fails), &fails), &fails), &fails), &fails);
        if next == min {
            break;
        }
        min = next;
    }
    MIN_CACHE.lock().unwrap().get_or_insert_with(HashMap::new).insert(key.to_string(), min.clone());
    min
}

pub fn clip(s: &str, n: usize) -> String {
    if s.chars().count() <= n { s.to_string() } else { format!("{}…", s.chars().take(n).collect::<String>()) }
}
