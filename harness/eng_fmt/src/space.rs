//! The input × configuration space shared by C05 and C06 ("same enumeration as C05"), explored
//! completely up to the tier's bounds, with a property-specific judge.
use crate::common::*;
use serde_json::{Value, json};
use vcore::*;

#[derive(Debug, Clone, PartialEq)]
pub enum Verdict {
    /// property holds on this case: (outcome class, non-trivial?)
    Ok(&'static str, bool),
    /// the statement leaves this case open
    Undecided(&'static str),
    Bad { sig: String, detail: String },
}

pub type Judge = fn(&str, &Built) -> Verdict;

fn bad_sig(v: &Verdict) -> Option<&str> {
    match v {
        Verdict::Bad { sig, .. } => Some(sig.as_str()),
        _ => None,
    }
}

/// a violating case as found by the explorer (not yet minimised)
#[derive(Clone)]
pub struct Raw {
    pub parts: Vec<String>,
    pub cfg: Cfg,
    pub sig: String,
}

/// raw violating cases of the running phase (filled by the workers, drained by `resolve`)
static RAWS: std::sync::Mutex<Vec<Raw>> = std::sync::Mutex::new(Vec::new());

fn same_failure(judge: Judge, sig: &str, clean: bool, t: &str, b: &Built) -> bool {
    bad_sig(&judge(t, b)) == Some(sig) && (!clean || parse(t, b.level).get_errors().is_empty())
}

/// Step 1 of the minimisation of a raw case: fewest knob deviations, then whole parts dropped.
/// Returns the configuration kept and the part-reduced text.
fn reduce(ctx: &Ctx, raw: &Raw) -> (Cfg, String) {
    let b = ctx.cs.build(&raw.cfg);
    let text = raw.parts.concat();
    // a witness for an input that parses cleanly (no syntax and no doc error) must itself parse cleanly
    let clean = parse(&text, b.level).get_errors().is_empty();
    let same = |t: &str, b: &Built| same_failure(ctx.judge, &raw.sig, clean, t, b);
    let mut cur: Built = ctx.cs.build(&raw.cfg);
    if !b.cfg.is_default() {
        if same(&text, ctx.dflt) {
            cur = ctx.cs.build(&Cfg::default());
        } else if b.cfg.devs.len() > 1 {
            for d in &b.cfg.devs {
                let c1 = ctx.cs.build(&Cfg { devs: vec![d.clone()] });
                if same(&text, &c1) {
                    cur = c1;
                    break;
                }
            }
        }
    }
    let t1 = reduce_parts(&raw.parts, &|t| same(t, &cur));
    (cur.cfg.clone(), t1)
}

fn min_key(prop: &str, sig: &str, cfg: &Cfg, t1: &str) -> String {
    format!("{prop}\u{0}{sig}\u{0}{}\u{0}{t1}", cfg.to_json())
}

/// Step 2: character-level minimisation of a part-reduced text (memoised; a pure function of the key).
fn minimise_reduced(ctx: &Ctx, sig: &str, cfg: &Cfg, t1: &str) -> String {
    let cur = ctx.cs.build(cfg);
    let clean = parse(t1, cur.level).get_errors().is_empty();
    minimise_text_cached(&min_key(ctx.prop, sig, cfg, t1), t1, &|t| same_failure(ctx.judge, sig, clean, t, &cur))
}

/// Step 3: the minimal text may fail under the default configuration as well; describe the failure.
fn finish(ctx: &Ctx, sig: &str, cfg: &Cfg, min: &str) -> Violation {
    let mut cur = ctx.cs.build(cfg);
    let clean = parse(min, cur.level).get_errors().is_empty();
    if !cur.cfg.is_default() && same_failure(ctx.judge, sig, clean, min, ctx.dflt) {
        cur = ctx.cs.build(&Cfg::default());
    } else if cur.cfg.devs.len() > 1 {
        // a pair of deviations: the minimal text may need only one of them
        for d in cur.cfg.devs.clone() {
            let c1 = ctx.cs.build(&Cfg { devs: vec![d] });
            if same_failure(ctx.judge, sig, clean, min, &c1) {
                cur = c1;
                break;
            }
        }
    }
    let detail = match (ctx.judge)(min, &cur) {
        Verdict::Bad { detail, .. } => detail,
        other => format!("(minimal witness no longer fails: {other:?})"),
    };
    Violation { signature: sig.to_string(), witness: json!({"text": min, "config": cur.cfg.to_json()}), detail }
}

/// user+system CPU seconds of the calling thread (Linux, 10 ms ticks)
fn thread_cpu_s() -> f64 {
    let Ok(t) = std::fs::read_to_string("/proc/thread-self/stat") else { return 0.0 };
    let Some(rest) = t.rsplit_once(')').map(|x| x.1) else { return 0.0 };
    let f: Vec<&str> = rest.split_whitespace().collect();
    let tick = |i: usize| f.get(i).and_then(|x| x.parse::<f64>().ok()).unwrap_or(0.0);
    (tick(11) + tick(12)) / 100.0
}

/// bookkeeping of the minimisation stage (evidence: what was minimised, and the longest single step)
#[derive(Default, Clone, Copy)]
pub struct MinStats {
    pub raw_cases: u64,
    pub distinct_raw: u64,
    pub distinct_keys: u64,
    pub longest_reduce_cpu_s: f64,
    pub longest_key_cpu_s: f64,
    pub wall_s: f64,
}
static MIN_STATS: std::sync::Mutex<MinStats> = std::sync::Mutex::new(MinStats { raw_cases: 0, distinct_raw: 0, distinct_keys: 0, longest_reduce_cpu_s: 0.0, longest_key_cpu_s: 0.0, wall_s: 0.0 });

/// Turn the raw violating cases of a phase into minimal witnesses. Every step is a pure function of
/// its input, identical inputs are computed once, and each step runs on all worker threads — so the
/// result does not depend on which thread met which case first.
fn resolve(ctx: &Ctx, threads: usize, all: &mut Stats) {
    use std::collections::BTreeMap;
    use std::sync::Mutex;
    let raws: Vec<Raw> = std::mem::take(&mut *RAWS.lock().unwrap());
    if raws.is_empty() {
        return;
    }
    let no_deadline = Deadline::after_secs(86_400.0);
    let t_start = std::time::Instant::now();
    let n_raw = raws.len() as u64;
    // identical raw cases once
    let mut distinct: BTreeMap<(String, String, Vec<String>), (Raw, u64)> = BTreeMap::new();
    for r in raws {
        let k = (r.sig.clone(), r.cfg.to_json().to_string(), r.parts.clone());
        distinct.entry(k).and_modify(|e| e.1 += 1).or_insert((r, 1));
    }
    let distinct: Vec<(Raw, u64)> = distinct.into_values().collect();
    // step 1 in parallel
    let reduced: Vec<Mutex<Option<(Cfg, String)>>> = distinct.iter().map(|_| Mutex::new(None)).collect();
    par_range(distinct.len() as u64, threads, &no_deadline, |i, _| {
        let c0 = thread_cpu_s();
        *reduced[i as usize].lock().unwrap() = Some(reduce(ctx, &distinct[i as usize].0));
        let dt = thread_cpu_s() - c0;
        let mut ms = MIN_STATS.lock().unwrap();
        ms.longest_reduce_cpu_s = ms.longest_reduce_cpu_s.max(dt);
    });
    let reduced: Vec<(Cfg, String)> = reduced.into_iter().map(|m| m.into_inner().unwrap().expect("reduced")).collect();
    // step 2: distinct (signature, configuration, reduced text) keys, longest text first, in parallel
    let mut keys: BTreeMap<String, (String, Cfg, String)> = BTreeMap::new();
    for ((raw, _), (cfg, t1)) in distinct.iter().zip(&reduced) {
        keys.entry(min_key(ctx.prop, &raw.sig, cfg, t1)).or_insert_with(|| (raw.sig.clone(), cfg.clone(), t1.clone()));
    }
    let mut keys: Vec<(String, Cfg, String)> = keys.into_values().collect();
    keys.sort_by_key(|k| std::cmp::Reverse(k.2.len()));
    par_range(keys.len() as u64, threads.max(1), &no_deadline, |i, _| {
        let (sig, cfg, t1) = &keys[i as usize];
        let c0 = thread_cpu_s();
        minimise_reduced(ctx, sig, cfg, t1);
        let dt = thread_cpu_s() - c0;
        let mut ms = MIN_STATS.lock().unwrap();
        ms.longest_key_cpu_s = ms.longest_key_cpu_s.max(dt);
    });
    // step 3
    for ((raw, n), (cfg, t1)) in distinct.iter().zip(&reduced) {
        let min = minimise_reduced(ctx, &raw.sig, cfg, t1);
        let v = finish(ctx, &raw.sig, cfg, &min);
        for _ in 0..*n {
            all.violation(v.clone());
        }
    }
    let mut ms = MIN_STATS.lock().unwrap();
    ms.raw_cases += n_raw;
    ms.distinct_raw += distinct.len() as u64;
    ms.distinct_keys += keys.len() as u64;
    ms.wall_s += t_start.elapsed().as_secs_f64();
}

/// Maintenance aid: re-run the character-level minimisation on already minimal witnesses (one JSON
/// fingerprint per line on stdin-like file) and print old → new fingerprints.
pub fn renormalise(prop: &str, judge: Judge, file: &str) {
    let cs = ConfigSpace::new();
    let dflt = cs.build(&Cfg::default());
    let ctx = Ctx { prop, cs: &cs, dflt: &dflt, judge };
    let text = std::fs::read_to_string(file).unwrap_or_default();
    for line in text.lines() {
        let Some(rest) = line.strip_prefix(&format!("{prop}:")) else { continue };
        let Some(i) = rest.find(":{") else { continue };
        let (sig, w) = (&rest[..i], &rest[i + 1..]);
        let Ok(w) = serde_json::from_str::<Value>(w) else { continue };
        let (Some(t), Some(b)) = (w["text"].as_str(), cs.from_witness(&w["config"])) else { continue };
        match judge(t, &b) {
            Verdict::Bad { sig: s2, .. } if s2 == sig => {
                let min = minimise_reduced(&ctx, sig, &b.cfg, t);
                let v = finish(&ctx, sig, &b.cfg, &min);
                let fp = v.fingerprint(prop);
                println!("{}\t{}\t{}", if fp == line { "SAME" } else { "CHANGED" }, line, fp);
            }
            other => println!("GONE\t{}\t{:?}", line, bad_sig(&other)),
        }
    }
}

pub fn replay(cs: &ConfigSpace, w: &Value, judge: Judge) -> Option<Violation> {
    let text = w["text"].as_str()?;
    let b = cs.from_witness(&w["config"])?;
    match judge(text, &b) {
        Verdict::Bad { sig, detail } => Some(Violation { signature: sig, witness: w.clone(), detail }),
        _ => None,
    }
}

pub struct Ctx<'a> {
    pub prop: &'a str,
    pub cs: &'a ConfigSpace,
    pub dflt: &'a Built,
    pub judge: Judge,
}

impl Ctx<'_> {
    /// judge one case and record it
    pub fn case(&self, phase: &str, parts: &[String], b: &Built, st: &mut Stats, sample: bool) {
        let text_owned = parts.concat();
        let text = text_owned.as_str();
        let v = (self.judge)(text, b);
        match &v {
            Verdict::Ok(class, nt) => {
                st.eval(*nt);
                st.outcome(class);
            }
            Verdict::Undecided(class) => {
                st.eval(true);
                st.undecided += 1;
                st.outcome(&format!("undecided:{class}"));
            }
            Verdict::Bad { sig, .. } => {
                st.eval(true);
                // determinism before verdict: the identical failure must reproduce
                let again = (self.judge)(text, b);
                if again != v {
                    st.undecided += 1;
                    st.outcome("undecided:not-reproducible");
                    return;
                }
                st.outcome(&format!("violation:{sig}"));
                RAWS.lock().unwrap().push(Raw { parts: parts.to_vec(), cfg: b.cfg.clone(), sig: sig.clone() });
            }
        }
        if sample {
            st.sample(|| {
                json!({"phase": phase, "text": clip(text, 160), "config": b.cfg.to_json(),
                   "outcome": match &v { Verdict::Ok(c, _) => c.to_string(), Verdict::Undecided(c) => format!("undecided:{c}"), Verdict::Bad{sig, ..} => format!("violation:{sig}") }})
            });
        }
    }
}

fn lines_of(t: &str) -> Vec<String> {
    t.split_inclusive('\n').map(|l| l.to_string()).collect()
}

struct Phase {
    name: String,
    cases: u64,
    complete: bool,
    wall_s: f64,
    cpu_s: f64,
}

/// user+system CPU seconds of this process so far (Linux: /proc/self/stat, clock ticks of 10 ms)
pub fn process_cpu_s() -> f64 {
    let Ok(t) = std::fs::read_to_string("/proc/self/stat") else { return 0.0 };
    let Some(rest) = t.rsplit_once(')').map(|x| x.1) else { return 0.0 };
    let f: Vec<&str> = rest.split_whitespace().collect();
    let tick = |i: usize| f.get(i).and_then(|x| x.parse::<f64>().ok()).unwrap_or(0.0);
    (tick(11) + tick(12)) / 100.0
}

pub fn explore(args: &Args, prop: &str, judge: Judge, oracle: &str) -> ! {
    let cs = ConfigSpace::new();
    if let Some(w) = args.replay_witness() {
        let r = replay(&cs, &w["witness"], judge).or_else(|| replay(&cs, &w, judge));
        finish_replay(r, prop);
    }
    let dl = args.deadline();
    let thorough = args.tier == Tier::Thorough;
    let dflt = cs.build(&Cfg::default());
    let dev0: Vec<Built> = vec![cs.build(&Cfg::default())];
    let dev1: Vec<Built> = cs.deviations(1).iter().map(|c| cs.build(c)).collect();
    let dev01: Vec<Built> = dev0.iter().chain(dev1.iter()).map(|b| cs.build(&b.cfg)).collect();
    let dev2: Vec<Built> = if thorough { cs.deviations(2).iter().map(|c| cs.build(c)).collect() } else { vec![] };
    let ctx = Ctx { prop, cs: &cs, dflt: &dflt, judge };
    let sigma = sigma_f();
    let mut all = Stats::default();
    let mut phases: Vec<Phase> = Vec::new();
    let threads = args.threads;

    // generic runner: n texts × a config list
    let run = |name: &str, n: u64, parts_of: &(dyn Fn(u64) -> Vec<String> + Sync), cfgs: &[Built], all: &mut Stats, phases: &mut Vec<Phase>| {
        let stride = (n / 7).max(1);
        let (t0, c0) = (std::time::Instant::now(), process_cpu_s());
        // few, large texts (std files): one work unit per (text, configuration) so that all threads are busy
        let nc = cfgs.len() as u64;
        let per_pair = n < threads as u64 * 16;
        let (st, ok) = if per_pair {
            par_range(n * nc, threads, &dl, |j, st| {
                let (i, ci) = (j / nc, (j % nc) as usize);
                let text = parts_of(i);
                let sample = i % stride == stride / 2 && ci == (i as usize / stride as usize * 5) % cfgs.len();
                ctx.case(name, &text, &cfgs[ci], st, sample);
            })
        } else {
            par_range(n, threads, &dl, |i, st| {
                let text = parts_of(i);
                for (ci, b) in cfgs.iter().enumerate() {
                    let sample = i % stride == stride / 2 && ci == (i as usize / stride as usize * 5) % cfgs.len();
                    ctx.case(name, &text, b, st, sample);
                }
            })
        };
        let done = st.evaluations;
        all.merge(st);
        resolve(&ctx, threads, all);
        phases.push(Phase { name: name.to_string(), cases: done, complete: ok, wall_s: t0.elapsed().as_secs_f64(), cpu_s: process_cpu_s() - c0 });
        ok
    };

    // (A) Σ_f^≤k × deviations, bound iterated upward
    let ns = sigma.len() as u64;
    let word = |k: usize| {
        let sigma = &sigma;
        move |i: u64| {
            let mut w = Vec::new();
            decode_word(i, ns, k, &mut w);
            w.iter().map(|&x| sigma[x].clone()).collect::<Vec<String>>()
        }
    };
    // bound iterated upward: k=1 first; the large k=2 product runs after the small families below, so that
    // a wall cap on a busy machine cuts into the largest phase and not into the distinct small ones
    let mut k_done_dev1 = 0;
    if run("Σf^1×dev≤1", ns, &word(1), &dev01, &mut all, &mut phases) {
        k_done_dev1 = 1;
    }
    // (B) expression derivations by depth
    let e1: Vec<String> = expr_depth1(ATOMS);
    let e2: Vec<String> = expr_depth2();
    let ctx_of = |e: &str, which: u64| match which {
        0 => format!("x = {e}\n"),
        _ => format!("return {e}, {e}\n"),
    };
    run("expr-depth1×dev≤1", e1.len() as u64 * 2, &|i| vec![ctx_of(&e1[(i / 2) as usize], i % 2)], &dev01, &mut all, &mut phases);
    run(
        if thorough { "expr-depth2×dev≤1" } else { "expr-depth2×dev0" },
        e2.len() as u64,
        &|i| vec![ctx_of(&e2[i as usize], 0)],
        if thorough { &dev01 } else { &dev0 },
        &mut all,
        &mut phases,
    );
    // (B') string literals: quote characters after backslash runs × delimiters × positions
    let strings = string_literal_family();
    run("string-literals×dev≤1", strings.len() as u64, &|i| vec![strings[i as usize].clone()], &dev01, &mut all, &mut phases);
    // (C) bundled std library: paragraphs and whole files
    let paras = std_paragraphs();
    let files = std_files();
    run("std-paragraphs×dev≤1", paras.len() as u64, &|i| lines_of(&paras[i as usize]), &dev01, &mut all, &mut phases);
    run("std-files×dev≤1", files.len() as u64, &|i| lines_of(&files[i as usize].1), &dev01, &mut all, &mut phases);
    // (D) fragment words (mostly invalid input): must come back unchanged
    let k_inv = if thorough { 3 } else { 3 };
    let n1 = SIGMA1.len() as u64;
    let mut k_done_inv = 0;
    for k in 1..=k_inv {
        let f = move |i: u64| {
            let mut w = Vec::new();
            decode_word(i, n1, k, &mut w);
            w.iter().map(|&x| SIGMA1[x].to_string()).collect::<Vec<String>>()
        };
        if run(&format!("Σ1^{k}×dev0"), pow(n1, k as u32), &f, &dev0, &mut all, &mut phases) {
            k_done_inv = k;
        } else {
            break;
        }
    }
    if k_done_dev1 == 1 && run("Σf^2×dev≤1", pow(ns, 2), &word(2), &dev01, &mut all, &mut phases) {
        k_done_dev1 = 2;
    }
    // thorough: one more level / one more deviation
    let mut k3_dev0 = false;
    let mut k2_dev2 = false;
    let mut k3_dev1 = false;
    let mut mutations = 0u64;
    if thorough {
        k3_dev0 = run("Σf^3×dev0", pow(ns, 3), &word(3), &dev0, &mut all, &mut phases);
        // single-token deletions of the std paragraphs
        let mut jobs: Vec<(usize, usize, usize)> = Vec::new();
        for (pi, p) in paras.iter().enumerate() {
            if p.len() > 1500 {
                continue;
            }
            let tree = parse(p, dflt.level);
            for el in tree.get_red_root().descendants_with_tokens() {
                if let rowan::NodeOrToken::Token(t) = el {
                    let r = t.text_range();
                    jobs.push((pi, u32::from(r.start()) as usize, u32::from(r.end()) as usize));
                }
            }
        }
        mutations = jobs.len() as u64;
        run(
            "std-paragraph-token-deletions×dev0",
            mutations,
            &|i| {
                let (pi, s, e) = jobs[i as usize];
                lines_of(&format!("{}{}", &paras[pi][..s], &paras[pi][e..]))
            },
            &dev0,
            &mut all,
            &mut phases,
        );
        for k in 1..=2 {
            k2_dev2 = run(&format!("Σf^{k}×dev2"), pow(ns, k as u32), &word(k), &dev2, &mut all, &mut phases);
            if !k2_dev2 {
                break;
            }
        }
        // Σf^3 × dev1 (3.4M programs × 72 configurations = 243M cases, ≈16,000 CPU-seconds) cannot complete within the
        // thorough cap on 16 cores; it is only run when asked for explicitly (`--k3dev1 1`) and is not part of the tier.
        if args.extra.contains_key("k3dev1") {
            k3_dev1 = run("Σf^3×dev1", pow(ns, 3), &word(3), &dev1, &mut all, &mut phases);
        }
    }

    let mut rep = Report::new(prop, "exploration");
    let targeted_ok = phases.iter().all(|p| p.complete);
    rep.exhaustive = targeted_ok;
    rep.rule = format!(
        "programs = every sequence of ≤2 items{} of the statement/comment alphabet Σf (|Σf|={}: every statement form, table/call/string shapes, comments in every list position, every doc tag and type form, code fences, lines at width-1/width/width+1), every expression derivation of depth ≤2 over {} atoms/{} unary/{} binary operators, every string literal whose body is ≤2 pieces over (each quote character after 0..3 backslashes, \\z, \\n, \\x41, \\u{{41}}, a backslash pair, a letter) in each of 4 delimiters and 4 syntactic positions ({} programs), every paragraph ({}) and every file ({}) of the bundled std library, every word of the fragment alphabet Σ1^≤{} (|Σ1|={}, mostly invalid input){}; configurations = default + every single knob of LuaFormatConfig set to each of its other values ({} knobs, {} configurations{}); each (program, configuration) pair is evaluated once through emmylua_formatter::reformat_lua_code / check_text with the parser level luafmt would use (config.syntax.level). Oracle: {oracle}. Non-trivial = the formatter changed the text (or the case is a violation/undecided).",
        if thorough { " (and every sequence of 3 items under the default configuration)" } else { "" },
        sigma.len(),
        ATOMS.len(),
        UNOPS.len(),
        BINOPS.len(),
        strings.len(),
        paras.len(),
        files.len(),
        k_inv,
        SIGMA1.len(),
        if thorough { format!(", every single-token deletion ({mutations}) of the std paragraphs") } else { String::new() },
        cs.knobs.len(),
        dev01.len(),
        if thorough { format!("; plus every pair of deviations ({}) on Σf^≤2", dev2.len()) } else { String::new() },
    );
    let m = *MIN_STATS.lock().unwrap();
    let min_json = json!({"raw_cases": m.raw_cases, "distinct_raw_cases": m.distinct_raw, "distinct_reduced_keys": m.distinct_keys,
        "longest_single_reduction_cpu_s": m.longest_reduce_cpu_s, "longest_single_key_cpu_s": m.longest_key_cpu_s, "wall_s": (m.wall_s * 100.0).round() / 100.0});
    rep.bounds = json!({
        "sigma_f": sigma.len(), "k_completed_dev1": k_done_dev1, "k3_dev0_completed": k3_dev0, "k2_dev2_completed": k2_dev2,
        "k3_dev1_completed": k3_dev1, "sigma1_k_completed": k_done_inv,
        "configs_dev0_1": dev01.len(), "configs_dev2": dev2.len(), "knobs": cs.knobs.iter().map(|k| json!({"path": k.path, "other_values": k.others})).collect::<Vec<_>>(),
        "phases": phases.iter().map(|p| json!({"phase": p.name, "cases": p.cases, "complete": p.complete, "wall_s": (p.wall_s * 100.0).round() / 100.0, "cpu_s": (p.cpu_s * 100.0).round() / 100.0})).collect::<Vec<_>>(),
        "wall_cap_s": args.wall_cap_s, "wall_cap_hit": dl.was_hit(),
        "minimisation": min_json,
        "process_cpu_s": (process_cpu_s() * 100.0).round() / 100.0,
    });
    rep.assumptions = vec![
        "the repository's own parser is the reference for 'parses' and for token boundaries (its losslessness is C01's subject)".into(),
        "the canonical form erases every normalisation any configuration may enable, so it is weaker than a per-configuration oracle".into(),
        "programs needing an item outside Σf, more items than the bound, or more than the stated number of simultaneous knob deviations are not covered".into(),
    ];
    if !cs.uncovered.is_empty() {
        rep.assumptions.push(format!("configuration leaves without explored alternatives: {:?}", cs.uncovered));
    }
    rep.set("knob_count", json!(cs.knobs.len()));
    rep.finish(args, all)
}
