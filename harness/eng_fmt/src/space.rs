//! The input × configuration space shared by C05 and C06 ("same enumeration as C05"), explored
//! completely up to the tier's bounds, with a property-specific judge.
use crate::common::*;
use serde_json::{Value, json};
use vcore::*;

#[derive(Debug, Clone, PartialEq)]
pub enum Verdict {
    /// property holds on this case: (outcome class, non-trivial?)
    Ok(&'static str, bool),
    /// the statement leaves this case open
    Undecided(&'static str),
    Bad { sig: String, detail: String },
}

pub type Judge = fn(&str, &Built) -> Verdict;

fn bad_sig(v: &Verdict) -> Option<&str> {
    match v {
        Verdict::Bad { sig, .. } => Some(sig.as_str()),
        _ => None,
    }
}

/// Reduce a violating (text, config) to its minimal witness: knobs reset to default where the same
/// failure persists, then lines and characters dropped while the same signature is produced.
pub fn minimise(prop: &str, cs: &ConfigSpace, dflt: &Built, parts: &[String], b: &Built, sig: &str, judge: Judge) -> Violation {
    let text_owned = parts.concat();
    let text = text_owned.as_str();
    // a witness for an input that parses cleanly (no syntax and no doc error) must itself parse cleanly
    let clean = parse(text, b.level).get_errors().is_empty();
    let same = |t: &str, b: &Built| bad_sig(&judge(t, b)) == Some(sig) && (!clean || parse(t, b.level).get_errors().is_empty());
    // 1. fewest deviations
    let mut owned: Option<Built> = None;
    let mut cur: &Built = b;
    if !b.cfg.is_default() {
        if same(text, dflt) {
            cur = dflt;
        } else if b.cfg.devs.len() > 1 {
            for d in &b.cfg.devs {
                let c1 = cs.build(&Cfg { devs: vec![d.clone()] });
                if same(text, &c1) {
                    owned = Some(c1);
                    break;
                }
            }
            if let Some(o) = owned.as_ref() {
                cur = o;
            }
        }
    }
    // 2. text
    let key = format!("{prop}\u{0}{sig}\u{0}{}", cur.cfg.to_json());
    let min = minimise_cached(&key, parts, |t| same(t, cur));
    // 3. the minimal text may fail under the default configuration as well
    if !cur.cfg.is_default() && same(&min, dflt) {
        cur = dflt;
    }
    let detail = match judge(&min, cur) {
        Verdict::Bad { detail, .. } => detail,
        other => format!("(minimal witness no longer fails: {other:?})"),
    };
    Violation { signature: sig.to_string(), witness: json!({"text": min, "config": cur.cfg.to_json()}), detail }
}

pub fn replay(cs: &ConfigSpace, w: &Value, judge: Judge) -> Option<Violation> {
    let text = w["text"].as_str()?;
    let b = cs.from_witness(&w["config"])?;
    match judge(text, &b) {
        Verdict::Bad { sig, detail } => Some(Violation { signature: sig, witness: w.clone(), detail }),
        _ => None,
    }
}

pub struct Ctx<'a> {
    pub prop: &'a str,
    pub cs: &'a ConfigSpace,
    pub dflt: &'a Built,
    pub judge: Judge,
}

impl Ctx<'_> {
    /// judge one case and record it
    pub fn case(&self, phase: &str, parts: &[String], b: &Built, st: &mut Stats, sample: bool) {
        let text_owned = parts.concat();
        let text = text_owned.as_str();
        let v = (self.judge)(text, b);
        match &v {
            Verdict::Ok(class, nt) => {
                st.eval(*nt);
                st.outcome(class);
            }
            Verdict::Undecided(class) => {
                st.eval(true);
                st.undecided += 1;
                st.outcome(&format!("undecided:{class}"));
            }
            Verdict::Bad { sig, .. } => {
                st.eval(true);
                // determinism before verdict: the identical failure must reproduce
                let again = (self.judge)(text, b);
                if again != v {
                    st.undecided += 1;
                    st.outcome("undecided:not-reproducible");
                    return;
                }
                st.outcome(&format!("violation:{sig}"));
                st.violation(minimise(self.prop, self.cs, self.dflt, parts, b, sig, self.judge));
            }
        }
        if sample {
            st.sample(|| {
                json!({"phase": phase, "text": clip(text, 160), "config": b.cfg.to_json(),
                   "outcome": match &v { Verdict::Ok(c, _) => c.to_string(), Verdict::Undecided(c) => format!("undecided:{c}"), Verdict::Bad{sig, ..} => format!("violation:{sig}") }})
            });
        }
    }
}

fn lines_of(t: &str) -> Vec<String> {
    t.split_inclusive('\n').map(|l| l.to_string()).collect()
}

struct Phase {
    name: String,
    cases: u64,
    complete: bool,
}

pub fn explore(args: &Args, prop: &str, judge: Judge, oracle: &str) -> ! {
    let cs = ConfigSpace::new();
    if let Some(w) = args.replay_witness() {
        let r = replay(&cs, &w["witness"], judge).or_else(|| replay(&cs, &w, judge));
        finish_replay(r, prop);
    }
    let dl = args.deadline();
    let thorough = args.tier == Tier::Thorough;
    let dflt = cs.build(&Cfg::default());
    let dev0: Vec<Built> = vec![cs.build(&Cfg::default())];
    let dev1: Vec<Built> = cs.deviations(1).iter().map(|c| cs.build(c)).collect();
    let dev01: Vec<Built> = dev0.iter().chain(dev1.iter()).map(|b| cs.build(&b.cfg)).collect();
    let dev2: Vec<Built> = if thorough { cs.deviations(2).iter().map(|c| cs.build(c)).collect() } else { vec![] };
    let ctx = Ctx { prop, cs: &cs, dflt: &dflt, judge };
    let sigma = sigma_f();
    let mut all = Stats::default();
    let mut phases: Vec<Phase> = Vec::new();
    let threads = args.threads;

    // generic runner: n texts × a config list
    let run = |name: &str, n: u64, parts_of: &(dyn Fn(u64) -> Vec<String> + Sync), cfgs: &[Built], all: &mut Stats, phases: &mut Vec<Phase>| {
        let stride = (n / 7).max(1);
        let (st, ok) = par_range(n, threads, &dl, |i, st| {
            let text = parts_of(i);
            for (ci, b) in cfgs.iter().enumerate() {
                let sample = i % stride == stride / 2 && ci == (i as usize / stride as usize * 5) % cfgs.len();
                ctx.case(name, &text, b, st, sample);
            }
        });
        let done = st.evaluations;
        all.merge(st);
        phases.push(Phase { name: name.to_string(), cases: done, complete: ok });
        ok
    };

    // (A) Σ_f^≤k × deviations, bound iterated upward
    let ns = sigma.len() as u64;
    let word = |k: usize| {
        let sigma = &sigma;
        move |i: u64| {
            let mut w = Vec::new();
            decode_word(i, ns, k, &mut w);
            w.iter().map(|&x| sigma[x].clone()).collect::<Vec<String>>()
        }
    };
    let mut k_done_dev1 = 0;
    for k in 1..=2 {
        if run(&format!("Σf^{k}×dev≤1"), pow(ns, k as u32), &word(k), &dev01, &mut all, &mut phases) {
            k_done_dev1 = k;
        } else {
            break;
        }
    }
    // (B) expression derivations by depth
    let e1: Vec<String> = expr_depth1(ATOMS);
    let e2: Vec<String> = expr_depth2();
    let ctx_of = |e: &str, which: u64| match which {
        0 => format!("x = {e}\n"),
        _ => format!("return {e}, {e}\n"),
    };
    run("expr-depth1×dev≤1", e1.len() as u64 * 2, &|i| vec![ctx_of(&e1[(i / 2) as usize], i % 2)], &dev01, &mut all, &mut phases);
    run(
        if thorough { "expr-depth2×dev≤1" } else { "expr-depth2×dev0" },
        e2.len() as u64,
        &|i| vec![ctx_of(&e2[i as usize], 0)],
        if thorough { &dev01 } else { &dev0 },
        &mut all,
        &mut phases,
    );
    // (C) bundled std library: paragraphs and whole files
    let paras = std_paragraphs();
    let files = std_files();
    run("std-paragraphs×dev≤1", paras.len() as u64, &|i| lines_of(&paras[i as usize]), &dev01, &mut all, &mut phases);
    run("std-files×dev≤1", files.len() as u64, &|i| lines_of(&files[i as usize].1), &dev01, &mut all, &mut phases);
    // (D) fragment words (mostly invalid input): must come back unchanged
    let k_inv = if thorough { 3 } else { 3 };
    let n1 = SIGMA1.len() as u64;
    let mut k_done_inv = 0;
    for k in 1..=k_inv {
        let f = move |i: u64| {
            let mut w = Vec::new();
            decode_word(i, n1, k, &mut w);
            w.iter().map(|&x| SIGMA1[x].to_string()).collect::<Vec<String>>()
        };
        if run(&format!("Σ1^{k}×dev0"), pow(n1, k as u32), &f, &dev0, &mut all, &mut phases) {
            k_done_inv = k;
        } else {
            break;
        }
    }
    // thorough: one more level / one more deviation
    let mut k3_dev0 = false;
    let mut k2_dev2 = false;
    let mut k3_dev1 = false;
    let mut mutations = 0u64;
    if thorough {
        k3_dev0 = run("Σf^3×dev0", pow(ns, 3), &word(3), &dev0, &mut all, &mut phases);
        // single-token deletions of the std paragraphs
        let mut jobs: Vec<(usize, usize, usize)> = Vec::new();
        for (pi, p) in paras.iter().enumerate() {
            if p.len() > 1500 {
                continue;
            }
            let tree = parse(p, dflt.level);
            for el in tree.get_red_root().descendants_with_tokens() {
                if let rowan::NodeOrToken::Token(t) = el {
                    let r = t.text_range();
                    jobs.push((pi, u32::from(r.start()) as usize, u32::from(r.end()) as usize));
                }
            }
        }
        mutations = jobs.len() as u64;
        run(
            "std-paragraph-token-deletions×dev0",
            mutations,
            &|i| {
                let (pi, s, e) = jobs[i as usize];
                lines_of(&format!("{}{}", &paras[pi][..s], &paras[pi][e..]))
            },
            &dev0,
            &mut all,
            &mut phases,
        );
        for k in 1..=2 {
            k2_dev2 = run(&format!("Σf^{k}×dev2"), pow(ns, k as u32), &word(k), &dev2, &mut all, &mut phases);
            if !k2_dev2 {
                break;
            }
        }
        k3_dev1 = run("Σf^3×dev1", pow(ns, 3), &word(3), &dev1, &mut all, &mut phases);
    }

    let mut rep = Report::new(prop, "exploration");
    let targeted_ok = phases.iter().all(|p| p.complete);
    rep.exhaustive = targeted_ok;
    rep.rule = format!(
        "programs = every sequence of ≤{} items of the statement/comment alphabet Σf (|Σf|={}: every statement form, table/call/string shapes, comments in every list position, every doc tag and type form, code fences, lines at width-1/width/width+1), every expression derivation of depth ≤2 over {} atoms/{} unary/{} binary operators, every paragraph ({}) and every file ({}) of the bundled std library, every word of the fragment alphabet Σ1^≤{} (|Σ1|={}, mostly invalid input){}; configurations = default + every single knob of LuaFormatConfig set to each of its other values ({} knobs, {} configurations{}); each (program, configuration) pair is evaluated once through emmylua_formatter::reformat_lua_code / check_text with the parser level luafmt would use (config.syntax.level). Oracle: {oracle}. Non-trivial = the formatter changed the text (or the case is a violation/undecided).",
        if thorough { 3 } else { 2 },
        sigma.len(),
        ATOMS.len(),
        UNOPS.len(),
        BINOPS.len(),
        paras.len(),
        files.len(),
        k_inv,
        SIGMA1.len(),
        if thorough { format!(", every single-token deletion ({mutations}) of the std paragraphs") } else { String::new() },
        cs.knobs.len(),
        dev01.len(),
        if thorough { format!("; plus every pair of deviations ({}) on Σf^≤2", dev2.len()) } else { String::new() },
    );
    rep.bounds = json!({
        "sigma_f": sigma.len(), "k_completed_dev1": k_done_dev1, "k3_dev0_completed": k3_dev0, "k2_dev2_completed": k2_dev2,
        "k3_dev1_completed": k3_dev1, "sigma1_k_completed": k_done_inv,
        "configs_dev0_1": dev01.len(), "configs_dev2": dev2.len(), "knobs": cs.knobs.iter().map(|k| json!({"path": k.path, "other_values": k.others})).collect::<Vec<_>>(),
        "phases": phases.iter().map(|p| json!({"phase": p.name, "cases": p.cases, "complete": p.complete})).collect::<Vec<_>>(),
        "wall_cap_s": args.wall_cap_s, "wall_cap_hit": dl.was_hit(),
    });
    rep.assumptions = vec![
        "the repository's own parser is the reference for 'parses' and for token boundaries (its losslessness is C01's subject)".into(),
        "the canonical form erases every normalisation any configuration may enable, so it is weaker than a per-configuration oracle".into(),
        "programs needing an item outside Σf, more items than the bound, or more than the stated number of simultaneous knob deviations are not covered".into(),
    ];
    if !cs.uncovered.is_empty() {
        rep.assumptions.push(format!("configuration leaves without explored alternatives: {:?}", cs.uncovered));
    }
    rep.set("knob_count", json!(cs.knobs.len()));
    rep.finish(args, all)
}
