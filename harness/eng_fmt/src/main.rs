mod c05;
mod c06;
mod c07;
mod common;
mod space;

fn main() {
    let args = vcore::parse_args();
    match args.prop.as_str() {
        "C05" => c05::run(&args),
        "C06" => c06::run(&args),
        "C07" => c07::run(&args),
        "DUMP" => {
            // debugging aid: --text '<lua, \n escaped>' [--config '{"knob": value}'] [--sel s,e]
            let text = args.extra.get("text").cloned().unwrap_or_default();
            let text = text.replace("\\n", "\n").replace("\\0", "\0").replace("\\r", "\r").replace("\\t", "\t");
            let cs = common::ConfigSpace::new();
            let cfgv: serde_json::Value =
                args.extra.get("config").map(|c| serde_json::from_str(c).expect("config json")).unwrap_or(serde_json::json!({}));
            let b = cs.from_witness(&cfgv).expect("config");
            let t = common::parse(&text, b.level);
            if args.extra.contains_key("tree") {
                println!("{:#?}", t.get_red_root());
            }
            println!("errors: {:?}", t.get_errors());
            let out = common::format(&text, &b);
            println!("pass1: {out:?}");
            if let Ok(o) = &out {
                println!("pass2: {:?}", common::format(o, &b));
                let ot = common::parse(o, b.level);
                if args.extra.contains_key("tree") {
                    println!("{:#?}", ot.get_red_root());
                }
                let (ci, co) = (common::canon(&t), common::canon(&ot));
                println!("canon in : {:?}\n           {:?}", ci.code, ci.comments);
                println!("canon out: {:?}\n           {:?}", co.code, co.comments);
                println!("compare: {:?}", common::compare(&ci, &co));
            }
            println!("C05: {:?}", c05::judge(&text, &b));
            println!("C06: {:?}", c06::judge(&text, &b));
            if let Some(sel) = args.extra.get("sel") {
                let mut it = sel.split(',').map(|x| x.trim().parse::<u32>().expect("sel"));
                let (s, e) = (it.next().unwrap(), it.next().unwrap());
                println!("C07: {:?}", c07::judge(&text, s, e, &b));
            }
        }
        "RENORM05" => space::renormalise("C05", c05::judge, args.extra.get("file").map(|s| s.as_str()).unwrap_or("")),
        "RENORM06" => space::renormalise("C06", c06::judge, args.extra.get("file").map(|s| s.as_str()).unwrap_or("")),
        "ITEMS" => {
            let cs = common::ConfigSpace::new();
            let b = cs.build(&common::Cfg::default());
            for (i, it) in common::sigma_f().iter().enumerate() {
                let t = common::parse(it, b.level);
                println!("{i:3} {:?}\n      errors={:?}\n      C05={:?}\n      C06={:?}", it, t.get_errors().iter().map(|e| e.message.clone()).collect::<Vec<_>>(), c05::judge(it, &b), c06::judge(it, &b));
            }
        }
        p => vcore::die(&format!("eng_fmt does not serve {p}")),
    }
}
