//! C05 — formatting never changes or loses code.
//! Ω: input with syntax errors ⇒ output == input; otherwise the output parses without syntax errors and
//! its canonical form (common::canon) equals the input's: same code tokens modulo the normalisations a
//! configuration may enable, same comment/doc texts modulo blank runs, same doc syntax shape, same code tree.
use crate::common::*;
use crate::space::{Verdict, explore};
use vcore::*;

pub fn judge(text: &str, b: &Built) -> Verdict {
    let tree = parse(text, b.level);
    let valid = !tree.has_syntax_errors();
    let out = match format(text, b) {
        Ok(o) => o,
        Err(p) => return Verdict::Bad { sig: format!("panic:{}", panic_site(&p)), detail: p },
    };
    if !valid {
        return if out == text {
            Verdict::Ok("invalid-returned-unchanged", false)
        } else {
            Verdict::Bad { sig: "invalid-changed".into(), detail: format!("input has syntax errors but the output differs: {:?}", clip(&out, 120)) }
        };
    }
    let otree = parse(&out, b.level);
    if otree.has_syntax_errors() {
        let e = otree.get_errors().iter().find(|e| e.kind == emmylua_parser::LuaParseErrorKind::SyntaxError);
        return Verdict::Bad {
            sig: "unparsable-output".into(),
            detail: format!("output {:?} has syntax error: {}", clip(&out, 160), e.map(|e| e.message.clone()).unwrap_or_default()),
        };
    }
    let (ci, co) = (canon(&tree), canon(&otree));
    match compare(&ci, &co) {
        Diff::Same => {
            if out == text {
                Verdict::Ok("unchanged", false)
            } else if ci.comments.is_empty() {
                Verdict::Ok("reformatted-code", true)
            } else {
                Verdict::Ok("reformatted-with-comments", true)
            }
        }
        Diff::Undecided(c) => Verdict::Undecided(c),
        // removing blank lines (max_blank_lines = 0) joins neighbouring comment blocks; whether the joined
        // block must "parse to the same structure" is not settled by the statement
        Diff::Hard(sig, _) if b.config.layout.max_blank_lines == 0 && !sig.starts_with("tokens") && !sig.starts_with("code") && text.contains("\n\n") => {
            Verdict::Undecided("comment-blocks-joined-by-max_blank_lines=0")
        }
        Diff::Hard(sig, detail) => Verdict::Bad { sig, detail: format!("{detail}; output {:?}", clip(&out, 160)) },
    }
}

pub fn run(args: &Args) -> ! {
    explore(
        args,
        "C05",
        judge,
        "input with syntax errors ⇒ output byte-identical; otherwise output has no syntax error, and input/output agree on (a) the code token sequence after erasing whitespace, table separator spelling and trailing separators, statement semicolons, optional parentheses around a sole string/table call argument, and string quoting (strings compared by decoded value), (b) every comment token with blank runs collapsed and the dash prefix's blank dropped, (c) the doc syntax shape (sequence of doc node kinds), (d) the pre-order sequence of code node kinds; a comment that only moved across a token, or whose blank runs changed, is counted undecided",
    )
}
