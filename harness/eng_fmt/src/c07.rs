//! C07 — range formatting only rewrites code around the selection.
//! Documents × ALL selections (start ≤ end on char boundaries, plus ranges beyond the end) × configurations.
//! Ω: document with syntax errors ⇒ no result. Otherwise a result's replace_range lies in the document on
//! char boundaries, contains every non-blank token lying wholly inside the selection, and splicing the
//! replacement in gives a document that parses and has C05's canonical form equal to the original's.
use crate::common::*;
use crate::space::Verdict;
use emmylua_formatter::{RangeFormatOutput, SourceText, TextRange, reformat_range, reformat_range_in_chunk};
use emmylua_parser::LuaTokenKind;
use rowan::{NodeOrToken, TextSize};
use serde_json::{Value, json};
use std::collections::HashMap;
use vcore::*;

pub struct Doc {
    pub text: String,
    pub tree: emmylua_parser::LuaSyntaxTree,
    pub valid: bool,
    pub canon: Canon,
    /// byte ranges of the tokens that are not whitespace / line ends
    pub tokens: Vec<(u32, u32)>,
    /// char boundaries 0..=len
    pub bounds: Vec<u32>,
}

impl Doc {
    pub fn new(text: &str, b: &Built) -> Doc {
        let tree = parse(text, b.level);
        let valid = !tree.has_syntax_errors();
        let canon = if valid { canon(&tree) } else { Canon::default() };
        let mut tokens = Vec::new();
        for el in tree.get_red_root().descendants_with_tokens() {
            if let NodeOrToken::Token(t) = el {
                let k: LuaTokenKind = t.kind().into();
                // the `#!` line is not Lua code and is never rewritten by the formatter: a selection that
                // includes it does not oblige the result to cover it
                if !matches!(k, LuaTokenKind::TkWhitespace | LuaTokenKind::TkEndOfLine | LuaTokenKind::TkShebang) {
                    let r = t.text_range();
                    tokens.push((u32::from(r.start()), u32::from(r.end())));
                }
            }
        }
        let mut bounds: Vec<u32> = text.char_indices().map(|(i, _)| i as u32).collect();
        bounds.push(text.len() as u32);
        Doc { text: text.to_string(), tree, valid, canon, tokens, bounds }
    }

    /// every selection: all start ≤ end on char boundaries, plus ranges reaching beyond the end
    pub fn selections(&self) -> Vec<(u32, u32)> {
        let mut v = Vec::new();
        for (i, &s) in self.bounds.iter().enumerate() {
            for &e in &self.bounds[i..] {
                v.push((s, e));
            }
        }
        let n = self.text.len() as u32;
        v.push((0, n + 3));
        v.push((n, n + 3));
        v.push((n + 2, n + 5));
        if n > 1 {
            v.push((self.bounds[self.bounds.len() / 2], n + 1));
        }
        v
    }
}

fn call(doc: &Doc, s: u32, e: u32, b: &Built, in_chunk: bool) -> Result<Option<RangeFormatOutput>, String> {
    let sel = TextRange::new(TextSize::new(s), TextSize::new(e));
    catch(|| {
        if in_chunk && doc.valid && !doc.text.is_empty() {
            // the language server's entry point (document already parsed)
            reformat_range_in_chunk(&doc.text, &doc.tree.get_chunk_node(), sel, &b.config, b.level)
        } else {
            reformat_range(&SourceText { text: &doc.text, level: b.level }, sel, &b.config)
        }
    })
}

/// judge the result for one selection; `memo` caches the splice verdict per distinct (range, text) result
fn judge_result(
    doc: &Doc,
    s: u32,
    e: u32,
    r: Result<Option<RangeFormatOutput>, String>,
    b: &Built,
    memo: &mut HashMap<(u32, u32, String), Verdict>,
) -> Verdict {
    let out = match r {
        Err(p) => return Verdict::Bad { sig: format!("panic:{}", panic_site(&p)), detail: p },
        Ok(o) => o,
    };
    if !doc.valid {
        return match out {
            None => Verdict::Ok("invalid-not-formatted", false),
            Some(o) => Verdict::Bad { sig: "invalid-formatted".into(), detail: format!("document has syntax errors but range {:?} was rewritten to {:?}", o.replace_range, clip(&o.text, 80)) },
        };
    }
    let Some(o) = out else { return Verdict::Ok("no-result", false) };
    let n = doc.text.len() as u32;
    let (rs, re) = (u32::from(o.replace_range.start()), u32::from(o.replace_range.end()));
    if rs > re || re > n || !doc.text.is_char_boundary(rs as usize) || !doc.text.is_char_boundary(re as usize) {
        return Verdict::Bad { sig: "range-out-of-bounds".into(), detail: format!("replace_range {rs}..{re} in a document of {n} bytes") };
    }
    // selected code must be covered
    let (cs, ce) = (s.min(n), e.min(n));
    for &(ts, te) in &doc.tokens {
        if cs <= ts && te <= ce && !(rs <= ts && te <= re) {
            return Verdict::Bad {
                sig: "selection-not-covered".into(),
                detail: format!("token {:?} at {ts}..{te} lies inside the selection {s}..{e} but outside replace_range {rs}..{re}", &doc.text[ts as usize..te as usize]),
            };
        }
    }
    let key = (rs, re, o.text.clone());
    if let Some(v) = memo.get(&key) {
        return v.clone();
    }
    let spliced = format!("{}{}{}", &doc.text[..rs as usize], o.text, &doc.text[re as usize..]);
    let v = {
        let st = parse(&spliced, b.level);
        if st.has_syntax_errors() {
            let e = st.get_errors().iter().find(|e| e.kind == emmylua_parser::LuaParseErrorKind::SyntaxError);
            Verdict::Bad {
                sig: "splice-unparsable".into(),
                detail: format!("replacing {rs}..{re} by {:?} gives {:?}: {}", clip(&o.text, 80), clip(&spliced, 120), e.map(|e| e.message.clone()).unwrap_or_default()),
            }
        } else {
            match compare(&doc.canon, &canon(&st)) {
                Diff::Same => {
                    if o.text == doc.text[rs as usize..re as usize] {
                        Verdict::Ok("result-identical-text", false)
                    } else if rs == 0 && re == n {
                        Verdict::Ok("rewrote-whole-document", true)
                    } else {
                        Verdict::Ok("rewrote-part", true)
                    }
                }
                Diff::Undecided(c) => Verdict::Undecided(c),
                Diff::Hard(sig, detail) => {
                    Verdict::Bad { sig: format!("splice-{sig}"), detail: format!("replacing {rs}..{re} by {:?}: {detail}", clip(&o.text, 80)) }
                }
            }
        }
    };
    memo.insert(key, v.clone());
    v
}

/// one case through the public entry point (used by replay, minimisation and DUMP)
pub fn judge(text: &str, s: u32, e: u32, b: &Built) -> Verdict {
    if s > e {
        return Verdict::Ok("not-a-selection", false);
    }
    let doc = Doc::new(text, b);
    let r = call(&doc, s, e, b, false);
    judge_result(&doc, s, e, r, b, &mut HashMap::new())
}

fn bad_sig(v: &Verdict) -> Option<&str> {
    match v {
        Verdict::Bad { sig, .. } => Some(sig.as_str()),
        _ => None,
    }
}

/// delta-minimise (text, selection): remove character windows (the selection shrinks with them), then
/// take the shortest, earliest selection that still fails the same way.
fn minimise(text: &str, s: u32, e: u32, b: &Built, dflt: &Built, sig: &str) -> Violation {
    let clean = parse(text, b.level).get_errors().is_empty();
    let same = |t: &str, s: u32, e: u32, b: &Built| bad_sig(&judge(t, s, e, b)) == Some(sig) && (!clean || parse(t, b.level).get_errors().is_empty());
    let cur_b = if !b.cfg.is_default() && same(text, s, e, dflt) { dflt } else { b };
    let mut chars: Vec<char> = text.chars().collect();
    // selection in char indices (positions beyond the end stay beyond the end by the same amount)
    let to_ci = |t: &str, x: u32| -> usize {
        if (x as usize) <= t.len() { t[..x as usize].chars().count() } else { t.chars().count() + (x as usize - t.len()) }
    };
    let (mut cs, mut ce) = (to_ci(text, s), to_ci(text, e));
    let to_bytes = |cv: &[char], x: usize| -> u32 {
        if x <= cv.len() { cv[..x].iter().map(|c| c.len_utf8()).sum::<usize>() as u32 } else { (cv.iter().map(|c| c.len_utf8()).sum::<usize>() + (x - cv.len())) as u32 }
    };
    let fails = |cv: &[char], cs: usize, ce: usize| -> bool {
        let t: String = cv.iter().collect();
        same(&t, to_bytes(cv, cs), to_bytes(cv, ce), cur_b)
    };
    loop {
        let before = chars.len();
        // structural step: keep only one statement / block of the document (smallest first)
        {
            let t: String = chars.iter().collect();
            let (bs, be) = (to_bytes(&chars, cs) as usize, to_bytes(&chars, ce) as usize);
            for (ns, ne) in subtree_ranges(&t, cur_b.level) {
                let sub = &t[ns..ne];
                // the selection, cut to the kept part
                let (s2, e2) = (bs.clamp(ns, ne) - ns, be.clamp(ns, ne) - ns);
                if same(sub, s2 as u32, e2 as u32, cur_b) {
                    chars = sub.chars().collect();
                    cs = sub[..s2].chars().count();
                    ce = sub[..e2].chars().count();
                    break;
                }
            }
        }
        let mut len = (chars.len() / 2).max(1);
        loop {
            let mut i = 0;
            while i + len <= chars.len() {
                let mut cand = chars.clone();
                cand.drain(i..i + len);
                let adj = |x: usize| if x <= i { x } else if x < i + len { i } else { x - len };
                let (ns, ne) = (adj(cs), adj(ce));
                if fails(&cand, ns, ne) {
                    chars = cand;
                    cs = ns;
                    ce = ne;
                } else {
                    i += 1;
                }
            }
            if len == 1 {
                break;
            }
            len = if len > 8 { len / 2 } else { len - 1 };
        }
        if chars.len() == before {
            break;
        }
    }
    // hierarchical substitution (statement → `a()`, expression → `a`), the selection moves with the text
    'again: loop {
        let t: String = chars.iter().collect();
        let (bs, be) = (to_bytes(&chars, cs) as usize, to_bytes(&chars, ce) as usize);
        let tree = parse(&t, cur_b.level);
        let mut cands: Vec<(usize, usize, &'static str)> = Vec::new();
        for n in tree.get_red_root().descendants() {
            let k: emmylua_parser::LuaSyntaxKind = n.kind().into();
            let ku = k as u16;
            use emmylua_parser::LuaSyntaxKind as K;
            let rep = if ku > (K::Block as u16) && ku <= (K::UnknownStat as u16) && k != K::EmptyStat {
                "a()"
            } else if ku >= (K::ParenExpr as u16) && ku <= (K::SafeIndexExpr as u16) {
                "a"
            } else {
                continue;
            };
            let r = n.text_range();
            let (s, e) = (u32::from(r.start()) as usize, u32::from(r.end()) as usize);
            if &t[s..e] != rep && e - s >= rep.len() {
                cands.push((s, e, rep));
            }
        }
        cands.sort_by_key(|&(s, e, _)| (std::cmp::Reverse(e - s), s));
        for (s, e, rep) in cands {
            let cand = format!("{}{}{}", &t[..s], rep, &t[e..]);
            let adj = |x: usize| if x <= s { x } else if x >= e { x - (e - s) + rep.len() } else { s };
            let (ns, ne) = (adj(bs), adj(be));
            if cand != t && same(&cand, ns as u32, ne as u32, cur_b) {
                chars = cand.chars().collect();
                let ci = |x: usize| if x <= cand.len() { cand[..x].chars().count() } else { cand.chars().count() + (x - cand.len()) };
                cs = ci(ns);
                ce = ci(ne);
                continue 'again;
            }
        }
        break;
    }
    // canonical spelling of names / numbers
    for i in 0..chars.len() {
        let c = chars[i];
        let r = if c.is_alphabetic() && c != 'a' {
            'a'
        } else if c.is_ascii_digit() && c != '1' {
            '1'
        } else {
            continue;
        };
        chars[i] = r;
        if !fails(&chars, cs, ce) {
            chars[i] = c;
        }
    }
    // canonical selection: shortest, then earliest
    let n = chars.len();
    'outer: for l in 0..=n {
        for st in 0..=(n - l) {
            if fails(&chars, st, st + l) {
                cs = st;
                ce = st + l;
                break 'outer;
            }
        }
    }
    let min: String = chars.iter().collect();
    let (ms, me) = (to_bytes(&chars, cs), to_bytes(&chars, ce));
    let fb = if !cur_b.cfg.is_default() && same(&min, ms, me, dflt) { dflt } else { cur_b };
    let detail = match judge(&min, ms, me, fb) {
        Verdict::Bad { detail, .. } => detail,
        o => format!("(minimal witness no longer fails: {o:?})"),
    };
    Violation { signature: sig.to_string(), witness: json!({"text": min, "sel": [ms, me], "config": fb.cfg.to_json()}), detail }
}

static MIN_CACHE: std::sync::Mutex<Option<HashMap<String, Violation>>> = std::sync::Mutex::new(None);

fn minimise_cached(text: &str, s: u32, e: u32, b: &Built, dflt: &Built, sig: &str) -> Violation {
    let key = format!("{sig}\u{0}{}\u{0}{s},{e}\u{0}{text}", b.cfg.to_json());
    if let Some(v) = MIN_CACHE.lock().unwrap().as_ref().and_then(|m| m.get(&key).cloned()) {
        return v;
    }
    let v = minimise(text, s, e, b, dflt, sig);
    MIN_CACHE.lock().unwrap().get_or_insert_with(HashMap::new).insert(key, v.clone());
    v
}

/// all selections of one document under one configuration
fn explore_doc(phase: &str, text: &str, b: &Built, dflt: &Built, st: &mut Stats, sample: bool) {
    let doc = Doc::new(text, b);
    let mut memo = HashMap::new();
    // violating selections grouped by (signature, result) — one minimisation per group
    let mut groups: HashMap<String, (Violation, u64)> = HashMap::new();
    let sels = doc.selections();
    let pick = sels.len() / 2;
    for (si, &(s, e)) in sels.iter().enumerate() {
        let r = call(&doc, s, e, b, true);
        let gkey = match &r {
            Ok(Some(o)) => format!("{:?}{}", o.replace_range, o.text),
            Ok(None) => "none".into(),
            Err(p) => p.clone(),
        };
        let v = judge_result(&doc, s, e, r, b, &mut memo);
        match &v {
            Verdict::Ok(class, nt) => {
                st.eval(*nt);
                st.outcome(class);
            }
            Verdict::Undecided(class) => {
                st.eval(true);
                st.undecided += 1;
                st.outcome(&format!("undecided:{class}"));
            }
            Verdict::Bad { sig, .. } => {
                st.eval(true);
                st.outcome(&format!("violation:{sig}"));
                let k = format!("{sig}\u{0}{gkey}");
                if let Some(g) = groups.get_mut(&k) {
                    g.1 += 1;
                } else {
                    // determinism + the public entry point must fail identically
                    let again = judge(text, s, e, b);
                    if bad_sig(&again) != Some(sig.as_str()) {
                        st.undecided += 1;
                        st.outcome("undecided:not-reproducible-through-reformat_range");
                        continue;
                    }
                    groups.insert(k, (minimise_cached(text, s, e, b, dflt, sig), 1));
                }
            }
        }
        if sample && si == pick {
            st.sample(|| {
                json!({"phase": phase, "text": clip(text, 120), "selection": [s, e], "config": b.cfg.to_json(),
                "outcome": match &v { Verdict::Ok(c, _) => c.to_string(), Verdict::Undecided(c) => format!("undecided:{c}"), Verdict::Bad{sig, ..} => format!("violation:{sig}") }})
            });
        }
    }
    // the two entry points agree on the whole-document selection
    if doc.valid && !doc.text.is_empty() {
        let n = doc.text.len() as u32;
        if call(&doc, 0, n, b, true) != call(&doc, 0, n, b, false) {
            st.violation(Violation {
                signature: "entry-points-disagree".into(),
                witness: json!({"text": text, "sel": [0, n], "config": b.cfg.to_json()}),
                detail: "reformat_range and reformat_range_in_chunk return different results for the same selection".into(),
            });
        }
    }
    let mut gs: Vec<_> = groups.into_values().collect();
    gs.sort_by(|a, b| a.0.witness.to_string().cmp(&b.0.witness.to_string()));
    for (v, n) in gs {
        for _ in 0..n {
            st.violation(v.clone());
        }
    }
}

/// nested-block variants: the item inside blocks whose source indentation differs from the configured one
pub const WRAPPERS: &[(&str, &str, &str)] = &[
    ("do\n", "    ", "end\n"),
    ("if a then\n", "  ", "end\n"),
    ("function f()\n\tif b then\n", "\t\t", "\tend\nend\n"),
    ("local t = {\n    f = function()\n", "        ", "    end,\n}\n"),
    ("do\n", "", "end\n"),
    ("while a do\n   repeat\n", "      ", "   until b\nend\n"),
];

pub fn wrap(item: &str, w: usize) -> String {
    let (open, indent, close) = WRAPPERS[w];
    let mut s = String::from(open);
    for line in item.split_inclusive('\n') {
        if line.trim().is_empty() {
            s.push_str(line);
        } else {
            s.push_str(indent);
            s.push_str(line);
        }
    }
    if !s.ends_with('\n') {
        s.push('\n');
    }
    s.push_str(close);
    s
}

/// (statement ending in `;`) × (≤2 lines over {`-- c`, `--[[ c ]]`, `---@type T`, blank}) × (statement starting
/// with `(`), at top level and inside a block.
pub fn semicolon_paren_family() -> Vec<String> {
    let firsts = ["local x = y;\n", "f() ;\n", "x = y; -- t\n"];
    let fillers = ["-- c\n", "--[[ c ]]\n", "---@type T\n", "\n"];
    let mut mids: Vec<String> = vec![String::new()];
    for a in fillers {
        mids.push(a.to_string());
        for b in fillers {
            mids.push(format!("{a}{b}"));
        }
    }
    let mut out = Vec::new();
    for f in firsts {
        for m in &mids {
            let doc = format!("{f}{m}(f or g)()\n");
            out.push(wrap(&doc, 0));
            out.push(doc);
        }
    }
    out
}

pub fn replay(cs: &ConfigSpace, w: &Value) -> Option<Violation> {
    let text = w["text"].as_str()?;
    let b = cs.from_witness(&w["config"])?;
    let s = w["sel"][0].as_u64()? as u32;
    let e = w["sel"][1].as_u64()? as u32;
    match judge(text, s, e, &b) {
        Verdict::Bad { sig, detail } => Some(Violation { signature: sig, witness: w.clone(), detail }),
        _ => None,
    }
}

pub fn run(args: &Args) -> ! {
    let cs = ConfigSpace::new();
    if let Some(w) = args.replay_witness() {
        finish_replay(replay(&cs, &w["witness"]).or_else(|| replay(&cs, &w)), "C07");
    }
    let dl = args.deadline();
    let thorough = args.tier == Tier::Thorough;
    let dflt = cs.build(&Cfg::default());
    let dev0: Vec<Built> = vec![cs.build(&Cfg::default())];
    let dev01: Vec<Built> = std::iter::once(Cfg::default()).chain(cs.deviations(1)).map(|c| cs.build(&c)).collect();
    let sigma = sigma_f();
    // quick tier: the 121-byte width items (7.5k selections each) are explored under the default configuration only
    let mid_max = args.extra_usize("mid").unwrap_or(64);
    let short_max = args.extra_usize("short").unwrap_or(16);
    let mid: Vec<String> = sigma.iter().filter(|s| s.len() <= mid_max).cloned().collect();
    let short: Vec<String> = sigma.iter().filter(|s| s.len() <= short_max).cloned().collect();
    let mut all = Stats::default();
    let mut phases: Vec<(String, u64, u64, bool)> = Vec::new();
    let threads = args.threads;

    let run = |name: &str, n: u64, text_of: &(dyn Fn(u64) -> String + Sync), cfgs: &[Built], all: &mut Stats, phases: &mut Vec<(String, u64, u64, bool)>| {
        let total = n * cfgs.len() as u64;
        let stride = (total / 5).max(1);
        let (st, ok) = par_range(total, threads, &dl, |i, st| {
            let (di, ci) = (i / cfgs.len() as u64, (i % cfgs.len() as u64) as usize);
            explore_doc(name, &text_of(di), &cfgs[ci], &dflt, st, i % stride == stride / 2);
        });
        phases.push((name.to_string(), total, st.evaluations, ok));
        all.merge(st);
        ok
    };

    let ns = sigma.len() as u64;
    let nm = mid.len() as u64;
    let nsh = short.len() as u64;
    let nw = WRAPPERS.len() as u64;
    let word = |alpha: &[String], k: usize| {
        let alpha = alpha.to_vec();
        move |i: u64| {
            let mut w = Vec::new();
            decode_word(i, alpha.len() as u64, k, &mut w);
            word_text(&alpha, &w)
        }
    };
    // documents, bound iterated upward
    run("Σf^1×all-selections×dev0", ns, &word(&sigma, 1), &dev0, &mut all, &mut phases);
    run("Σmid^1×all-selections×dev1", nm, &word(&mid, 1), &dev01[1..], &mut all, &mut phases);
    run("nested(Σmid^1)×all-selections×dev0", nm * nw, &|i| wrap(&mid[(i / nw) as usize], (i % nw) as usize), &dev0, &mut all, &mut phases);
    run("Σshort^2×all-selections×dev0", nsh * nsh, &word(&short, 2), &dev0, &mut all, &mut phases);
    // statement ending in `;` × 0..2 comment-only / blank lines × statement starting with `(`: what follows the
    // replaced region decides whether its `;` is optional
    let semi = semicolon_paren_family();
    run(
        if thorough { "semicolon·comments·paren×all-selections×dev≤1" } else { "semicolon·comments·paren×all-selections×dev0" },
        semi.len() as u64,
        &|i| semi[i as usize].clone(),
        if thorough { &dev01 } else { &dev0 },
        &mut all,
        &mut phases,
    );
    // invalid documents must not be range-formatted
    let n1 = SIGMA1.len() as u64;
    let sig1: Vec<String> = SIGMA1.iter().map(|s| s.to_string()).collect();
    for k in 1..=(if thorough { 3 } else { 2 }) {
        run(&format!("Σ1^{k}×all-selections×dev0"), pow(n1, k as u32), &word(&sig1, k), &dev0, &mut all, &mut phases);
    }
    if thorough {
        // sized to complete in ≈350 s on 16 idle cores (≈220M evaluations): the full Σf^2 product, the width
        // items under every deviation and triples of 16-byte items (≈580M evaluations) never finished under the cap
        run("nested(Σf^1)×all-selections×dev0", ns * nw, &|i| wrap(&sigma[(i / nw) as usize], (i % nw) as usize), &dev0, &mut all, &mut phases);
        let short22: Vec<String> = sigma.iter().filter(|s| s.len() <= 22).cloned().collect();
        let n22 = short22.len() as u64;
        run("Σshort22^2×all-selections×dev0", n22 * n22, &word(&short22, 2), &dev0, &mut all, &mut phases);
        run("Σmid^2×all-selections×dev0", nm * nm, &word(&mid, 2), &dev0, &mut all, &mut phases);
        run("nested(Σmid^1)×all-selections×dev1", nm * nw, &|i| wrap(&mid[(i / nw) as usize], (i % nw) as usize), &dev01[1..], &mut all, &mut phases);
        run("Σshort^2×all-selections×dev1", nsh * nsh, &word(&short, 2), &dev01[1..], &mut all, &mut phases);
        let tiny: Vec<String> = sigma.iter().filter(|s| s.len() <= 12).cloned().collect();
        let nt = tiny.len() as u64;
        run("Σtiny^3×all-selections×dev0", nt * nt * nt, &word(&tiny, 3), &dev0, &mut all, &mut phases);
    }

    let mut rep = Report::new("C07", "exploration");
    rep.exhaustive = phases.iter().all(|p| p.3);
    rep.rule = format!(
        "documents = every item of Σf (|Σf|={}) under the default configuration, every item of ≤{} bytes ({}) under every single-knob deviation ({} configurations) and inside each of {} nested-block wrappers whose source indentation differs from the configured one, every pair of the {} items of ≤{} bytes{}, the semicolon family ((statement ending in `;`) × ≤2 comment-only/blank lines × (statement starting with `(`), top level and in a block; thorough: under every single-knob deviation), every word of the fragment alphabet Σ1^≤{} (invalid documents); selections = ALL (start,end) with start ≤ end on char boundaries, plus 4 ranges reaching beyond the end of the text; each (document, selection, configuration) is one evaluation through reformat_range_in_chunk (the language server's entry) / reformat_range (invalid documents, whole-document cross-check, every reported violation). Oracle: document with syntax errors ⇒ None; otherwise replace_range within the text on char boundaries, covering every non-blank token that lies wholly inside the selection, and the spliced document parses and has C05's canonical form (code tokens, comments, doc shape, code tree) equal to the original's. None for a valid document is accepted (no result). Non-trivial = the replacement text differs from the replaced text.",
        sigma.len(),
        mid_max,
        mid.len(),
        dev01.len() - 1,
        WRAPPERS.len(),
        short.len(),
        short_max,
        if thorough { ", every item (width items included) inside the wrappers, every pair of the items of ≤22 bytes and of the items of ≤64 bytes under the default configuration, the nested documents and the pairs of ≤16-byte items under every single-knob deviation, every triple of the items of ≤12 bytes" } else { "" },
        if thorough { 3 } else { 2 },
    );
    rep.bounds = json!({
        "sigma_f": sigma.len(), "sigma_mid": mid.len(), "sigma_short": short.len(), "wrappers": WRAPPERS.len(), "configs_dev0_1": dev01.len(),
        "phases": phases.iter().map(|p| json!({"phase": p.0, "documents_x_configs": p.1, "cases": p.2, "complete": p.3})).collect::<Vec<_>>(),
        "wall_cap_s": args.wall_cap_s, "wall_cap_hit": dl.was_hit(),
    });
    rep.assumptions = vec![
        "the repository's own parser is the reference for 'parses' and token boundaries (C01's subject)".into(),
        "text outside replace_range is untouched by construction of the splice; what is judged is that the splice is sufficient".into(),
        "documents needing an item outside Σf or more items than the bound are not covered".into(),
    ];
    rep.finish(args, all)
}

