//! C40 — JSON-schema conversion emits valid annotations.
//!
//! Space: every derivation of size ≤ n of the schema grammar below, as a root document
//! {title?, <schema>, ($defs | definitions): {D: <schema>[, E: <schema>]}?}, × name deviations:
//! every string slot (title, definition keys, property names, enum/const values, descriptions) takes
//! its default name, and — one slot at a time — every member of the odd-name alphabet Σ_n;
//! × SchemaConverter::new(is_private ∈ {false, true}).
//! Oracle (the statement): convert() does not panic; annotation_text parses with no error of either kind
//! (syntax or doc) under the default parser configuration; a `---@class`/`---@alias` tag whose name is
//! exactly `root_type_name` exists in the parsed tree.
use emmylua_parser::{LuaAstNode, LuaDocTagAlias, LuaDocTagClass, LuaParser, ParserConfig};
use schema_to_emmylua::SchemaConverter;
use serde_json::{Map, Value, json};
use vcore::*;

pub const NAMES: [&str; 16] = ["a", "a b", "a-b", "1a", "end", "a.b", "\"", "'", "\n", "é", "", "@", "|", "a\nb", "\\", "a#b"];
const DEFAULTS: [&str; 10] = ["a", "b", "c", "d", "e", "f", "g", "h", "i", "j"];

#[derive(Clone, Debug)]
pub enum T {
    Leaf(usize),
    Arr(Box<T>),
    Obj1(Box<T>),
    AddProps(Box<T>),
    Desc(Box<T>),
    One1(Box<T>),
    Obj2(Box<T>, Box<T>),
    OneOf(Box<T>, Box<T>),
    AnyOf(Box<T>, Box<T>),
    AllOf(Box<T>, Box<T>),
}
pub const N_LEAVES: usize = 17;

pub struct Namer<'a> {
    next: usize,
    deviate: Option<(usize, &'a str)>,
}
impl<'a> Namer<'a> {
    fn name(&mut self) -> String {
        let i = self.next;
        self.next += 1;
        match self.deviate {
            Some((s, n)) if s == i => n.to_string(),
            _ => DEFAULTS[i % DEFAULTS.len()].to_string(),
        }
    }
}

fn leaf(i: usize, nm: &mut Namer, def: &str) -> Value {
    match i {
        0 => json!({"type": "string"}),
        1 => json!({"type": "integer"}),
        2 => json!({"type": "null"}),
        3 => json!({"type": ["string", "null"]}),
        4 => json!({"type": []}),
        5 => json!({"type": "object"}),
        6 => json!({"type": "array"}),
        7 => json!({}),
        8 => json!({"enum": [nm.name()]}),
        9 => json!({"enum": [nm.name(), nm.name()]}),
        10 => json!({"const": nm.name()}),
        11 => json!({"$ref": format!("#/$defs/{def}")}),
        12 => json!({"$ref": format!("#/definitions/{def}")}),
        13 => json!({"$ref": "#/$defs/Missing"}),
        14 => json!({"$ref": "#"}),
        15 => json!({"enum": [1, null]}),
        16 => json!({"type": "string", "const": nm.name()}),
        _ => unreachable!(),
    }
}

fn build(t: &T, nm: &mut Namer, def: &str) -> Value {
    match t {
        T::Leaf(i) => leaf(*i, nm, def),
        T::Arr(a) => json!({"type": "array", "items": build(a, nm, def)}),
        T::Obj1(a) => {
            let k = nm.name();
            let mut m = Map::new();
            m.insert(k, build(a, nm, def));
            json!({"type": "object", "properties": m})
        }
        T::AddProps(a) => json!({"type": "object", "additionalProperties": build(a, nm, def)}),
        T::Desc(a) => {
            let d = nm.name();
            let mut v = build(a, nm, def);
            v.as_object_mut().unwrap().insert("description".into(), json!(d));
            v
        }
        T::One1(a) => json!({"oneOf": [build(a, nm, def)]}),
        T::Obj2(a, b) => {
            let k1 = nm.name();
            let v1 = build(a, nm, def);
            let k2 = nm.name();
            let v2 = build(b, nm, def);
            let mut m = Map::new();
            m.insert(k1.clone(), v1);
            m.insert(k2, v2);
            json!({"type": "object", "properties": m, "required": [k1]})
        }
        T::OneOf(a, b) => json!({"oneOf": [build(a, nm, def), build(b, nm, def)]}),
        T::AnyOf(a, b) => json!({"anyOf": [build(a, nm, def), build(b, nm, def)]}),
        T::AllOf(a, b) => json!({"allOf": [build(a, nm, def), build(b, nm, def)]}),
    }
}

/// all schema templates of exactly size s, for s = 1..=n
fn templates(n: usize) -> Vec<Vec<T>> {
    let mut by: Vec<Vec<T>> = vec![vec![]; n + 1];
    for s in 1..=n {
        let mut v = Vec::new();
        if s == 1 {
            v.extend((0..N_LEAVES).map(T::Leaf));
        } else {
            for a in &by[s - 1] {
                let b = || Box::new(a.clone());
                v.push(T::Arr(b()));
                v.push(T::Obj1(b()));
                v.push(T::AddProps(b()));
                if !matches!(a, T::Desc(_)) {
                    v.push(T::Desc(b()));
                }
                v.push(T::One1(b()));
            }
            for sa in 1..s - 1 {
                let sb = s - 1 - sa;
                if sb < 1 {
                    continue;
                }
                for a in &by[sa] {
                    for b in &by[sb] {
                        let (x, y) = (|| Box::new(a.clone()), || Box::new(b.clone()));
                        v.push(T::Obj2(x(), y()));
                        v.push(T::OneOf(x(), y()));
                        v.push(T::AnyOf(x(), y()));
                        v.push(T::AllOf(x(), y()));
                    }
                }
            }
        }
        by[s] = v;
    }
    by
}

#[derive(Clone, Debug)]
pub struct Root {
    title: bool,
    body: T,
    /// 0 none, 1 "$defs", 2 "definitions"
    defs_kind: u8,
    defs: Vec<T>,
}

/// root documents whose schemas have total size exactly `total` (templates `by` cover sizes ≤ total)
fn roots(total: usize, by: &[Vec<T>]) -> Vec<Root> {
    let mut out = Vec::new();
    for title in [false, true] {
        for b in &by[total] {
            out.push(Root { title, body: b.clone(), defs_kind: 0, defs: vec![] });
        }
        for kind in [1u8, 2] {
            for sa in 1..total {
                let sb = total - sa;
                for a in &by[sa] {
                    for b in &by[sb] {
                        out.push(Root { title, body: a.clone(), defs_kind: kind, defs: vec![b.clone()] });
                    }
                }
            }
            for sa in 1..total {
                for sb in 1..total - sa {
                    let sc = total - sa - sb;
                    for a in &by[sa] {
                        for b in &by[sb] {
                            for c in &by[sc] {
                                out.push(Root { title, body: a.clone(), defs_kind: kind, defs: vec![b.clone(), c.clone()] });
                            }
                        }
                    }
                }
            }
        }
    }
    out
}

/// instantiate; returns (schema, number of name slots)
fn instantiate(r: &Root, deviate: Option<(usize, &str)>) -> (Value, usize) {
    let mut nm = Namer { next: 0, deviate };
    // slot 0 is always the first definition key (so `$ref`s can name it), slot 1 the title
    let def0 = nm.name();
    let title = nm.name();
    let mut doc = build(&r.body, &mut nm, &def0);
    let m = doc.as_object_mut().unwrap();
    if r.title {
        m.insert("title".into(), json!(title));
    }
    if r.defs_kind != 0 {
        let mut defs = Map::new();
        for (i, d) in r.defs.iter().enumerate() {
            let key = if i == 0 { def0.clone() } else { format!("{}2", nm.name()) };
            defs.insert(key, build(d, &mut nm, &def0));
        }
        m.insert(if r.defs_kind == 1 { "$defs" } else { "definitions" }.into(), Value::Object(defs));
    }
    (doc, nm.next)
}

// ---------------------------------------------------------------- oracle

fn line_context(text: &str, off: usize) -> &'static str {
    let off = off.min(text.len());
    let start = text[..off].rfind('\n').map(|i| i + 1).unwrap_or(0);
    let line = &text[start..];
    if line.starts_with("---@field") {
        "field"
    } else if line.starts_with("---@class") {
        "class"
    } else if line.starts_with("---@alias") {
        "alias"
    } else if line.starts_with("---|") {
        "variant"
    } else if line.starts_with("---") {
        "comment"
    } else {
        "raw-line"
    }
}

pub fn judge(schema: &Value, is_private: bool) -> Vec<(String, String)> {
    let mut out = Vec::new();
    let res = match catch(|| SchemaConverter::new(is_private).convert(schema)) {
        Ok(r) => r,
        Err(p) => return vec![(format!("panic:{}", panic_site(&p)), p)],
    };
    let text = res.annotation_text;
    let tree = match catch(|| LuaParser::parse(&text, ParserConfig::default())) {
        Ok(t) => t,
        Err(p) => return vec![(format!("parser-panic:{}", panic_site(&p)), format!("{p} on {text:?}"))],
    };
    if let Some(e) = tree.get_errors().iter().min_by_key(|e| e.range.start()) {
        let ctx = line_context(&text, usize::from(e.range.start()));
        out.push((
            format!("syntax-error:{ctx}"),
            format!("{:?} at {:?}: {} — in generated text {text:?}", e.kind, e.range, e.message),
        ));
    }
    let chunk = tree.get_chunk_node();
    let mut declared: Vec<String> = Vec::new();
    for c in chunk.descendants::<LuaDocTagClass>() {
        if let Some(n) = c.get_name_token() {
            declared.push(n.get_name_text().to_string());
        }
    }
    for c in chunk.descendants::<LuaDocTagAlias>() {
        if let Some(n) = c.get_name_token() {
            declared.push(n.get_name_text().to_string());
        }
    }
    if !declared.iter().any(|d| *d == res.root_type_name) {
        // a declaration whose name is a strict prefix/extension of the reported name: the name was
        // emitted but cut or altered by a character the annotation syntax does not allow
        let root = &res.root_type_name;
        let mangled = declared.iter().any(|d| d.len().min(root.len()) > "schema.".len() && (root.starts_with(d.as_str()) || d.starts_with(root.as_str())));
        out.push((if mangled { "root-undeclared:name-mangled" } else { "root-undeclared" }.into(), format!("root_type_name {:?} is not declared; declared: {declared:?}; text {text:?}", res.root_type_name)));
    }
    out
}

// ---------------------------------------------------------------- JSON minimiser

fn paths(v: &Value, cur: &mut Vec<String>, out: &mut Vec<Vec<String>>) {
    out.push(cur.clone());
    match v {
        Value::Object(m) => {
            for (k, c) in m {
                cur.push(k.clone());
                paths(c, cur, out);
                cur.pop();
            }
        }
        Value::Array(a) => {
            for (i, c) in a.iter().enumerate() {
                cur.push(i.to_string());
                paths(c, cur, out);
                cur.pop();
            }
        }
        _ => {}
    }
}
fn get_mut<'a>(v: &'a mut Value, p: &[String]) -> Option<&'a mut Value> {
    let mut c = v;
    for k in p {
        c = match c {
            Value::Object(m) => m.get_mut(k)?,
            Value::Array(a) => a.get_mut(k.parse::<usize>().ok()?)?,
            _ => return None,
        };
    }
    Some(c)
}

const SIMPLE: [&str; 8] = ["a", " ", "\"", "\n", "\\", "-", "#", "é"];

/// candidates one step smaller than `v`
fn shrink_steps(v: &Value) -> Vec<Value> {
    let mut all = Vec::new();
    let mut ps = Vec::new();
    paths(v, &mut Vec::new(), &mut ps);
    for p in &ps {
        let Some((last, parent)) = p.split_last() else { continue };
        // delete this member / element
        let mut c = v.clone();
        if let Some(par) = get_mut(&mut c, parent) {
            match par {
                Value::Object(m) => {
                    m.remove(last);
                }
                Value::Array(a) => {
                    a.remove(last.parse::<usize>().unwrap());
                }
                _ => {}
            }
            all.push(c);
        }
        // hoist: replace the parent by this child (only schema-shaped objects into schema positions)
        let child = {
            let mut tmp = v.clone();
            get_mut(&mut tmp, p).cloned()
        };
        if let Some(Value::Object(ch)) = child {
            for up in 1..=p.len().min(3) {
                let target = &p[..p.len() - up];
                let mut c = v.clone();
                if let Some(t) = get_mut(&mut c, target) {
                    if t.is_object() {
                        *t = Value::Object(ch.clone());
                        all.push(c);
                    }
                }
            }
        }
    }
    // string simplification: member keys under properties/$defs/definitions, and string values except
    // the grammar's own keywords ("type" values are only ever deleted)
    for p in &ps {
        let Some((last, parent)) = p.split_last() else { continue };
        let parent_key = parent.last().map(|s| s.as_str()).unwrap_or("");
        if matches!(parent_key, "properties" | "$defs" | "definitions") {
            for cand in string_steps(last) {
                let mut c = v.clone();
                if let Some(Value::Object(m)) = get_mut(&mut c, parent) {
                    if m.contains_key(&cand) {
                        continue;
                    }
                    let val = m.remove(last).unwrap();
                    m.insert(cand, val);
                    all.push(c);
                }
            }
        }
        if last == "type" || parent_key == "type" {
            continue;
        }
        let mut tmp = v.clone();
        if let Some(Value::String(s)) = get_mut(&mut tmp, p).cloned() {
            for cand in string_steps(&s) {
                let mut c = v.clone();
                *get_mut(&mut c, p).unwrap() = json!(cand);
                all.push(c);
            }
        }
    }
    all
}

fn rank(c: char) -> usize {
    SIMPLE.iter().position(|s| s.chars().next() == Some(c)).unwrap_or(SIMPLE.len())
}

/// strictly "smaller" strings: one char dropped, or one char replaced by a simpler one
fn string_steps(s: &str) -> Vec<String> {
    let cs: Vec<char> = s.chars().collect();
    let mut out = Vec::new();
    for i in 0..cs.len() {
        let mut c = cs.clone();
        c.remove(i);
        out.push(c.into_iter().collect());
    }
    for i in 0..cs.len() {
        for (r, simple) in SIMPLE.iter().enumerate() {
            if r < rank(cs[i]) {
                let mut c = cs.clone();
                c[i] = simple.chars().next().unwrap();
                out.push(c.into_iter().collect());
            }
        }
    }
    out
}

fn weight(v: &Value) -> usize {
    serde_json::to_string(v).unwrap().len()
}

pub fn minimise_json(v: &Value, fails: impl Fn(&Value) -> bool) -> Value {
    let mut cur = v.clone();
    loop {
        let mut progressed = false;
        for cand in shrink_steps(&cur) {
            let smaller = weight(&cand) < weight(&cur) || (weight(&cand) == weight(&cur) && cand != cur && simpler(&cand, &cur));
            if smaller && fails(&cand) {
                cur = cand;
                progressed = true;
                break;
            }
        }
        if !progressed {
            return cur;
        }
    }
}

/// same serialized length: prefer the one whose characters rank simpler (total order ⇒ termination)
fn simpler(a: &Value, b: &Value) -> bool {
    let key = |v: &Value| -> Vec<usize> { serde_json::to_string(v).unwrap().chars().map(|c| if c.is_ascii_alphanumeric() { 0 } else { 1 + rank(c) }).collect() };
    key(a) < key(b)
}

fn subseq(small: &str, big: &str) -> bool {
    let mut it = big.chars();
    small.chars().all(|c| it.any(|d| d == c))
}

/// Does the (minimal) witness schema `w` embed into the case `c`? Keys and strings match up to
/// subsequence, array elements up to position. Purely syntactic — no call into the converter.
pub fn embeds(c: &Value, w: &Value) -> bool {
    match (c, w) {
        (Value::Object(cm), Value::Object(wm)) => wm.iter().all(|(wk, wv)| cm.iter().any(|(ck, cv)| (ck == wk || (!KEYWORDS.contains(&wk.as_str()) && !KEYWORDS.contains(&ck.as_str()) && subseq(wk, ck))) && embeds(cv, wv))),
        (Value::Array(ca), Value::Array(wa)) => wa.iter().all(|wv| ca.iter().any(|cv| embeds(cv, wv))),
        (Value::String(cs), Value::String(ws)) => subseq(ws, cs),
        _ => c == w,
    }
}
const KEYWORDS: [&str; 16] = ["type", "properties", "items", "additionalProperties", "description", "oneOf", "anyOf", "allOf", "enum", "const", "$ref", "$defs", "definitions", "title", "required", "default"];

/// the minimiser must stay inside "JSON documents shaped like a schema": sub-schemas are objects,
/// keyword containers keep their JSON type
fn well_shaped(v: &Value) -> bool {
    let Value::Object(m) = v else { return false };
    m.iter().all(|(k, c)| match k.as_str() {
        "properties" | "$defs" | "definitions" => c.as_object().is_some_and(|o| o.values().all(well_shaped)),
        "items" | "additionalProperties" => well_shaped(c),
        "oneOf" | "anyOf" | "allOf" => c.as_array().is_some_and(|a| a.iter().all(well_shaped)),
        "enum" | "required" => c.is_array(),
        "type" => c.is_string() || c.as_array().is_some_and(|a| a.iter().all(|x| x.is_string())),
        "title" | "description" | "$ref" => c.is_string(),
        _ => true,
    })
}

fn make_violation(schema: &Value, is_private: bool, sig: &str) -> Violation {
    // prefer the default configuration when it fails there too
    let privacy = if judge(schema, false).iter().any(|(s, _)| s == sig) { false } else { is_private };
    let min = minimise_json(schema, |v| well_shaped(v) && judge(v, privacy).iter().any(|(s, _)| s == sig));
    let privacy = if judge(&min, false).iter().any(|(s, _)| s == sig) { false } else { privacy };
    let detail = judge(&min, privacy).into_iter().find(|(s, _)| s == sig).map(|x| x.1).unwrap_or_default();
    Violation { signature: sig.to_string(), witness: json!({"schema": min, "is_private": privacy}), detail }
}

pub fn replay(w: &Value) -> Option<Violation> {
    let schema = w.get("schema")?;
    let p = w["is_private"].as_bool().unwrap_or(false);
    let sig_hint = w.get("signature").and_then(|s| s.as_str());
    let fs = judge(schema, p);
    let f = match sig_hint {
        Some(s) => fs.into_iter().find(|(x, _)| x == s),
        None => fs.into_iter().next(),
    }?;
    Some(Violation { signature: f.0, witness: w.clone(), detail: f.1 })
}

pub fn run(args: &Args) -> ! {
    if let Some(full) = args.replay_witness() {
        let mut w = if full.get("witness").is_some() { full["witness"].clone() } else { full.clone() };
        if let Some(s) = full.get("signature") {
            w["signature"] = s.clone();
        }
        let r = replay(&w).map(|mut v| {
            v.witness.as_object_mut().map(|m| m.remove("signature"));
            v
        });
        finish_replay(r, "C40");
    }
    let dl = args.deadline();
    let mut rep = Report::new("C40", "exploration");
    let n_target = args.extra_usize("n").unwrap_or(args.tier.pick(3, 4));
    let mut all = Stats::default();
    let mut completed = None;
    let mut sizes = Vec::new();
    let by = templates(n_target);
    for n in 1..=n_target {
        if dl.expired() {
            break;
        }
        // iterate the bound upward; the size-n pass covers exactly the documents of total size n
        let rs: Vec<Root> = roots(n, &by);
        // jobs: (root, deviation) flattened
        let mut offsets: Vec<u64> = Vec::with_capacity(rs.len() + 1);
        let mut total = 0u64;
        for r in &rs {
            offsets.push(total);
            let (_, slots) = instantiate(r, None);
            total += 1 + (slots as u64) * (NAMES.len() as u64 - 1);
        }
        offsets.push(total);
        sizes.push(json!({"n": n, "root_documents": rs.len(), "instances": total}));
        // witnesses found by the completed smaller passes: a larger case that embeds one of them (same
        // signature) is attributed to it without re-minimising (deterministic: passes are sequential)
        let known: Vec<Violation> = all.violations.values().map(|(v, _)| v.clone()).collect();
        let known_keys: Vec<String> = all.violations.keys().cloned().collect();
        let (st, ok) = par_range(total, args.threads, &dl, |i, st| {
            let ri = offsets.partition_point(|&o| o <= i) - 1;
            let r = &rs[ri];
            let k = i - offsets[ri];
            let dev = if k == 0 {
                None
            } else {
                let k = (k - 1) as usize;
                Some((k / (NAMES.len() - 1), NAMES[1 + k % (NAMES.len() - 1)]))
            };
            let (schema, _) = instantiate(r, dev);
            if dev.is_some() && schema == instantiate(r, None).0 {
                return; // the deviating slot is not used by this document: same instance as k = 0
            }
            for is_private in [false, true] {
                st.eval(dev.is_some() || !matches!(r.body, T::Leaf(_)));
                let fs = judge(&schema, is_private);
                if fs.is_empty() {
                    st.outcome(if dev.is_some() { "ok:odd-name" } else { "ok:default-names" });
                }
                for (sig, _) in &fs {
                    st.outcome(&format!("violation:{sig}"));
                    if let Some(ki) = known.iter().position(|k| k.signature == *sig && embeds(&schema, &k.witness["schema"])) {
                        // attributed to an already verified witness: only its count grows
                        st.outcome("explained-by-smaller-witness");
                        st.raw_violating_cases += 1;
                        match st.violations.get_mut(&known_keys[ki]) {
                            Some(e) => e.1 += 1,
                            None => {
                                st.violations.insert(known_keys[ki].clone(), (known[ki].clone(), 1));
                            }
                        }
                        continue;
                    }
                    // determinism: a case that yields a new witness must fail identically when re-executed
                    if !judge(&schema, is_private).iter().any(|(s, _)| s == sig) {
                        die(&format!("C40 finding {sig} on {schema} did not reproduce"));
                    }
                    st.violation(make_violation(&schema, is_private, sig));
                }
                if is_private {
                    continue;
                }
                if i % 4001 == 17 {
                    st.sample(|| {
                        let t = catch(|| SchemaConverter::new(false).convert(&schema)).map(|r| (r.annotation_text, r.root_type_name)).ok();
                        json!({"schema": schema, "output": t, "findings": fs.iter().map(|f| f.0.clone()).collect::<Vec<_>>()})
                    });
                }
            }
        });
        all.merge(st);
        if ok {
            completed = Some(n);
        } else {
            break;
        }
    }
    rep.rule = format!(
        "every root document {{title?, schema, ($defs|definitions: 1–2 entries)?}} whose schemas are derivations of total size ≤ {n_target} of the grammar {{17 leaves (primitive types, type arrays incl. empty, enum/const, $ref to $defs/definitions/missing/self, non-string enum), array-of, object with 1–2 properties (+required), additionalProperties, description, oneOf/anyOf/allOf of 1–2}}, each with default names and with every single string slot replaced by every odd name of Σ_n = {NAMES:?}, × is_private ∈ {{false,true}}; bound iterated n = 1..{n_target}; one evaluation = one convert + parse judged; non-trivial = not a bare leaf with default names; oracle: no panic, zero parser errors (syntax and doc) in annotation_text, root_type_name declared by a @class/@alias tag"
    );
    rep.exhaustive = completed == Some(n_target);
    rep.bounds = json!({"n_target": n_target, "n_completed": completed, "sizes": sizes, "names": NAMES, "wall_cap_s": args.wall_cap_s, "wall_cap_hit": dl.was_hit()});
    rep.assumptions = vec![
        "the repo's own LuaParser (default ParserConfig) is the judge of 'parses without syntax errors'".into(),
        "only one string slot deviates from its default name at a time".into(),
        "undefined type references (e.g. $ref into `definitions`, which the converter does not read) are not syntax errors and are not judged".into(),
    ];
    rep.finish(args, all)
}
