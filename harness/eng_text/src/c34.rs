//! C34 — file paths and URIs round-trip; re-encoded URIs name the same analysed file.
//!
//! Space: every normalized absolute path of ≤ n segments, segment = word of length 1..2 over
//! Σ_p = {a, space, %, #, ?, +, &, :, ;, [, ~, é, 中, "%41"} (never `.`/`..`/empty);
//! for each path's URI every alternative percent-encoding obtained by ≤ m edits, an edit being:
//! percent-encode one literal character of the path (upper- or lower-case hex), or switch the hex case
//! of one existing escape, or decode one escape of an RFC 3986 *unreserved* character.
//! None of these edits changes the path a URI denotes (RFC 3986 §2.3, §6.2.2.1-2); `/` is never encoded.
//! Oracle: uri_to_file_path(file_path_to_uri(p)) == p (and the URI exists); every alternative that
//! `Uri::from_str` accepts yields the same `Vfs::file_id` / `get_file_id` and the same decoded path.
use emmylua_code_analysis::{Vfs, file_path_to_uri, uri_to_file_path};
use lsp_types::Uri;
use serde_json::{Value, json};
use std::path::PathBuf;
use std::str::FromStr;
use vcore::*;

pub const SIGMA_P: [&str; 14] = ["a", " ", "%", "#", "?", "+", "&", ":", ";", "[", "~", "é", "中", "%41"];

fn segments() -> Vec<String> {
    let mut v: Vec<String> = SIGMA_P.iter().map(|s| s.to_string()).collect();
    for a in SIGMA_P {
        for b in SIGMA_P {
            v.push(format!("{a}{b}"));
        }
    }
    v
}

fn is_unreserved(b: u8) -> bool {
    b.is_ascii_alphanumeric() || matches!(b, b'-' | b'.' | b'_' | b'~')
}

/// one editable site of the URI path: byte range + its replacement texts
fn sites(uri: &str, path_start: usize) -> Vec<(usize, usize, Vec<String>)> {
    let b = uri.as_bytes();
    let mut out = Vec::new();
    let mut i = path_start;
    while i < b.len() {
        if b[i] == b'/' {
            i += 1;
            continue;
        }
        if b[i] == b'%' && b.get(i + 1).is_some_and(|c| c.is_ascii_hexdigit()) && b.get(i + 2).is_some_and(|c| c.is_ascii_hexdigit()) {
            let hex = &uri[i + 1..i + 3];
            let mut alts = Vec::new();
            let (up, lo) = (hex.to_ascii_uppercase(), hex.to_ascii_lowercase());
            if up != hex {
                alts.push(format!("%{up}"));
            }
            if lo != hex {
                alts.push(format!("%{lo}"));
            }
            let v = u8::from_str_radix(hex, 16).unwrap();
            if is_unreserved(v) {
                alts.push((v as char).to_string());
            }
            if !alts.is_empty() {
                out.push((i, i + 3, alts));
            }
            i += 3;
            continue;
        }
        // a literal character (possibly multi-byte if the URI type allowed it)
        let ch = uri[i..].chars().next().unwrap();
        let n = ch.len_utf8();
        let mut up = String::new();
        let mut lo = String::new();
        for k in 0..n {
            up.push_str(&format!("%{:02X}", b[i + k]));
            lo.push_str(&format!("%{:02x}", b[i + k]));
        }
        let mut alts = vec![up.clone()];
        if lo != up {
            alts.push(lo);
        }
        out.push((i, i + n, alts));
        i += n;
    }
    out
}

/// every alternative spelling with ≤ m edits (m ∈ {1,2}), deterministic order, no duplicates of the original
fn alternatives(uri: &str, m: usize) -> Vec<String> {
    let path_start = uri.find("://").map(|i| i + 3).unwrap_or(0);
    let path_start = path_start + uri[path_start..].find('/').unwrap_or(0);
    let ss = sites(uri, path_start);
    let mut out = Vec::new();
    let apply = |edits: &[(usize, &str)]| {
        // edits sorted by site index ascending
        let mut s = String::new();
        let mut pos = 0;
        for (si, rep) in edits {
            let (a, b, _) = &ss[*si];
            s.push_str(&uri[pos..*a]);
            s.push_str(rep);
            pos = *b;
        }
        s.push_str(&uri[pos..]);
        s
    };
    for (i, (_, _, alts)) in ss.iter().enumerate() {
        for a in alts {
            out.push(apply(&[(i, a)]));
            if m >= 2 {
                for (j, (_, _, alts2)) in ss.iter().enumerate().skip(i + 1) {
                    for a2 in alts2 {
                        out.push(apply(&[(i, a), (j, a2)]));
                    }
                }
            }
        }
    }
    out
}

#[derive(Clone, Debug)]
pub struct Finding {
    pub sig: String,
    pub alt: Option<String>,
    pub detail: String,
}

pub struct Counts {
    pub evals: u64,
    pub alts_unparsable: u64,
}

/// first finding per signature for one path
pub fn check_path(p: &str, m: usize, only_alt: Option<&str>, c: &mut Counts) -> Vec<Finding> {
    let mut out: Vec<Finding> = Vec::new();
    let path = PathBuf::from(p);
    c.evals += 1;
    let uri = match catch(|| file_path_to_uri(&path)) {
        Err(e) => return vec![Finding { sig: format!("panic:{}", panic_site(&e)), alt: None, detail: e }],
        Ok(None) => return vec![Finding { sig: "to-uri-none".into(), alt: None, detail: format!("file_path_to_uri({p:?}) = None") }],
        Ok(Some(u)) => u,
    };
    match catch(|| uri_to_file_path(&uri)) {
        Err(e) => out.push(Finding { sig: format!("panic:{}", panic_site(&e)), alt: None, detail: e }),
        Ok(back) => {
            if back.as_ref() != Some(&path) {
                out.push(Finding { sig: "roundtrip".into(), alt: None, detail: format!("{p:?} -> {} -> {back:?}", uri.as_str()) });
            }
        }
    }
    let mut vfs = Vfs::new();
    let id = vfs.file_id(&uri);
    let alts: Vec<String> = match only_alt {
        Some(a) => vec![a.to_string()],
        None => alternatives(uri.as_str(), m),
    };
    for a in alts {
        let Ok(au) = Uri::from_str(&a) else {
            c.alts_unparsable += 1;
            continue;
        };
        c.evals += 1;
        let r = catch(|| {
            let got = vfs.get_file_id(&au);
            let got2 = vfs.file_id(&au);
            (got, got2, uri_to_file_path(&au))
        });
        match r {
            Err(e) => {
                if !out.iter().any(|f| f.sig.starts_with("panic")) {
                    out.push(Finding { sig: format!("panic:{}", panic_site(&e)), alt: Some(a), detail: e });
                }
            }
            Ok((got, got2, pth)) => {
                if (got != Some(id) || got2 != id) && !out.iter().any(|f| f.sig == "alt-encoding-different-file") {
                    out.push(Finding {
                        sig: "alt-encoding-different-file".into(),
                        alt: Some(a.clone()),
                        detail: format!("{} is file {:?} ({p:?}) but {a} is {:?} / {:?} (path {pth:?})", uri.as_str(), id.id, got.map(|x| x.id), got2.id),
                    });
                    // keep ids comparable for the following alternatives
                    vfs = Vfs::new();
                    let again = vfs.file_id(&uri);
                    debug_assert_eq!(again, id);
                }
            }
        }
    }
    out
}

fn split(p: &str) -> Vec<String> {
    p.split('/').filter(|s| !s.is_empty()).map(|s| s.to_string()).collect()
}
fn join(segs: &[String]) -> String {
    format!("/{}", segs.join("/"))
}

fn minimise_path(p: &str, m: usize, sig: &str) -> (String, Finding) {
    let fails = |segs: &[String]| -> bool {
        if segs.is_empty() || segs.iter().any(|s| s.is_empty() || s == "." || s == "..") {
            return false;
        }
        let mut c = Counts { evals: 0, alts_unparsable: 0 };
        check_path(&join(segs), m, None, &mut c).iter().any(|f| f.sig == sig)
    };
    let mut segs = minimise_seq(&split(p), |s| fails(s));
    // shrink inside segments: drop characters, then prefer 'a'
    for i in 0..segs.len() {
        let orig = segs[i].clone();
        let shr = minimise_text(&orig, |t| {
            let mut s2 = segs.clone();
            s2[i] = t.to_string();
            fails(&s2)
        });
        segs[i] = shr;
        let cs: Vec<char> = segs[i].chars().collect();
        for j in 0..cs.len() {
            if cs[j] == 'a' {
                continue;
            }
            let mut c2: Vec<char> = segs[i].chars().collect();
            c2[j] = 'a';
            let mut s2 = segs.clone();
            s2[i] = c2.into_iter().collect();
            if fails(&s2) {
                segs = s2;
            }
        }
    }
    let path = join(&segs);
    let mut c = Counts { evals: 0, alts_unparsable: 0 };
    let f = check_path(&path, m, None, &mut c).into_iter().find(|f| f.sig == sig).expect("minimised path still fails");
    (path, f)
}


// ------------------------------------------------------------------ histories (explicit-state)
//
// "Two URIs for the same path identify the same analysed file" must also hold after the file was
// removed, re-added or cleared through any of its spellings: every history of ≤ d operations over
// three spellings of one path and one spelling of a second path is replayed on a fresh Vfs, and after
// every step all spellings of a path must name the same file (same id or all absent) whose content
// is the last text submitted for that path through any spelling.

/// (spelling index, path index): three spellings of path 0, one of path 1
fn history_uris() -> Vec<(Uri, usize)> {
    let p0 = PathBuf::from("/a b/é.lua");
    let p1 = PathBuf::from("/a b/c.lua");
    let u0 = file_path_to_uri(&p0).unwrap_or_else(|| die("C34: no uri for the history path"));
    let u1 = file_path_to_uri(&p1).unwrap_or_else(|| die("C34: no uri for the second history path"));
    let mut v = vec![(u0.clone(), 0usize)];
    // one spelling that encodes a literal character, one that switches the hex case of an escape
    let alts: Vec<String> = alternatives(u0.as_str(), 1);
    let encoded_literal = alts.iter().find(|a| a.len() > u0.as_str().len());
    let case_switched = alts.iter().find(|a| a.len() == u0.as_str().len() && a.as_str() != u0.as_str());
    for a in [encoded_literal, case_switched].into_iter().flatten() {
        if let Ok(au) = Uri::from_str(a) {
            v.push((au, 0));
        }
    }
    if v.len() != 3 {
        die("C34: the history path does not have the two alternative spellings");
    }
    v.push((u1, 1));
    v
}

#[derive(Clone, Copy, Debug, PartialEq)]
enum HOp {
    Set(usize, usize),
    Clear(usize),
    Remove(usize),
    Id(usize),
}

fn hop_json(o: &HOp, uris: &[(Uri, usize)]) -> Value {
    match o {
        HOp::Set(u, t) => json!({"op": "set_file_content", "uri": uris[*u].0.as_str(), "text": format!("t{t}")}),
        HOp::Clear(u) => json!({"op": "set_file_content(None)", "uri": uris[*u].0.as_str()}),
        HOp::Remove(u) => json!({"op": "remove_file", "uri": uris[*u].0.as_str()}),
        HOp::Id(u) => json!({"op": "file_id", "uri": uris[*u].0.as_str()}),
    }
}

fn hop_from_json(v: &Value, uris: &[(Uri, usize)]) -> Option<HOp> {
    let u = uris.iter().position(|(x, _)| Some(x.as_str()) == v["uri"].as_str())?;
    Some(match v["op"].as_str()? {
        "set_file_content" => HOp::Set(u, v["text"].as_str()?.trim_start_matches('t').parse().ok()?),
        "set_file_content(None)" => HOp::Clear(u),
        "remove_file" => HOp::Remove(u),
        _ => HOp::Id(u),
    })
}

const HTEXTS: [&str; 2] = ["return 0\n", "return 1\n"];

/// replay a history on a fresh Vfs; first defect as (signature, detail)
fn check_history(h: &[HOp], uris: &[(Uri, usize)]) -> Option<(String, String)> {
    let r = catch(|| {
        let mut vfs = Vfs::new();
        vfs.update_config(std::sync::Arc::new(emmylua_code_analysis::Emmyrc::default()));
        // model: per path, the text last submitted (None = cleared / removed / never set)
        let mut model: [Option<usize>; 2] = [None, None];
        for (step, o) in h.iter().enumerate() {
            match o {
                HOp::Set(u, t) => {
                    vfs.set_file_content(&uris[*u].0, Some(HTEXTS[*t].to_string()));
                    model[uris[*u].1] = Some(*t);
                }
                HOp::Clear(u) => {
                    vfs.set_file_content(&uris[*u].0, None);
                    model[uris[*u].1] = None;
                }
                HOp::Remove(u) => {
                    vfs.remove_file(&uris[*u].0);
                    model[uris[*u].1] = None;
                }
                HOp::Id(u) => {
                    vfs.file_id(&uris[*u].0);
                }
            }
            for p in 0..2 {
                let ids: Vec<(usize, Option<u32>)> = uris.iter().enumerate().filter(|(_, (_, q))| *q == p).map(|(i, (u, _))| (i, vfs.get_file_id(u).map(|f| f.id))).collect();
                if let Some((i, id)) = ids.iter().find(|(_, id)| *id != ids[0].1) {
                    return Some(("history:spellings-name-different-files".to_string(), format!("after step {step}: {} is file {:?} but {} is file {:?}", uris[ids[0].0].0.as_str(), ids[0].1, uris[*i].0.as_str(), id)));
                }
                let content = ids[0].1.and_then(|id| vfs.get_file_content(&emmylua_code_analysis::FileId { id }).cloned());
                let want = model[p].map(|t| HTEXTS[t].to_string());
                if content != want {
                    return Some(("history:content-not-last-submitted".to_string(), format!("after step {step}: path {p} holds {content:?}, the last text submitted through any spelling is {want:?}")));
                }
            }
        }
        None
    });
    match r {
        Ok(x) => x,
        Err(e) => Some((format!("panic:{}", panic_site(&e)), e)),
    }
}

fn history_alphabet(uris: &[(Uri, usize)]) -> Vec<HOp> {
    let mut v = Vec::new();
    for u in 0..uris.len() {
        v.push(HOp::Set(u, 0));
    }
    for u in 0..uris.len() {
        v.push(HOp::Remove(u));
        v.push(HOp::Id(u));
        v.push(HOp::Clear(u));
    }
    // a second text through the first and the last spelling of path 0
    v.push(HOp::Set(0, 1));
    v.push(HOp::Set(2.min(uris.len() - 2), 1));
    v
}

fn run_histories(args: &Args, dl: &Deadline, depth: usize, all: &mut Stats) -> Value {
    let uris = history_uris();
    let alpha = history_alphabet(&uris);
    // one witness per signature: the least minimised history (length, then alphabet order)
    let best: std::sync::Mutex<std::collections::BTreeMap<String, (Vec<usize>, Vec<HOp>)>> = Default::default();
    let rank = |h: &[HOp]| -> Vec<usize> { std::iter::once(h.len()).chain(h.iter().map(|o| alpha.iter().position(|a| a == o).unwrap_or(usize::MAX))).collect() };
    let (mut st, done) = par_words(alpha.len(), 1, depth, args.threads, dl, |w, st| {
        let h: Vec<HOp> = w.iter().map(|&i| alpha[i]).collect();
        let r = check_history(&h, &uris);
        st.eval(h.len() > 1);
        match r {
            None => st.outcome("history:ok"),
            Some((sig, _)) => {
                st.outcome(&format!("violation:{sig}"));
                st.raw_violating_cases += 1;
                let min = minimise_seq(&h, |c| !c.is_empty() && check_history(c, &uris).is_some_and(|(s2, _)| s2 == sig));
                let rk = rank(&min);
                let mut b = best.lock().unwrap();
                if b.get(&sig).is_none_or(|(r0, _)| rk < *r0) {
                    b.insert(sig, (rk, min));
                }
            }
        }
        if w.len() == 3 && w[0] == 1 && w[1] == 5 && w[2] == 0 {
            st.sample(|| json!({"history": h.iter().map(|o| hop_json(o, &uris)).collect::<Vec<_>>()}));
        }
    });
    for (sig, (_, min)) in best.into_inner().unwrap() {
        let d = check_history(&min, &uris).map(|x| x.1).unwrap_or_default();
        st.violation(Violation { signature: sig, witness: json!({"history": min.iter().map(|o| hop_json(o, &uris)).collect::<Vec<_>>()}), detail: d });
    }
    all.merge(st);
    json!({"spellings": uris.iter().map(|(u, p)| json!({"uri": u.as_str(), "path": p})).collect::<Vec<_>>(), "operations": alpha.len(), "depth_target": depth, "depth_completed": done})
}

pub fn replay(w: &Value) -> Option<Violation> {
    if let Some(h) = w.get("history").and_then(|h| h.as_array()) {
        let uris = history_uris();
        let ops: Vec<HOp> = h.iter().filter_map(|o| hop_from_json(o, &uris)).collect();
        if ops.len() != h.len() {
            die("C34 replay: the history names a URI or operation this engine does not have");
        }
        return check_history(&ops, &uris).map(|(s, d)| Violation { signature: s, witness: w.clone(), detail: d });
    }
    let p = w["path"].as_str()?;
    let alt = w.get("alt_uri").and_then(|x| x.as_str());
    let mut c = Counts { evals: 0, alts_unparsable: 0 };
    let fs = check_path(p, 2, alt.or(Some("")), &mut c);
    let f = fs.into_iter().find(|f| f.alt.as_deref() == alt)?;
    Some(Violation { signature: f.sig, witness: w.clone(), detail: f.detail })
}

pub fn run(args: &Args) -> ! {
    if let Some(w) = args.replay_witness() {
        let w = if w.get("witness").is_some() { w["witness"].clone() } else { w };
        finish_replay(replay(&w), "C34");
    }
    let dl = args.deadline();
    let mut rep = Report::new("C34", "exploration");
    let segs = segments();
    let ns = segs.len();
    // (segments, edits): quick = ≤2 segments × ≤2 edits; thorough adds 3 segments × 1 edit
    let plan: Vec<(usize, usize)> = args.tier.pick(vec![(1, 2), (2, 2)], vec![(1, 2), (2, 2), (3, 1)]);
    let mut all = Stats::default();
    let mut completed: Vec<Value> = Vec::new();
    let unparsable = std::sync::atomic::AtomicU64::new(0);
    let mut exhaustive = true;
    for &(nseg, m) in &plan {
        let (st, ok) = par_range(pow(ns as u64, nseg as u32), args.threads, &dl, |i, st| {
            let mut d = Vec::new();
            decode_word(i, ns as u64, nseg, &mut d);
            let p = join(&d.iter().map(|&k| segs[k].clone()).collect::<Vec<_>>());
            let mut c = Counts { evals: 0, alts_unparsable: 0 };
            let fs = check_path(&p, m, None, &mut c);
            st.evaluations += c.evals;
            st.nontrivial += if p.len() > 2 { c.evals } else { 0 };
            unparsable.fetch_add(c.alts_unparsable, std::sync::atomic::Ordering::Relaxed);
            st.outcome(if fs.is_empty() {
                if p.is_ascii() { "ok:ascii-path" } else { "ok:non-ascii-path" }
            } else {
                "violating-path"
            });
            if i % 9973 == 11 {
                st.sample(|| {
                    let u = file_path_to_uri(&PathBuf::from(&p)).map(|u| u.as_str().to_string());
                    let alts = u.as_deref().map(|u| alternatives(u, m)).unwrap_or_default();
                    json!({"path": p, "uri": u, "alternatives": alts.len(), "first_alternatives": alts.iter().take(3).collect::<Vec<_>>()})
                });
            }
            for f in fs {
                st.outcome(&format!("violation:{}", f.sig));
                let mut c2 = Counts { evals: 0, alts_unparsable: 0 };
                if !check_path(&p, m, None, &mut c2).iter().any(|g| g.sig == f.sig && g.alt == f.alt) {
                    die(&format!("C34 finding {} on {p:?} did not reproduce", f.sig));
                }
                let (mp, mf) = minimise_path(&p, m, &f.sig);
                let mut w = json!({"path": mp});
                if let Some(a) = &mf.alt {
                    w["alt_uri"] = json!(a);
                }
                st.violation(Violation { signature: mf.sig.clone(), witness: w, detail: mf.detail });
            }
        });
        all.merge(st);
        completed.push(json!({"segments": nseg, "edits": m, "paths": pow(ns as u64, nseg as u32), "completed": ok}));
        if !ok {
            exhaustive = false;
            break;
        }
    }
    let hist = if exhaustive { run_histories(args, &dl, args.tier.pick(4, 5), &mut all) } else { json!(null) };
    if hist["depth_completed"].as_u64() != hist["depth_target"].as_u64() {
        exhaustive = false;
    }
    rep.rule = format!(
        "every absolute path of exactly s segments for each (s, edits) in {plan:?}, segment ∈ Σ_p^1..2 ({ns} segments, Σ_p = {SIGMA_P:?}); per path: file_path_to_uri, uri_to_file_path, and every re-encoding of the URI path by ≤ edits edits (encode one literal character in upper/lower hex, switch the hex case of one escape, decode one escape of an unreserved character) looked up in a Vfs that holds the canonical URI; one evaluation = one URI judged; non-trivial = path longer than 2 bytes; oracle: round trip is the identity and every accepted re-encoding has the same file id and decoded path. Histories: every sequence of ≤ d operations (set_file_content with two texts, set_file_content(None), remove_file, file_id) over three spellings of one path and one spelling of a second path on a fresh Vfs; after every step all spellings of a path name the same file id (or are all absent) and its content is the text last submitted through any spelling"
    );
    rep.exhaustive = exhaustive;
    rep.bounds = json!({"plan": completed, "histories": hist, "alternatives_rejected_by_Uri_parser": unparsable.load(std::sync::atomic::Ordering::Relaxed),
        "wall_cap_s": args.wall_cap_s, "wall_cap_hit": dl.was_hit()});
    rep.assumptions = vec![
        "Linux path semantics only (the harness runs on Linux; Windows drive-letter handling is not exercised)".into(),
        "the url and fluent-uri crates are trusted to implement RFC 3986 parsing".into(),
        "`/` is never percent-encoded in alternatives (an encoded slash is not the same path)".into(),
    ];
    rep.finish(args, all)
}
