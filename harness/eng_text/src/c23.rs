//! C23 — positions follow the LSP encoding (UTF-16 unless negotiated) and line-ending rules.
//!
//! Independent reference (own code, never calls the repo): lines end at `\n`, `\r\n`, lone `\r`;
//! character = UTF-16 code units from the line start.
//!   P1  for every text of length ≤ L over Σ_t and every char-boundary offset that is not inside a
//!       `\r\n` terminator: `LuaDocument::to_lsp_position(offset)` == reference position;
//!   P2  for every reference position that names a char boundary: `LuaDocument::get_offset` == that offset;
//!   P3  end to end: for every w ∈ Σ_t^≤k the document `local s = [[w]] local t = zz` is analysed by the
//!       real analysis; the `undefined-global` diagnostic's LSP range, mapped back to bytes *by the
//!       reference*, must be exactly the token `zz`;
//!   P4  `server_capabilities(client)` for every offered set of position encodings: `positionEncoding`
//!       is omitted (⇒ UTF-16) or names an encoding the client offered. P1–P3 use UTF-16 iff P4 yields
//!       UTF-16 for a client that offers nothing.
use crate::texts::*;
use emmylua_code_analysis::VirtualWorkspace;
use rowan::TextSize;
use serde_json::{Value, json};
use vcore::*;

/// reference: byte offset -> (line, utf16 character); None inside a CRLF terminator
pub fn ref_position(text: &str, o: usize) -> Option<(usize, usize)> {
    let ls = lines(text, Model::Lsp);
    for (i, l) in ls.iter().enumerate() {
        let in_line = o >= l.start && (o < l.next || l.last);
        if in_line {
            if o > l.end_min {
                return None; // between \r and \n
            }
            return Some((i, utf16_len(&text[l.start..o])));
        }
    }
    None
}

/// reference: (line, utf16 character) -> byte offset, only when it names a char boundary of that line
pub fn ref_offset(text: &str, line: usize, ch: usize) -> Option<usize> {
    let ls = lines(text, Model::Lsp);
    let l = ls.get(line)?;
    let mut units = 0usize;
    let mut o = l.start;
    for c in text[l.start..l.end_min].chars() {
        if units == ch {
            return Some(o);
        }
        units += c.len_utf16();
        o += c.len_utf8();
        if units > ch {
            return None; // inside a surrogate pair
        }
    }
    if units == ch { Some(o) } else { None }
}

#[derive(Clone, Debug)]
pub struct Finding {
    pub sig: String,
    pub op: Value,
    pub detail: String,
}

pub fn check_text(text: &str, all: bool) -> (Vec<Finding>, u64, u64) {
    let mut out: Vec<Finding> = vec![];
    let mut evals = 0u64;
    let mut undecided = 0u64;
    let mut add = |sig: String, op: Value, detail: String| {
        if all || !out.iter().any(|f| f.sig == sig) {
            out.push(Finding { sig, op, detail });
        }
    };
    let d = Doc::new(text);
    let doc = d.doc(text);
    for o in boundaries(text) {
        evals += 1;
        let Some(want) = ref_position(text, o) else {
            undecided += 1;
            continue;
        };
        let op = json!({"op": "to_lsp_position", "offset": o});
        match catch(|| doc.to_lsp_position(TextSize::from(o as u32))) {
            Err(p) => add("panic:to_lsp_position".into(), op, p),
            Ok(None) => add("to-position:none".into(), op, format!("offset {o}: expected {want:?}, got None")),
            Ok(Some(p)) => {
                let got = (p.line as usize, p.character as usize);
                if got.0 != want.0 {
                    add("to-position:line".into(), op, format!("offset {o}: LSP position is {want:?} (lines end at \\n, \\r\\n, \\r), got {got:?}"));
                } else if got.1 != want.1 {
                    add("to-position:character".into(), op, format!("offset {o}: LSP position is {want:?} (UTF-16 code units), got {got:?}"));
                }
            }
        }
    }
    let ls = lines(text, Model::Lsp);
    for (line, l) in ls.iter().enumerate() {
        let n = utf16_len(&text[l.start..l.end_min]);
        for ch in 0..=n {
            evals += 1;
            let Some(want) = ref_offset(text, line, ch) else {
                undecided += 1;
                continue;
            };
            let op = json!({"op": "get_offset", "line": line, "character": ch});
            match catch(|| doc.get_offset(line, ch).map(usize::from)) {
                Err(p) => add("panic:get_offset".into(), op, p),
                Ok(got) => {
                    if got != Some(want) {
                        // which rule is broken: compare with the reference under \n-only lines
                        let nl = lines(text, Model::Nl);
                        let same_line_start = nl.get(line).map(|x| x.start) == Some(l.start);
                        let sig = if same_line_start { "from-position:character" } else { "from-position:line" };
                        add(sig.into(), op, format!("LSP position ({line},{ch}) is byte offset {want}, got {got:?}"));
                    }
                }
            }
        }
    }
    (out, evals, undecided)
}

// ---------------------------------------------------------------- P3 end to end

pub fn e2e_doc(w: &str) -> String {
    format!("local s = [[{w}]] local t = zz")
}

/// Some(detail) when the undefined-global range does not land on `zz`; Ok(None) fine; Err = undecided
pub fn e2e_check(ws: &mut VirtualWorkspace, n: &mut u32, w: &str) -> Result<Option<String>, String> {
    let text = e2e_doc(w);
    *n += 1;
    let fid = ws.def_file(&format!("c23_{}.lua", *n % 8), &text);
    let diags = catch(|| ws.analysis.diagnose_file(fid, Default::default())).map_err(|p| format!("panic {p}"))?;
    let diags = diags.ok_or("no diagnostics")?;
    let ds: Vec<_> = diags
        .iter()
        .filter(|d| matches!(&d.code, Some(lsp_types::NumberOrString::String(s)) if s == "undefined-global"))
        .collect();
    if ds.len() != 1 {
        return Err(format!("{} undefined-global diagnostics", ds.len()));
    }
    let r = ds[0].range;
    let zz = text.rfind("zz").unwrap();
    let s = ref_offset(&text, r.start.line as usize, r.start.character as usize);
    let e = ref_offset(&text, r.end.line as usize, r.end.character as usize);
    match (s, e) {
        (Some(s), Some(e)) if s == zz && e == zz + 2 => Ok(None),
        (Some(s), Some(e)) if s <= e => Ok(Some(format!(
            "diagnostic range {}:{}-{}:{} lands on {:?} in the editor, the token is `zz` at bytes {}..{}",
            r.start.line,
            r.start.character,
            r.end.line,
            r.end.character,
            &text[s..e],
            zz,
            zz + 2
        ))),
        _ => Ok(Some(format!(
            "diagnostic range {}:{}-{}:{} names no character of the document under LSP rules (token `zz` is at {:?})",
            r.start.line,
            r.start.character,
            r.end.line,
            r.end.character,
            ref_position(&text, zz)
        ))),
    }
}

// ---------------------------------------------------------------- P4 capabilities

fn offers() -> Vec<Option<Vec<&'static str>>> {
    let encs = ["utf-8", "utf-16", "utf-32"];
    let mut v: Vec<Option<Vec<&'static str>>> = vec![None];
    for mask in 0..8u32 {
        v.push(Some(encs.iter().enumerate().filter(|(i, _)| mask & (1 << i) != 0).map(|(_, e)| *e).collect()));
    }
    v
}

/// negotiated encoding name for an offer; Err(detail) if the server names one that was not offered
pub fn negotiated(offer: &Option<Vec<&'static str>>) -> Result<String, String> {
    let mut caps = json!({});
    if let Some(o) = offer {
        caps = json!({"general": {"positionEncodings": o}});
    }
    let cc: lsp_types::ClientCapabilities = serde_json::from_value(caps).map_err(|e| format!("client caps: {e}"))?;
    let sc = emmylua_ls::verif_api::server_capabilities(&cc);
    let v = serde_json::to_value(&sc).map_err(|e| e.to_string())?;
    match v.get("positionEncoding").and_then(|x| x.as_str()) {
        None => Ok("utf-16".into()),
        Some(e) => {
            let offered: Vec<&str> = match offer {
                None => vec!["utf-16"],
                Some(o) if o.is_empty() => vec!["utf-16"],
                Some(o) => o.clone(),
            };
            if offered.contains(&e) { Ok(e.to_string()) } else { Err(format!("server names positionEncoding {e:?}, client offered {offer:?}")) }
        }
    }
}

fn make_violation(text: &str, sig: &str) -> Option<Violation> {
    let fails = |t: &str| check_text(t, false).0.iter().any(|f| f.sig == sig);
    let min = minimise(text, fails);
    let f = check_text(&min, false).0.into_iter().find(|f| f.sig == sig)?;
    let mut w = f.op.clone();
    w["text"] = json!(min);
    Some(Violation { signature: sig.to_string(), witness: w, detail: f.detail })
}

pub fn replay(w: &Value) -> Option<Violation> {
    if let Some(body) = w.get("e2e").and_then(|x| x.as_str()) {
        let mut ws = VirtualWorkspace::new();
        let mut n = 0;
        return match e2e_check(&mut ws, &mut n, body) {
            Ok(Some(d)) => Some(Violation { signature: "e2e-diagnostic".into(), witness: w.clone(), detail: d }),
            _ => None,
        };
    }
    if let Some(o) = w.get("offer") {
        let offer: Option<Vec<&'static str>> = o.as_array().map(|a| {
            a.iter().filter_map(|x| ["utf-8", "utf-16", "utf-32"].into_iter().find(|e| Some(*e) == x.as_str())).collect()
        });
        return negotiated(&offer).err().map(|d| Violation { signature: "encoding-not-offered".into(), witness: w.clone(), detail: d });
    }
    let text = w["text"].as_str()?;
    let mut op = w.clone();
    op.as_object_mut()?.remove("text");
    let fs = check_text(text, true).0;
    fs.iter().find(|f| f.op == op).map(|f| Violation { signature: f.sig.clone(), witness: w.clone(), detail: f.detail.clone() })
}

pub fn run(args: &Args) -> ! {
    if let Some(w) = args.replay_witness() {
        let w = if w.get("witness").is_some() { w["witness"].clone() } else { w };
        finish_replay(replay(&w), "C23");
    }
    let dl = args.deadline();
    let mut rep = Report::new("C23", "exploration");
    let mut all = Stats::default();

    // P4 first: it fixes the unit of the reference
    let mut default_enc = String::from("utf-16");
    let mut negotiated_table = serde_json::Map::new();
    let mut first_bad_offer: Option<Violation> = None;
    for offer in offers() {
        all.eval(true);
        match negotiated(&offer) {
            Ok(e) => {
                all.outcome(&format!("negotiated:{e}"));
                if matches!(&offer, None) || matches!(&offer, Some(o) if o.is_empty()) {
                    default_enc = e.clone();
                }
                negotiated_table.insert(format!("{offer:?}"), json!(e));
            }
            Err(d) => {
                all.outcome("encoding-not-offered");
                // one witness: the first failing offer in the fixed order (none, {}, {utf-8}, …)
                let v = first_bad_offer.get_or_insert_with(|| Violation { signature: "encoding-not-offered".into(), witness: json!({"offer": offer}), detail: d });
                all.violation(v.clone());
            }
        }
    }
    let unit_is_utf16 = first_bad_offer.is_none() && default_enc == "utf-16" && negotiated_table.values().all(|v| v == "utf-16");

    let l_target = args.extra_usize("L").unwrap_or(args.tier.pick(6, 8));
    let mut done = None;
    if unit_is_utf16 {
        let (st, d) = par_words(ALPHA.len(), 0, l_target, args.threads, &dl, |w, st| {
            let text = word_text(w);
            let (fs, evals, und) = check_text(&text, false);
            st.evaluations += evals;
            st.nontrivial += if w.len() >= 2 { evals } else { 0 };
            st.undecided += und;
            let astral = text.contains('😀');
            let cr = lines(&text, Model::Lsp).len() != lines(&text, Model::Nl).len();
            st.outcome(match (fs.is_empty(), astral, cr) {
                (true, false, false) => "agrees:bmp-and-lf-only",
                (true, true, false) => "agrees:astral",
                (true, false, true) => "agrees:lone-cr",
                (true, true, true) => "agrees:astral+lone-cr",
                (false, _, _) => "violating-text",
            });
            if w.len() == 3 && (astral || cr) && st.samples.len() < 3 {
                st.sample(|| {
                    json!({"text": text, "reference_positions": boundaries(&text).iter().map(|&o| json!([o, ref_position(&text, o)])).collect::<Vec<_>>(),
                    "findings": fs.iter().map(|f| f.sig.clone()).collect::<Vec<_>>()})
                });
            }
            for f in fs {
                st.outcome(&format!("violation:{}", f.sig));
                if !check_text(&text, false).0.iter().any(|g| g.sig == f.sig && g.op == f.op) {
                    die(&format!("C23 finding {} on {text:?} did not reproduce", f.sig));
                }
                match make_violation(&text, &f.sig) {
                    Some(v) => st.violation(v),
                    None => die(&format!("C23 minimisation lost {} on {text:?}", f.sig)),
                }
            }
        });
        all.merge(st);
        done = d;
    } else {
        all.undecided += 1;
    }

    // P3: end to end through the real analysis
    let k_e2e = args.tier.pick(3, 4);
    let mut e2e_done = None;
    if unit_is_utf16 {
        for k in 0..=k_e2e {
            let n = pow(ALPHA.len() as u64, k as u32);
            let (st, ok) = par_range(n, args.threads, &dl, |i, st| {
                thread_local! { static WS: std::cell::RefCell<Option<(VirtualWorkspace, u32)>> = const { std::cell::RefCell::new(None) }; }
                let mut w = Vec::new();
                decode_word(i, ALPHA.len() as u64, k, &mut w);
                let body = word_text(&w);
                WS.with(|cell| {
                    let mut cell = cell.borrow_mut();
                    let (ws, cnt) = cell.get_or_insert_with(|| (VirtualWorkspace::new(), 0));
                    st.eval(k >= 1);
                    match e2e_check(ws, cnt, &body) {
                        Err(_) => {
                            st.undecided += 1;
                            st.outcome("e2e:undecided");
                        }
                        Ok(None) => st.outcome("e2e:lands-on-token"),
                        Ok(Some(_)) => {
                            st.outcome("violation:e2e-diagnostic");
                            // minimise with a private workspace so the shared one is untouched
                            let mws = std::cell::RefCell::new(VirtualWorkspace::new());
                            let fails = |b: &str| matches!(e2e_check(&mut mws.borrow_mut(), &mut 0, b), Ok(Some(_)));
                            let min = minimise(&body, fails);
                            let mut fresh = VirtualWorkspace::new();
                            match e2e_check(&mut fresh, &mut 0, &min) {
                                Ok(Some(d)) => st.violation(Violation { signature: "e2e-diagnostic".into(), witness: json!({"e2e": min, "document": e2e_doc(&min)}), detail: d }),
                                _ => die(&format!("C23 e2e finding on {body:?} did not reproduce in a fresh workspace")),
                            }
                        }
                    }
                    if k == 2 && i % 17 == 3 {
                        st.sample(|| json!({"e2e_document": e2e_doc(&body)}));
                    }
                });
            });
            all.merge(st);
            if ok {
                e2e_done = Some(k);
            } else {
                break;
            }
        }
    }

    rep.rule = format!(
        "P4: server_capabilities for all 9 offers of position encodings (none, and every subset of utf-8/16/32); P1/P2: every text of length ≤ {l_target} over Σ_t ({} texts) × every char-boundary offset (to_lsp_position) and every reference position naming a char boundary (get_offset) against an independent UTF-16 / (\\n|\\r\\n|\\r) reference; P3: `local s = [[w]] local t = zz` for every w ∈ Σ_t^≤{k_e2e} through the real analysis, the undefined-global range mapped back by the reference must be the token zz; one evaluation = one conversion / one document judged; non-trivial = text of ≥ 2 characters; offsets inside a \\r\\n pair and positions inside a surrogate pair are undecided",
        count_upto(l_target)
    );
    rep.exhaustive = unit_is_utf16 && done == Some(l_target) && e2e_done == Some(k_e2e);
    rep.bounds = json!({"L_target": l_target, "L_completed": done, "e2e_k_target": k_e2e, "e2e_k_completed": e2e_done,
        "negotiated": Value::Object(negotiated_table), "reference_unit": default_enc, "wall_cap_s": args.wall_cap_s, "wall_cap_hit": dl.was_hit()});
    rep.assumptions = vec![
        "one reference only (own UTF-16 / line-terminator model, written from LSP 3.17 §Position)".into(),
        "if the server negotiates a non-UTF-16 encoding for some offer, P1–P3 are skipped as undecided (LuaDocument has no encoding parameter)".into(),
    ];
    rep.finish(args, all)
}
