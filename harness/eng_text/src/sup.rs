//! Supervision for explorations whose subject can *abort* the process (double panic while unwinding,
//! stack overflow): the exploration runs in a child process that records, per worker thread, the case it
//! is working on in a small scratch file; if the child dies, the parent reads the candidates, re-runs
//! each in its own child to find the one(s) that kill the process, and minimises with one child per probe.
use std::cell::RefCell;
use std::fs::{File, OpenOptions};
use std::os::unix::fs::FileExt;
use std::os::unix::process::ExitStatusExt;
use std::path::{Path, PathBuf};
use std::process::{Command, Stdio};
use std::sync::atomic::{AtomicUsize, Ordering};

const SLOT: u64 = 1024;

/// One small file per worker thread (no shared inode, so no write contention).
pub struct Marker {
    prefix: PathBuf,
}
static NEXT: AtomicUsize = AtomicUsize::new(0);
thread_local! { static MY_FILE: RefCell<Option<File>> = const { RefCell::new(None) }; }

impl Marker {
    pub fn create(prefix: &Path) -> std::io::Result<Marker> {
        for old in Self::files(prefix) {
            let _ = std::fs::remove_file(old);
        }
        Ok(Marker { prefix: prefix.to_path_buf() })
    }
    fn files(prefix: &Path) -> Vec<PathBuf> {
        let (Some(dir), Some(name)) = (prefix.parent(), prefix.file_name().map(|n| n.to_string_lossy().to_string())) else { return vec![] };
        let mut v: Vec<PathBuf> = std::fs::read_dir(dir)
            .map(|rd| rd.flatten().map(|e| e.path()).filter(|p| p.file_name().is_some_and(|f| f.to_string_lossy().starts_with(&format!("{name}.")))).collect())
            .unwrap_or_default();
        v.sort();
        v
    }
    /// record "this thread has judged `evals` cases so far and is now working on `case`"
    pub fn set(&self, evals: u64, case: &str) {
        MY_FILE.with(|f| {
            let mut f = f.borrow_mut();
            if f.is_none() {
                let n = NEXT.fetch_add(1, Ordering::Relaxed);
                let mut p = self.prefix.clone().into_os_string();
                p.push(format!(".{n}"));
                *f = OpenOptions::new().create(true).write(true).truncate(true).open(PathBuf::from(p)).ok();
            }
            if let Some(file) = f.as_ref() {
                let mut buf = format!("{evals}\t{case}").into_bytes();
                buf.truncate(SLOT as usize - 1);
                buf.push(0);
                let _ = file.write_at(&buf, 0);
            }
        })
    }
    pub fn read_all(prefix: &Path) -> Vec<(u64, String)> {
        let mut out = Vec::new();
        for p in Self::files(prefix) {
            let Ok(data) = std::fs::read(&p) else { continue };
            let end = data.iter().position(|b| *b == 0).unwrap_or(data.len());
            let s = String::from_utf8_lossy(&data[..end]).to_string();
            if let Some((n, case)) = s.split_once('\t') {
                out.push((n.parse().unwrap_or(0), case.to_string()));
            }
            let _ = std::fs::remove_file(&p);
        }
        out
    }
}

pub fn work_dir(args: &vcore::Args) -> PathBuf {
    // `check` always passes --work; run by hand without it, scratch goes under ./.work (never /tmp)
    let d = args.extra.get("work").map(PathBuf::from).unwrap_or_else(|| PathBuf::from(".work").join(format!("eng_text-{}", std::process::id())));
    let _ = std::fs::create_dir_all(&d);
    d
}

pub struct ChildEnd {
    pub ok: bool,
    pub how: String,
    pub stderr_tail: String,
}

/// run this executable again with `extra` appended to `base`; stderr is captured (tail kept)
pub fn run_self(base: &[String], extra: &[&str], quiet: bool) -> ChildEnd {
    let exe = std::env::current_exe().unwrap_or_else(|e| vcore::die(&format!("current_exe: {e}")));
    let out = Command::new(exe)
        .args(base)
        .args(extra)
        .env("RUST_BACKTRACE", "0")
        .stdout(if quiet { Stdio::null() } else { Stdio::inherit() })
        .stderr(Stdio::piped())
        .output()
        .unwrap_or_else(|e| vcore::die(&format!("spawn child: {e}")));
    let err = String::from_utf8_lossy(&out.stderr).to_string();
    // the first lines name the original panic, the last ones how the process ended
    let lines: Vec<&str> = err.lines().collect();
    let tail: Vec<&str> = if lines.len() <= 12 { lines.iter().rev().copied().collect() } else { lines[lines.len() - 4..].iter().rev().copied().chain(std::iter::once("...")).chain(lines[..6].iter().rev().copied()).collect() };
    let how = match (out.status.signal(), out.status.code()) {
        (Some(s), _) => format!("signal {s}"),
        (None, Some(c)) => format!("exit {c}"),
        _ => "unknown".into(),
    };
    ChildEnd { ok: out.status.success(), how, stderr_tail: tail.into_iter().rev().collect::<Vec<_>>().join("\n") }
}

/// "panicked at <path>:<line>" → repo-relative path of the first panic in a child's stderr
pub fn first_panic_site(stderr: &str) -> Option<String> {
    let i = stderr.find("panicked at ")?;
    let rest = &stderr[i + "panicked at ".len()..];
    let loc = rest.split(|c: char| c == '\n' || c == ' ').next()?;
    let loc = loc.trim_end_matches(':');
    let path = loc.split(':').next()?;
    Some(match path.find("crates/") {
        Some(j) => path[j..].to_string(),
        None => path.to_string(),
    })
}
