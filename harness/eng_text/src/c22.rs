//! C22 — offsets and positions convert consistently and stay in bounds.
//!
//! Space: every text of length ≤ L over Σ_t × every char-boundary offset × every (line, character)
//! with line ≤ lines+1 and character ≤ utf16-length+3, on `LineIndex` and on `LuaDocument`.
//! Oracle (transcribed from the statement):
//!   R  offset → position → offset is the identity for every char-boundary offset;
//!   N  a line that does not exist converts to `None`;
//!   B  an existing line converts to `Some(o)` with o a char boundary, o ≤ len, o inside that line
//!      (line_start ≤ o ≤ offset of the line's terminating `\n`), and when the character is at or past
//!      the end of the line under every unit convention, o is at the line end (before `\n`, either side
//!      of a `\r` that precedes it — which side is left open by the statement);
//!   a position whose line exists under one reference line model (`\n` only) but not the other
//!   (`\n`, `\r\n`, `\r`) is *undecided* here — that disagreement is C23's subject.
use crate::texts::*;
use rowan::{TextRange, TextSize};
use serde_json::{Value, json};
use vcore::*;

#[derive(Clone, Debug)]
pub struct Finding {
    pub sig: String,
    pub op: Value,
    pub detail: String,
}

struct Sink {
    out: Vec<Finding>,
    evals: u64,
    undecided: u64,
    /// keep every finding (replay) instead of the first per signature (exploration)
    all: bool,
}
impl Sink {
    fn add(&mut self, sig: &str, op: impl FnOnce() -> Value, detail: impl FnOnce() -> String) {
        if self.all || !self.out.iter().any(|f| f.sig == sig) {
            self.out.push(Finding { sig: sig.to_string(), op: op(), detail: detail() });
        }
    }
}

fn ts(o: usize) -> TextSize {
    TextSize::from(o as u32)
}

/// judge one `get_offset(line, ch)` result against both line models
fn judge_offset(
    text: &str,
    nl: &[Line],
    lsp: &[Line],
    line: usize,
    ch: usize,
    got: Result<Option<usize>, String>,
    surface: &str,
    sink: &mut Sink,
) {
    sink.evals += 1;
    let op = || json!({"op": format!("{surface}.get_offset"), "line": line, "character": ch});
    let got = match got {
        Ok(g) => g,
        Err(p) => {
            sink.add(&format!("panic:{surface}.get_offset"), op, || p);
            return;
        }
    };
    let (a, b) = (nl.get(line), lsp.get(line));
    match (a, b) {
        (None, None) => {
            if let Some(o) = got {
                sink.add("nonexistent-line-some", op, || format!("line {line} does not exist ({} lines) but converts to offset {o}", nl.len()));
            }
        }
        (Some(a), Some(b)) if a == b => {
            // the two branches of the implementation (ASCII fast path / char walk) are distinguished in
            // the signature by the class of the addressed line, so neither masks the other
            let cls = if text[a.start..a.end_max].is_ascii() { "ascii-line" } else { "non-ascii-line" };
            let Some(o) = got else {
                sink.add("existing-line-none", op, || format!("line {line} exists but ({line},{ch}) converts to None"));
                return;
            };
            if o > text.len() {
                sink.add(&format!("past-document:{cls}"), op, || format!("({line},{ch}) -> offset {o}, document has {} bytes", text.len()));
            } else if !text.is_char_boundary(o) {
                sink.add(&format!("not-char-boundary:{cls}"), op, || format!("({line},{ch}) -> offset {o} is inside a character"));
            } else if o < a.start {
                sink.add(&format!("before-line:{cls}"), op, || format!("({line},{ch}) -> offset {o}, line starts at {}", a.start));
            } else if o > a.end_max {
                sink.add(&format!("later-line:{cls}"), op, || {
                    format!("({line},{ch}) -> offset {o}, but line {line} ends at offset {} (next line starts at {})", a.end_max, a.next)
                });
            } else if ch >= utf16_len(&text[a.start..a.end_max]) && o < a.end_min {
                sink.add(&format!("clamp-before-line-end:{cls}"), op, || format!("({line},{ch}) is past the line end {} but converts to {o}", a.end_min));
            }
        }
        _ => sink.undecided += 1,
    }
}

/// All findings (first case per signature) for one text.
pub fn check(text: &str, with_pairs: bool) -> (Vec<Finding>, u64, u64) {
    check_impl(text, with_pairs, false)
}

fn check_impl(text: &str, with_pairs: bool, all: bool) -> (Vec<Finding>, u64, u64) {
    let mut sink = Sink { out: vec![], evals: 0, undecided: 0, all };
    let d = Doc::new(text);
    let li = &d.index;
    let doc = d.doc(text);
    let nl = lines(text, Model::Nl);
    let lsp = lines(text, Model::Lsp);
    let bs = boundaries(text);

    // R: round trip on both surfaces
    let mut pos_of: Vec<Option<(usize, usize)>> = Vec::with_capacity(bs.len());
    for &o in &bs {
        sink.evals += 1;
        let op = || json!({"op": "index.roundtrip", "offset": o});
        let p = match catch(|| li.get_line_col(ts(o), text)) {
            Ok(p) => p,
            Err(e) => {
                sink.add("panic:index.get_line_col", op, || e);
                pos_of.push(None);
                continue;
            }
        };
        pos_of.push(p);
        let Some((l, c)) = p else {
            sink.add("to-position-none", op, || format!("offset {o} (char boundary, ≤ len {}) has no position", text.len()));
            continue;
        };
        match catch(|| li.get_offset(l, c, text)) {
            Ok(back) => {
                if back.map(usize::from) != Some(o) {
                    sink.add("roundtrip", op, || format!("offset {o} -> ({l},{c}) -> {:?}", back.map(usize::from)));
                }
            }
            Err(e) => sink.add("panic:index.get_offset", op, || e),
        }
        // LuaDocument surface
        sink.evals += 1;
        let opd = || json!({"op": "doc.roundtrip", "offset": o});
        match catch(|| doc.to_lsp_position(ts(o))) {
            Ok(Some(pp)) => {
                if (pp.line as usize, pp.character as usize) != (l, c) {
                    sink.add("doc-differs-from-index", opd, || format!("to_lsp_position({o}) = {pp:?}, LineIndex says ({l},{c})"));
                }
                match catch(|| doc.get_offset(pp.line as usize, pp.character as usize)) {
                    Ok(back) => {
                        if back.map(usize::from) != Some(o) && !sink.out.iter().any(|f| f.sig == "roundtrip") {
                            sink.add("roundtrip", opd, || format!("offset {o} -> {pp:?} -> {:?}", back.map(usize::from)));
                        }
                    }
                    Err(e) => sink.add("panic:doc.get_offset", opd, || e),
                }
            }
            Ok(None) => sink.add("to-position-none", opd, || format!("to_lsp_position({o}) = None")),
            Err(e) => sink.add("panic:doc.to_lsp_position", opd, || e),
        }
    }

    // N, B: every (line, character) in and beyond range
    let max_line = nl.len().max(lsp.len()) + 1;
    let max_ch = utf16_len(text) + 3;
    let mut off_of: Vec<Vec<Option<Option<usize>>>> = vec![vec![None; max_ch + 1]; max_line + 1];
    for line in 0..=max_line {
        for ch in 0..=max_ch {
            let g = catch(|| li.get_offset(line, ch, text).map(usize::from));
            if let Ok(v) = &g {
                off_of[line][ch] = Some(*v);
            }
            let before = sink.out.len();
            judge_offset(text, &nl, &lsp, line, ch, g.clone(), "index", &mut sink);
            let index_found = sink.out.len() > before;
            // the same through LuaDocument (reported only when it adds something)
            let gd = catch(|| doc.get_offset(line, ch).map(usize::from));
            if gd != g || !index_found {
                judge_offset(text, &nl, &lsp, line, ch, gd, "doc", &mut sink);
            } else {
                sink.evals += 1;
            }
        }
    }

    if with_pairs {
        // to_lsp_range over all boundary pairs s ≤ e
        for (i, &s) in bs.iter().enumerate() {
            for (j, &e) in bs.iter().enumerate().skip(i) {
                sink.evals += 1;
                let op = || json!({"op": "doc.to_lsp_range", "start": s, "end": e});
                let (Some(ps), Some(pe)) = (pos_of[i], pos_of[j]) else { continue };
                match catch(|| doc.to_lsp_range(TextRange::new(ts(s), ts(e)))) {
                    Ok(Some(r)) => {
                        let got = ((r.start.line as usize, r.start.character as usize), (r.end.line as usize, r.end.character as usize));
                        if got != (ps, pe) {
                            sink.add("to_lsp_range-inconsistent", op, || format!("range {s}..{e} -> {got:?}, single offsets give {ps:?},{pe:?}"));
                        }
                    }
                    Ok(None) => sink.add("to_lsp_range-none", op, || format!("range {s}..{e} inside the document converts to None")),
                    Err(p) => sink.add("panic:doc.to_lsp_range", op, || p),
                }
            }
        }
        // to_rowan_range over all ordered position pairs p1 ≤ p2
        let positions: Vec<(usize, usize)> = (0..=max_line).flat_map(|l| (0..=max_ch).map(move |c| (l, c))).collect();
        for (i, &p1) in positions.iter().enumerate() {
            for &p2 in positions.iter().skip(i) {
                sink.evals += 1;
                let decided = |p: (usize, usize)| match (nl.get(p.0), lsp.get(p.0)) {
                    (None, None) => Some(false),
                    (Some(a), Some(b)) if a == b => Some(true),
                    _ => None,
                };
                let (Some(e1), Some(e2)) = (decided(p1), decided(p2)) else {
                    sink.undecided += 1;
                    continue;
                };
                let op = || json!({"op": "doc.to_rowan_range", "start": [p1.0, p1.1], "end": [p2.0, p2.1]});
                let range = lsp_types::Range {
                    start: lsp_types::Position { line: p1.0 as u32, character: p1.1 as u32 },
                    end: lsp_types::Position { line: p2.0 as u32, character: p2.1 as u32 },
                };
                let got = catch(|| doc.to_rowan_range(range));
                match got {
                    Err(p) => sink.add("panic:doc.to_rowan_range", op, || {
                        format!("start ≤ end positions {p1:?}..{p2:?}: {} (in {})", p.split(" @ ").next().unwrap_or(""), panic_site(&p))
                    }),
                    Ok(None) => {
                        if e1 && e2 {
                            sink.add("to_rowan_range-none", op, || format!("both lines exist but {p1:?}..{p2:?} converts to None"));
                        }
                    }
                    Ok(Some(r)) => {
                        if !(e1 && e2) {
                            sink.add("nonexistent-line-some", op, || format!("{p1:?}..{p2:?} names a missing line but converts to {r:?}"));
                        } else if let (Some(Some(a)), Some(Some(b))) = (off_of[p1.0][p1.1], off_of[p2.0][p2.1]) {
                            if (usize::from(r.start()), usize::from(r.end())) != (a, b) {
                                sink.add("to_rowan_range-inconsistent", op, || format!("{p1:?}..{p2:?} -> {r:?}, single positions give {a},{b}"));
                            }
                        }
                    }
                }
            }
        }
    }
    (sink.out, sink.evals, sink.undecided)
}

fn make_violation(text: &str, sig: &str) -> Option<Violation> {
    let fails = |t: &str| check(t, true).0.iter().any(|f| f.sig == sig);
    let min = minimise(text, fails);
    let f = check(&min, true).0.into_iter().find(|f| f.sig == sig)?;
    let mut w = f.op.clone();
    w["text"] = json!(min);
    Some(Violation { signature: sig.to_string(), witness: w, detail: f.detail })
}

pub fn replay(w: &Value) -> Option<Violation> {
    let text = w["text"].as_str()?;
    let mut op = w.clone();
    op.as_object_mut()?.remove("text");
    // every finding of the text, not only the first per signature: re-run and look for this op
    let fs = check_impl(text, true, true).0;
    if let Some(f) = fs.iter().find(|f| f.op == op) {
        return Some(Violation { signature: f.sig.clone(), witness: w.clone(), detail: f.detail.clone() });
    }
    None
}

pub fn run(args: &Args) -> ! {
    if let Some(w) = args.replay_witness() {
        let w = if w.get("witness").is_some() { w["witness"].clone() } else { w };
        finish_replay(replay(&w), "C22");
    }
    let dl = args.deadline();
    let mut rep = Report::new("C22", "exploration");
    let l_target = args.extra_usize("L").unwrap_or(args.tier.pick(6, 8));
    let pairs_upto = args.tier.pick(4, 5).min(l_target);
    let (mut all, done) = par_words(ALPHA.len(), 0, l_target, args.threads, &dl, |w, st| {
        let text = word_text(w);
        let (fs, evals, und) = check(&text, w.len() <= pairs_upto);
        st.evaluations += evals;
        st.nontrivial += if w.len() >= 2 { evals } else { 0 };
        st.undecided += und;
        let non_ascii = !text.is_ascii();
        let nl = text.contains('\n');
        st.outcome(match (fs.is_empty(), non_ascii, nl) {
            (true, false, false) => "ok:ascii-single-line",
            (true, false, true) => "ok:ascii-multi-line",
            (true, true, false) => "ok:non-ascii-single-line",
            (true, true, true) => "ok:non-ascii-multi-line",
            (false, _, _) => "violating-text",
        });
        if w.len() == 4 && non_ascii && nl && st.samples.len() < 3 {
            st.sample(|| {
                let d = Doc::new(&text);
                let to_pos: Vec<Value> = boundaries(&text).iter().map(|&o| json!([o, d.index.get_line_col(ts(o), &text)])).collect();
                let clamp: Vec<Value> = (0..=lines(&text, Model::Nl).len()).map(|l| json!([l, 99, d.index.get_offset(l, 99, &text).map(usize::from)])).collect();
                json!({"text": text, "offset_to_position": to_pos, "line_char99_to_offset": clamp, "findings": fs.iter().map(|f| f.sig.clone()).collect::<Vec<_>>()})
            });
        }
        for f in fs {
            st.outcome(&format!("violation:{}", f.sig));
            // determinism: the identical finding must come back on re-execution
            let again = check(&text, w.len() <= pairs_upto).0;
            if !again.iter().any(|g| g.sig == f.sig && g.op == f.op) {
                die(&format!("C22 finding {} on {text:?} did not reproduce", f.sig));
            }
            match make_violation(&text, &f.sig) {
                Some(v) => st.violation(v),
                None => die(&format!("C22 minimisation lost the finding {} on {text:?}", f.sig)),
            }
        }
    });
    let texts_done = done.map(count_upto).unwrap_or(0);
    rep.rule = format!(
        "every text of length ≤ {l_target} over Σ_t = {{a, é, 中, 😀, \\n, \\r, space}} ({} texts) × every char-boundary offset (round trip through LineIndex and LuaDocument) × every (line, character) with line ≤ lines+1, character ≤ utf16-length+3 (get_offset on both surfaces), plus for texts of length ≤ {pairs_upto} every offset pair through to_lsp_range and every ordered position pair through to_rowan_range; one evaluation = one conversion judged; non-trivial = text of ≥ 2 characters; oracle: round-trip identity, missing line ⇒ None, existing line ⇒ char-boundary offset inside that line and inside the document, at the line end when the character is past it; positions whose line exists under only one of the two reference line models (\\n-only vs \\n|\\r\\n|\\r) are undecided",
        count_upto(l_target)
    );
    rep.exhaustive = done == Some(l_target);
    rep.bounds = json!({"L_target": l_target, "L_completed": done, "texts_completed": texts_done, "pairs_upto_len": pairs_upto,
        "alphabet": ALPHA.iter().map(|c| c.to_string()).collect::<Vec<_>>(), "wall_cap_s": args.wall_cap_s, "wall_cap_hit": dl.was_hit()});
    rep.assumptions = vec![
        "rowan TextSize/TextRange arithmetic is trusted".into(),
        "which side of a \\r preceding \\n counts as the line end is left open (both accepted)".into(),
        "texts longer than the bound or with characters outside the alphabet are not covered".into(),
    ];
    all.samples.truncate(MAX_SAMPLES);
    rep.finish(args, all)
}
