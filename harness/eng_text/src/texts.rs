//! Text space and reference line/column models shared by C22 and C23.
//!
//! Texts: every word of length ≤ L over Σ_t = {a, é, 中, 😀, \n, \r, space}.
//! Two *independent* line models (neither calls into the repo):
//!   * `Model::Nl`  — a line ends at `\n` only (what `LineIndex` documents itself to do);
//!   * `Model::Lsp` — a line ends at `\n`, `\r\n` or a lone `\r` (LSP 3.17 §Text Documents).
use emmylua_code_analysis::{FileId, LuaDocument};
use emmylua_parser::LineIndex;
use std::path::PathBuf;

pub const ALPHA: [char; 7] = ['a', 'é', '中', '😀', '\n', '\r', ' '];

pub fn word_text(w: &[usize]) -> String {
    w.iter().map(|&i| ALPHA[i]).collect()
}

/// number of texts of length ≤ l
pub fn count_upto(l: usize) -> u64 {
    (0..=l).map(|k| vcore::pow(ALPHA.len() as u64, k as u32)).sum()
}

#[derive(Clone, Copy, PartialEq, Eq, Debug)]
pub enum Model {
    Nl,
    Lsp,
}

#[derive(Clone, Copy, PartialEq, Eq, Debug)]
pub struct Line {
    /// first byte of the line
    pub start: usize,
    /// earliest byte offset that can be called "the end of the line": before the terminator,
    /// and before a `\r` that immediately precedes a terminating `\n`
    pub end_min: usize,
    /// latest such offset: directly before the terminator's last byte (`\n`, or the lone `\r`)
    pub end_max: usize,
    /// first byte of the next line; == text length on the last line
    pub next: usize,
    pub last: bool,
}

pub fn lines(text: &str, m: Model) -> Vec<Line> {
    let b = text.as_bytes();
    let mut out = Vec::new();
    let mut start = 0usize;
    let mut i = 0usize;
    while i < b.len() {
        match b[i] {
            b'\n' => {
                let end_min = if i > start && b[i - 1] == b'\r' { i - 1 } else { i };
                out.push(Line { start, end_min, end_max: i, next: i + 1, last: false });
                start = i + 1;
            }
            b'\r' if m == Model::Lsp && b.get(i + 1) != Some(&b'\n') => {
                out.push(Line { start, end_min: i, end_max: i, next: i + 1, last: false });
                start = i + 1;
            }
            _ => {}
        }
        i += 1;
    }
    out.push(Line { start, end_min: b.len(), end_max: b.len(), next: b.len(), last: true });
    out
}

pub fn utf16_len(s: &str) -> usize {
    s.chars().map(|c| c.len_utf16()).sum()
}

pub fn boundaries(text: &str) -> Vec<usize> {
    let mut v: Vec<usize> = text.char_indices().map(|(i, _)| i).collect();
    v.push(text.len());
    v
}

/// Minimise a text while `fails` holds: drop characters, then replace every character by `a` or else by
/// the simplest member of its class (a / é / \n / \r) so that one root cause has one witness.
pub fn minimise(text: &str, fails: impl Fn(&str) -> bool) -> String {
    let t = vcore::minimise_text(text, &fails);
    let mut cs: Vec<char> = t.chars().collect();
    for i in 0..cs.len() {
        // first choice: plain 'a'; second: the simplest member of the character's own class
        let class = match cs[i] {
            ' ' => 'a',
            '中' | '😀' => 'é',
            c => c,
        };
        let old = cs[i];
        for repl in ['a', class] {
            if repl == cs[i] {
                break;
            }
            cs[i] = repl;
            if fails(&cs.iter().collect::<String>()) {
                break;
            }
            cs[i] = old;
        }
    }
    cs.into_iter().collect()
}

pub struct Doc {
    pub path: PathBuf,
    pub index: LineIndex,
}
impl Doc {
    pub fn new(text: &str) -> Doc {
        Doc { path: PathBuf::from("/verif/t.lua"), index: LineIndex::parse(text) }
    }
    pub fn doc<'a>(&'a self, text: &'a str) -> LuaDocument<'a> {
        LuaDocument::new(FileId::new(0), &self.path, text, &self.index)
    }
}
