//! C37 — doc markup highlighting is total and in bounds.
//!
//! Space: every word of Σ_m^≤k (markup fragments) as the body of a doc comment, in two contexts
//! (`---<body>` and `---@param x int <body>`), × 6 flavour configurations
//! (Md, MySt, MySt+lua domain, Rst, Rst+lua domain, Rst+lua domain+default role) × every cursor
//! (none, and every char-boundary offset of the comment) × every LuaDocDescription node of the tree.
//! Oracle (the statement): `emmylua_parser_desc::parse` does not panic; every item range lies inside the
//! description node's text range, on char boundaries; items are in non-decreasing start order.
use emmylua_parser::{LuaAstNode, LuaDocDescription, LuaParser, ParserConfig};
use emmylua_parser_desc::{DescItem, DescParserType, parse};
use serde_json::{Value, json};
use vcore::*;

pub const SIGMA_M: &[&str] = &[
    // plain text and multi-byte
    "a", " ", "é", "😀", "\\",
    // fences and inline code
    "```", "```lua", "~~~", "`", "``", ":::",
    // emphasis
    "*", "**", "_", "__",
    // links, javadoc, brackets
    "[t](u)", "[", "]", "(", ")", "<u>", "{@link x}", "{", "}",
    // roles, references, directives, substitutions, tables
    ":role:", "{lua:obj}", ":lua:obj:", "`x`_", ".. dir::", ".. code-block:: lua", "::", "|", "| a | b |", "[1]_",
    // block starters
    "$", "#", ">", "-", "- ", "1.", "1. ", "@", ":", "=",
    // line structure
    "\n---", "\n---   ", "\n--", "\n",
    // indentation kinds (the common indentation of the lines is computed and cut off): lines indented by an
    // ASCII blank, a tab, a no-break space (2 bytes) and an ideographic space (3 bytes), and the bare characters
    "\n--- a", "\n---\ta", "\n---\u{a0}a", "\n---\u{3000}a", "\u{a0}", "\u{3000}",
];

pub const FLAVOURS: [&str; 6] = ["md", "myst", "myst:lua", "rst", "rst:lua", "rst:lua:role"];

pub fn flavour(i: usize) -> DescParserType {
    match i {
        0 => DescParserType::Md,
        1 => DescParserType::MySt { primary_domain: None },
        2 => DescParserType::MySt { primary_domain: Some("lua".into()) },
        3 => DescParserType::Rst { primary_domain: None, default_role: None },
        4 => DescParserType::Rst { primary_domain: Some("lua".into()), default_role: None },
        _ => DescParserType::Rst { primary_domain: Some("lua".into()), default_role: Some("lua:obj".into()) },
    }
}

pub const CONTEXTS: [&str; 2] = ["---", "---@param x int "];

pub fn comment_text(ctx: usize, body: &str) -> String {
    format!("{}{}\n", CONTEXTS[ctx], body)
}

/// The byte range a highlight item may occupy: the description node itself.
pub fn allowed_range(desc: &LuaDocDescription) -> (usize, usize) {
    let r = desc.syntax().text_range();
    (r.start().into(), r.end().into())
}

/// Some((signature, detail)) when the items of one parse violate the oracle
pub fn judge_items(text: &str, allowed: (usize, usize), items: &[DescItem]) -> Option<(String, String)> {
    let mut prev = 0usize;
    for (i, it) in items.iter().enumerate() {
        let (s, e): (usize, usize) = (it.range.start().into(), it.range.end().into());
        if s < allowed.0 || e > allowed.1 {
            return Some(("out-of-description".into(), format!("item {i} {:?} {s}..{e} outside the description {}..{}", it.kind, allowed.0, allowed.1)));
        }
        if !text.is_char_boundary(s) || !text.is_char_boundary(e) {
            return Some(("not-char-boundary".into(), format!("item {i} {:?} {s}..{e} splits a character", it.kind)));
        }
        if s < prev {
            return Some(("unsorted".into(), format!("item {i} starts at {s} after an item starting at {prev}")));
        }
        prev = s;
    }
    None
}

pub struct Case {
    pub evals: u64,
    pub descs: u64,
    pub items: u64,
    pub kinds: u32,
}

/// run one (text, flavour) over all descriptions and cursors; first finding per signature
pub fn check(text: &str, fl: usize, only_cursor: Option<Option<usize>>, c: &mut Case) -> Vec<(String, Option<usize>, String)> {
    let tree = LuaParser::parse(text, ParserConfig::default());
    check_tree(text, &tree, fl, only_cursor, c)
}

pub fn check_tree(
    text: &str,
    tree: &emmylua_parser::LuaSyntaxTree,
    fl: usize,
    only_cursor: Option<Option<usize>>,
    c: &mut Case,
) -> Vec<(String, Option<usize>, String)> {
    let mut out: Vec<(String, Option<usize>, String)> = Vec::new();
    let descs: Vec<LuaDocDescription> = tree.get_chunk_node().descendants::<LuaDocDescription>().collect();
    let mut cursors: Vec<Option<usize>> = vec![None];
    match only_cursor {
        Some(cu) => cursors = vec![cu],
        None => {
            cursors.extend(text.char_indices().map(|(i, _)| Some(i)));
            cursors.push(Some(text.len()));
        }
    }
    for desc in descs {
        c.descs += 1;
        let allowed = allowed_range(&desc);
        for &cu in &cursors {
            c.evals += 1;
            let r = catch(|| parse(flavour(fl), text, desc.clone(), cu));
            let f = match r {
                Err(p) => Some((format!("panic:{}", panic_site(&p)), p)),
                Ok(items) => {
                    if cu.is_none() {
                        c.items += items.len() as u64;
                        for it in &items {
                            c.kinds |= 1 << kind_bit(&it.kind);
                        }
                    }
                    judge_items(text, allowed, &items)
                }
            };
            if let Some((sig, d)) = f {
                if !out.iter().any(|x| x.0 == sig) {
                    out.push((sig, cu, d));
                }
            }
        }
    }
    out
}

fn kind_bit(k: &emmylua_parser_desc::DescItemKind) -> u32 {
    use emmylua_parser_desc::DescItemKind::*;
    match k {
        Scope => 0,
        Ref => 1,
        Em => 2,
        Strong => 3,
        Code => 4,
        Link => 5,
        JavadocLink => 6,
        Markup => 7,
        Arg => 8,
        CodeBlock => 9,
        CodeBlockHl(_) => 10,
    }
}
const KIND_NAMES: [&str; 11] = ["Scope", "Ref", "Em", "Strong", "Code", "Link", "JavadocLink", "Markup", "Arg", "CodeBlock", "CodeBlockHl"];

fn make_violation(ctx: usize, frags: &[usize], fl: usize, sig: &str) -> Violation {
    let fails_fl = |body: &str, ctx: usize, fl: usize| -> bool {
        let mut c = Case { evals: 0, descs: 0, items: 0, kinds: 0 };
        check(&comment_text(ctx, body), fl, None, &mut c).iter().any(|f| f.0 == sig)
    };
    // 1. drop fragments, 2. drop characters, 3. simplest context / flavour that still fails
    let fr = minimise_seq(frags, |w| fails_fl(&w.iter().map(|&i| SIGMA_M[i]).collect::<String>(), ctx, fl));
    let body: String = fr.iter().map(|&i| SIGMA_M[i]).collect();
    let body = minimise_text(&body, |b| fails_fl(b, ctx, fl));
    let ctx = if fails_fl(&body, 0, fl) { 0 } else { ctx };
    let fl = (0..FLAVOURS.len()).find(|&f| fails_fl(&body, ctx, f)).unwrap_or(fl);
    let body = minimise_text(&body, |b| fails_fl(b, ctx, fl));
    // one root cause, one witness: prefer plain `a` wherever the case still fails
    let mut cs: Vec<char> = body.chars().collect();
    for i in 0..cs.len() {
        if cs[i] != 'a' && cs[i] != '\n' {
            let old = cs[i];
            cs[i] = 'a';
            if !fails_fl(&cs.iter().collect::<String>(), ctx, fl) {
                cs[i] = old;
            }
        }
    }
    let body: String = cs.into_iter().collect();
    let text = comment_text(ctx, &body);
    let mut c = Case { evals: 0, descs: 0, items: 0, kinds: 0 };
    let f = check(&text, fl, None, &mut c).into_iter().find(|f| f.0 == sig).expect("minimised case fails");
    Violation { signature: sig.to_string(), witness: json!({"text": text, "flavour": FLAVOURS[fl], "cursor": f.1}), detail: f.2 }
}

pub fn replay(w: &Value, args: &Args) -> Option<Violation> {
    let text = w["text"].as_str()?;
    let fl = FLAVOURS.iter().position(|f| Some(*f) == w["flavour"].as_str())?;
    if w["abort"].as_bool() == Some(true) {
        // the case kills the process: re-execute it in a child
        let work = crate::sup::work_dir(args);
        let end = probe(&work, text, fl);
        return match end {
            Some(e) => Some(Violation { signature: abort_signature(&e), witness: w.clone(), detail: abort_detail(&e) }),
            None => None,
        };
    }
    let cu = w["cursor"].as_u64().map(|x| x as usize);
    let mut c = Case { evals: 0, descs: 0, items: 0, kinds: 0 };
    let f = check(text, fl, Some(cu), &mut c).into_iter().next()?;
    Some(Violation { signature: f.0, witness: w.clone(), detail: f.2 })
}

// ---------------------------------------------------------------- process aborts

fn abort_signature(e: &crate::sup::ChildEnd) -> String {
    match crate::sup::first_panic_site(&e.stderr_tail) {
        Some(site) => format!("abort:{site}"),
        None => format!("abort:{}", e.how.replace(' ', "-")),
    }
}
fn abort_detail(e: &crate::sup::ChildEnd) -> String {
    format!("the process died ({}) while highlighting; child stderr: {}", e.how, e.stderr_tail.replace('\n', " | "))
}

/// Some(child end) iff running every cursor of (text, flavour) in a child kills that child
fn probe(work: &std::path::Path, text: &str, fl: usize) -> Option<crate::sup::ChildEnd> {
    static N: std::sync::atomic::AtomicU64 = std::sync::atomic::AtomicU64::new(0);
    let path = work.join(format!("c37-probe-{}.json", N.fetch_add(1, std::sync::atomic::Ordering::Relaxed)));
    std::fs::write(&path, json!({"text": text, "flavour": fl}).to_string()).unwrap_or_else(|e| die(&format!("write probe: {e}")));
    let end = crate::sup::run_self(&["--prop".into(), "C37".into(), "--probe".into(), path.to_string_lossy().to_string()], &[], true);
    let _ = std::fs::remove_file(&path);
    if end.ok { None } else { Some(end) }
}

fn probe_child(path: &str) -> ! {
    let v: Value = serde_json::from_str(&std::fs::read_to_string(path).unwrap_or_else(|e| die(&format!("probe file: {e}")))).unwrap_or_else(|e| die(&format!("probe json: {e}")));
    let text = v["text"].as_str().unwrap_or("");
    let fl = v["flavour"].as_u64().unwrap_or(0) as usize;
    // no catch_unwind here: the panic message must reach stderr so the parent can name the site.
    // A plain hook instead of std's: the default hook symbolises a full backtrace on a double panic
    // (~1 s per aborting probe), which would dominate the minimisation.
    std::panic::set_hook(Box::new(|info| {
        let loc = info.location().map(|l| format!("{}:{}", l.file(), l.line())).unwrap_or_default();
        let msg = info.payload().downcast_ref::<&str>().map(|s| s.to_string()).or_else(|| info.payload().downcast_ref::<String>().cloned()).unwrap_or_default();
        eprintln!("panicked at {loc}: {msg}");
    }));
    let tree = LuaParser::parse(text, ParserConfig::default());
    let mut cursors: Vec<Option<usize>> = vec![None];
    cursors.extend(text.char_indices().map(|(i, _)| Some(i)));
    cursors.push(Some(text.len()));
    for desc in tree.get_chunk_node().descendants::<LuaDocDescription>() {
        for &cu in &cursors {
            let _ = parse(flavour(fl), text, desc.clone(), cu);
        }
    }
    std::process::exit(0)
}

fn rule_text(k_target: usize) -> String {
    format!(
        "every word of Σ_m^≤{k_target} (|Σ_m| = {} markup fragments: text incl. é/😀/backslash, fences, inline code, emphasis, links, javadoc links, roles, rst references/directives/substitutions/tables, block starters, and line breaks continuing with ---, indented ---, -- or nothing) as comment body in the contexts {CONTEXTS:?}, × flavours {FLAVOURS:?}, × cursor ∈ {{none}} ∪ every char-boundary offset of the comment text, × every LuaDocDescription node in the parsed tree; one evaluation = one emmylua_parser_desc::parse call judged; non-trivial = body of ≥ 2 fragments; oracle: no panic and no process abort, every item range inside the LuaDocDescription node's range, on char boundaries, starts non-decreasing",
        SIGMA_M.len()
    )
}

/// "file:line" of the first panic in a child's stderr (grouping key for root causes)
fn panic_location(e: &crate::sup::ChildEnd) -> String {
    let t = &e.stderr_tail;
    match t.find("panicked at ") {
        Some(i) => {
            let rest = &t[i + "panicked at ".len()..];
            let loc: String = rest.split(|c: char| c == ' ' || c == '\n').next().unwrap_or("").trim_end_matches(':').to_string();
            match loc.find("crates/") {
                Some(j) => loc[j..].to_string(),
                None => loc,
            }
        }
        None => e.how.clone(),
    }
}

struct Killer {
    k: usize,
    idx: u64,
    ctx: usize,
    fl: usize,
    body: String,
    loc: String,
}

/// Mode B — isolated, chunked exploration, used after the fast in-process run died. Every pass is cut into
/// contiguous index ranges; each range is explored *sequentially* by a child process that records the index
/// it is working on. When a child dies, the word at that index is a killing word: it is recorded and the
/// range is re-run without it. Deterministic (sequential order inside a range) and complete.
fn isolated(args: &Args, k_target: usize) -> ! {
    let work = crate::sup::work_dir(args);
    let dl = args.deadline();
    let results: std::sync::Mutex<Vec<Value>> = std::sync::Mutex::new(Vec::new());
    let killers: std::sync::Mutex<Vec<Killer>> = std::sync::Mutex::new(Vec::new());
    let mut k_completed: Option<usize> = None;
    for k in 0..=k_target {
        let n = pow(SIGMA_M.len() as u64, k as u32);
        let size = (n / 256).clamp(1, 8192);
        let n_chunks = n.div_ceil(size);
        let next = std::sync::atomic::AtomicU64::new(0);
        let done = std::sync::atomic::AtomicU64::new(0);
        std::thread::scope(|sc| {
            for t in 0..args.threads.max(1) {
                let (next, done, results, killers, work, dl) = (&next, &done, &results, &killers, &work, &dl);
                sc.spawn(move || {
                    loop {
                        let c = next.fetch_add(1, std::sync::atomic::Ordering::Relaxed);
                        if c >= n_chunks || dl.expired() {
                            break;
                        }
                        let (lo, hi) = (c * size, ((c + 1) * size).min(n));
                        let mut skip_idx: Vec<u64> = Vec::new();
                        loop {
                            let marker = work.join(format!("c37.chunk{t}"));
                            let out = work.join(format!("c37.out{t}.json"));
                            let skips = skip_idx.iter().map(|i| i.to_string()).collect::<Vec<_>>().join(",");
                            let mut base: Vec<String> = ["--prop", "C37", "--tier", args.tier.name(), "--inner", "1", "--threads", "1", "--wall", "100000"].iter().map(|s| s.to_string()).collect();
                            base.extend(["--chunk".to_string(), format!("{k}:{lo}:{hi}"), "--marker".into(), marker.to_string_lossy().to_string(), "--out".into(), out.to_string_lossy().to_string()]);
                            if !skips.is_empty() {
                                base.extend(["--skip-idx".to_string(), skips]);
                            }
                            let e = crate::sup::run_self(&base, &[], true);
                            let at = crate::sup::Marker::read_all(&marker).into_iter().map(|(i, _)| i).max();
                            if e.ok {
                                if let Ok(v) = serde_json::from_str::<Value>(&std::fs::read_to_string(&out).unwrap_or_default()) {
                                    results.lock().unwrap().push(v);
                                }
                                let _ = std::fs::remove_file(&out);
                                break;
                            }
                            if e.how == "exit 2" {
                                die(&format!("C37 chunk child reported a machinery error: {}", e.stderr_tail));
                            }
                            let Some(idx) = at else { die(&format!("C37 chunk child died ({}) before recording an index", e.how)) };
                            if skip_idx.contains(&idx) {
                                die(&format!("C37 chunk child died twice at index {idx}"));
                            }
                            skip_idx.push(idx);
                            // name the panic site with one uncaught probe per (context, flavour)
                            let mut w = Vec::new();
                            decode_word(idx, SIGMA_M.len() as u64, k, &mut w);
                            let body: String = w.iter().map(|&i| SIGMA_M[i]).collect();
                            let hit = (0..CONTEXTS.len()).flat_map(|c| (0..FLAVOURS.len()).map(move |f| (c, f))).find_map(|(c, f)| probe(work, &comment_text(c, &body), f).map(|e| (c, f, e)));
                            let (ctx, fl, loc) = match hit {
                                Some((c, f, e)) => (c, f, panic_location(&e)),
                                None => die(&format!("word {idx} of pass {k} ({body:?}) killed the chunk child but no single probe dies")),
                            };
                            killers.lock().unwrap().push(Killer { k, idx, ctx, fl, body, loc });
                        }
                        done.fetch_add(1, std::sync::atomic::Ordering::Relaxed);
                    }
                });
            }
        });
        if done.load(std::sync::atomic::Ordering::Relaxed) == n_chunks {
            k_completed = Some(k);
        } else {
            break;
        }
    }
    // merge the chunk results
    let mut res = json!({"property_id": "C37", "tier": args.tier.name(), "seed": args.seed, "level": "exploration", "evaluations": 0u64, "distinct_nontrivial": 0u64,
        "undecided": 0u64, "rule": "", "samples": [], "outcomes": {}, "exhaustive": false, "bounds": {}, "assumptions": [], "extra": {},
        "violations": [], "raw_violating_cases": 0u64, "violations_truncated": false, "machinery_error": Value::Null});
    let mut kinds: std::collections::BTreeSet<String> = Default::default();
    let (mut descs, mut items) = (0u64, 0u64);
    let mut viols: std::collections::BTreeMap<String, Value> = Default::default();
    let mut rs = results.into_inner().unwrap();
    rs.sort_by_key(|r| (r["bounds"]["chunk"][0].as_u64(), r["bounds"]["chunk"][1].as_u64()));
    for r in rs {
        for key in ["evaluations", "distinct_nontrivial", "undecided", "raw_violating_cases"] {
            res[key] = json!(res[key].as_u64().unwrap_or(0) + r[key].as_u64().unwrap_or(0));
        }
        if let Some(o) = r["outcomes"].as_object() {
            for (k, v) in o {
                res["outcomes"][k] = json!(res["outcomes"][k].as_u64().unwrap_or(0) + v.as_u64().unwrap_or(0));
            }
        }
        for smp in r["samples"].as_array().cloned().unwrap_or_default() {
            if res["samples"].as_array().unwrap().len() < MAX_SAMPLES {
                res["samples"].as_array_mut().unwrap().push(smp);
            }
        }
        for k in r["bounds"]["item_kinds_seen"].as_array().cloned().unwrap_or_default() {
            kinds.insert(k.as_str().unwrap_or("").to_string());
        }
        descs += r["bounds"]["description_nodes"].as_u64().unwrap_or(0);
        items += r["bounds"]["items_checked_without_cursor"].as_u64().unwrap_or(0);
        for v in r["violations"].as_array().cloned().unwrap_or_default() {
            let fp = v["fingerprint"].as_str().unwrap_or("").to_string();
            match viols.get_mut(&fp) {
                Some(e) => e["raw_cases"] = json!(e["raw_cases"].as_u64().unwrap_or(0) + v["raw_cases"].as_u64().unwrap_or(0)),
                None => {
                    viols.insert(fp, v);
                }
            }
        }
    }
    // one witness per panic location: the first killing word in enumeration order, minimised
    let mut ks = killers.into_inner().unwrap();
    ks.sort_by(|a, b| (a.k, a.idx).cmp(&(b.k, b.idx)));
    let mut groups: std::collections::BTreeMap<String, Vec<&Killer>> = Default::default();
    for kl in &ks {
        groups.entry(kl.loc.clone()).or_default().push(kl);
    }
    for (loc, g) in &groups {
        let first = g[0];
        let dies = |b: &str, ctx: usize, fl: usize| probe(&work, &comment_text(ctx, b), fl).is_some_and(|e| panic_location(&e) == *loc);
        let (ctx, fl) = (first.ctx, first.fl);
        let min = minimise_text(&first.body, |b| dies(b, ctx, fl));
        let mut cs: Vec<char> = min.chars().collect();
        for i in 0..cs.len() {
            if cs[i] != 'a' && cs[i] != '\n' {
                let old = cs[i];
                cs[i] = 'a';
                if !dies(&cs.iter().collect::<String>(), ctx, fl) {
                    cs[i] = old;
                }
            }
        }
        let min: String = cs.into_iter().collect();
        let ctx = if dies(&min, 0, fl) { 0 } else { ctx };
        let fl = (0..FLAVOURS.len()).find(|&f| dies(&min, ctx, f)).unwrap_or(fl);
        let text = comment_text(ctx, &min);
        let e = probe(&work, &text, fl).unwrap_or_else(|| die("minimised abort case no longer aborts"));
        let v = Violation { signature: abort_signature(&e), witness: json!({"text": text, "flavour": FLAVOURS[fl], "cursor": "any", "abort": true}), detail: abort_detail(&e) };
        let fp = v.fingerprint("C37");
        res["outcomes"][format!("violation:{}", v.signature)] = json!(res["outcomes"][format!("violation:{}", v.signature)].as_u64().unwrap_or(0) + g.len() as u64);
        res["raw_violating_cases"] = json!(res["raw_violating_cases"].as_u64().unwrap_or(0) + g.len() as u64);
        res["evaluations"] = json!(res["evaluations"].as_u64().unwrap_or(0) + g.len() as u64);
        match viols.get_mut(&fp) {
            Some(e) => e["raw_cases"] = json!(e["raw_cases"].as_u64().unwrap_or(0) + g.len() as u64),
            None => {
                viols.insert(fp.clone(), json!({"fingerprint": fp, "signature": v.signature, "witness": v.witness, "detail": v.detail, "raw_cases": g.len()}));
            }
        }
    }
    res["violations"] = Value::Array(viols.into_values().collect());
    res["rule"] = json!(format!("{}; explored in isolated child processes because the in-process run died: every word that kills its process is a violation (one witness per panic location, the first in enumeration order, minimised)", rule_text(k_target)));
    res["exhaustive"] = json!(k_completed == Some(k_target));
    res["bounds"] = json!({"k_target": k_target, "k_completed": k_completed, "sigma": SIGMA_M, "flavours": FLAVOURS, "contexts": CONTEXTS, "mode": "isolated-chunks",
        "description_nodes": descs, "items_checked_without_cursor": items, "item_kinds_seen": kinds, "killing_words": ks.len(), "wall_cap_s": args.wall_cap_s, "wall_cap_hit": dl.was_hit()});
    res["assumptions"] = json!(["\"sorted\" is judged as non-decreasing start offsets (the weakest order the statement allows)"]);
    res["wall_s"] = json!(args.start.elapsed().as_secs_f64());
    std::fs::write(&args.out, serde_json::to_string_pretty(&res).unwrap()).unwrap_or_else(|e| die(&format!("cannot write result: {e}")));
    std::process::exit(0)
}

/// Parent: Mode A — the whole exploration in one multi-threaded child (fast). If that child dies
/// (a panic while a BacktrackPoint is alive aborts the process), fall back to Mode B.
fn supervise(args: &Args) -> ! {
    let raw: Vec<String> = std::env::args().skip(1).collect();
    let k_target = args.extra_usize("k").unwrap_or(args.tier.pick(3, 4));
    let end = crate::sup::run_self(&raw, &["--inner", "1"], false);
    if end.ok {
        std::process::exit(0);
    }
    if end.how == "exit 2" {
        eprintln!("{}", end.stderr_tail);
        die("C37 exploration child reported a machinery error");
    }
    eprintln!("C37: in-process exploration died ({}); re-running in isolated chunks", end.how);
    isolated(args, k_target)
}

pub fn run(args: &Args) -> ! {
    if let Some(p) = args.extra.get("probe") {
        probe_child(p);
    }
    if let Some(w) = args.replay_witness() {
        let w = if w.get("witness").is_some() { w["witness"].clone() } else { w };
        finish_replay(replay(&w, args), "C37");
    }
    if !args.extra.contains_key("inner") {
        supervise(args);
    }
    let dl = args.deadline();
    let mut rep = Report::new("C37", "exploration");
    let k_target = args.extra_usize("k").unwrap_or(args.tier.pick(3, 4));
    let kinds_seen = std::sync::atomic::AtomicU32::new(0);
    let descs_seen = std::sync::atomic::AtomicU64::new(0);
    let items_seen = std::sync::atomic::AtomicU64::new(0);
    let explore = |w: &[usize], st: &mut Stats| {
        let body: String = w.iter().map(|&i| SIGMA_M[i]).collect();
        for ctx in 0..CONTEXTS.len() {
            let text = comment_text(ctx, &body);
            let tree = LuaParser::parse(&text, ParserConfig::default());
            for fl in 0..FLAVOURS.len() {
                let mut c = Case { evals: 0, descs: 0, items: 0, kinds: 0 };
                let fs = check_tree(&text, &tree, fl, None, &mut c);
                st.evaluations += c.evals;
                st.nontrivial += if w.len() >= 2 { c.evals } else { 0 };
                kinds_seen.fetch_or(c.kinds, std::sync::atomic::Ordering::Relaxed);
                descs_seen.fetch_add(c.descs, std::sync::atomic::Ordering::Relaxed);
                items_seen.fetch_add(c.items, std::sync::atomic::Ordering::Relaxed);
                if c.descs == 0 {
                    st.outcome("no-description-node");
                } else if fs.is_empty() {
                    st.outcome(if c.items == 0 { "ok:no-items" } else { "ok:items-in-bounds" });
                }
                if w.len() == 3 && fl == 0 && ctx == 0 && c.items >= 3 && st.samples.len() < 2 {
                    st.sample(|| {
                        let tree = LuaParser::parse(&text, ParserConfig::default());
                        let d = tree.get_chunk_node().descendants::<LuaDocDescription>().next();
                        let items = d.map(|d| parse(flavour(0), &text, d, None)).unwrap_or_default();
                        json!({"text": text, "flavour": FLAVOURS[fl], "items": items.iter().map(|i| format!("{:?}@{:?}", i.kind, i.range)).collect::<Vec<_>>()})
                    });
                }
                for f in fs {
                    st.outcome(&format!("violation:{}", f.0));
                    let mut c2 = Case { evals: 0, descs: 0, items: 0, kinds: 0 };
                    if !check(&text, fl, Some(f.1), &mut c2).iter().any(|g| g.0 == f.0) {
                        die(&format!("C37 finding {} on {text:?} did not reproduce", f.0));
                    }
                    st.violation(make_violation(ctx, w, fl, &f.0));
                }
            }
        }
    };
    let mut chunk_spec = Value::Null;
    let (mut all, done) = if let Some(spec) = args.extra.get("chunk") {
        // Mode B child: words lo..hi of pass k, sequentially, recording the index in flight
        let p: Vec<u64> = spec.split(':').filter_map(|x| x.parse().ok()).collect();
        let (k, lo, hi) = (p[0] as usize, p[1], p[2]);
        chunk_spec = json!([k, lo, hi]);
        let skip_idx: Vec<u64> = args.extra.get("skip-idx").map(|s| s.split(',').filter_map(|x| x.parse().ok()).collect()).unwrap_or_default();
        let marker = args.extra.get("marker").map(|p| crate::sup::Marker::create(std::path::Path::new(p)).unwrap_or_else(|e| die(&format!("marker file: {e}"))));
        let mut st = Stats::default();
        let mut w = Vec::new();
        for idx in lo..hi {
            if skip_idx.contains(&idx) {
                continue;
            }
            if let Some(m) = &marker {
                m.set(idx, "chunk");
            }
            decode_word(idx, SIGMA_M.len() as u64, k, &mut w);
            explore(&w, &mut st);
        }
        (st, Some(k))
    } else {
        par_words(SIGMA_M.len(), 0, k_target, args.threads, &dl, explore)
    };
    let kinds = kinds_seen.load(std::sync::atomic::Ordering::Relaxed);
    let kinds: Vec<&str> = KIND_NAMES.iter().enumerate().filter(|(i, _)| kinds & (1 << i) != 0).map(|(_, n)| *n).collect();
    rep.rule = rule_text(k_target);
    rep.exhaustive = done == Some(k_target);
    rep.bounds = json!({"k_target": k_target, "k_completed": done, "sigma": SIGMA_M, "flavours": FLAVOURS, "contexts": CONTEXTS, "chunk": chunk_spec,
        "description_nodes": descs_seen.load(std::sync::atomic::Ordering::Relaxed), "items_checked_without_cursor": items_seen.load(std::sync::atomic::Ordering::Relaxed),
        "item_kinds_seen": kinds, "wall_cap_s": args.wall_cap_s, "wall_cap_hit": dl.was_hit()});
    rep.assumptions = vec![
        "\"sorted\" is judged as non-decreasing start offsets (the weakest order the statement allows)".into(),
    ];
    all.samples.truncate(MAX_SAMPLES);
    rep.finish(args, all)
}
