mod c22;
mod c23;
mod c34;
mod c37;
mod c40;
mod sup;
mod texts;

fn main() {
    let args = vcore::parse_args();
    match args.prop.as_str() {
        "C22" => c22::run(&args),
        "C23" => c23::run(&args),
        "C34" => c34::run(&args),
        "C37" => c37::run(&args),
        "C40" => c40::run(&args),
        "PROBE" => probe(&args),
        p => vcore::die(&format!("eng_text does not serve {p}")),
    }
}

/// developer aid: `--prop PROBE --what desc|parse|schema|uri --text '...'`
fn probe(args: &vcore::Args) -> ! {
    let text = args.extra.get("text").cloned().unwrap_or_default().replace("\\n", "\n").replace("\\r", "\r");
    match args.extra.get("what").map(|s| s.as_str()).unwrap_or("desc") {
        "desc" => {
            use emmylua_parser::{LuaAstNode, LuaDocDescription, LuaParser, ParserConfig};
            let tree = LuaParser::parse(&text, ParserConfig::default());
            println!("{:#?}", tree.get_red_root());
            for d in tree.get_chunk_node().descendants::<LuaDocDescription>() {
                println!("desc {:?} allowed {:?}", d.syntax().text_range(), c37::allowed_range(&d));
                for fl in 0..c37::FLAVOURS.len() {
                    let items = vcore::catch(|| emmylua_parser_desc::parse(c37::flavour(fl), &text, d.clone(), None));
                    println!("  {}: {:?}", c37::FLAVOURS[fl], items.map(|v| v.iter().map(|i| format!("{:?}@{:?}", i.kind, i.range)).collect::<Vec<_>>()));
                }
            }
        }
        "parse" => {
            let tree = emmylua_parser::LuaParser::parse(&text, emmylua_parser::ParserConfig::default());
            for e in tree.get_errors() {
                println!("{:?} {:?} {}", e.kind, e.range, e.message);
            }
            println!("{} error(s)", tree.get_errors().len());
        }
        "schema" => {
            let v: serde_json::Value = serde_json::from_str(&text).unwrap_or_else(|e| vcore::die(&format!("bad json {e}")));
            let r = schema_to_emmylua::SchemaConverter::new(false).convert(&v);
            println!("root={:?}\n{}", r.root_type_name, r.annotation_text);
            println!("{:?}", c40::judge(&v, false));
        }
        "uri" => {
            let p = std::path::PathBuf::from(&text);
            let u = emmylua_code_analysis::file_path_to_uri(&p);
            println!("{:?} -> {:?} -> {:?}", p, u.as_ref().map(|u| u.as_str().to_string()), u.as_ref().and_then(emmylua_code_analysis::uri_to_file_path));
        }
        w => vcore::die(&format!("unknown probe {w}")),
    }
    std::process::exit(0)
}
