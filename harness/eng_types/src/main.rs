mod c12;
mod c16;
mod c17;
mod c18;
mod common;

#[global_allocator]
static ALLOC: c12::HandlerSafeAlloc = c12::HandlerSafeAlloc;

fn main() {
    let raw: Vec<String> = std::env::args().collect();
    if raw.len() > 2 && raw[1] == "--child" {
        c12::child(&raw[2..]);
    }
    let args = vcore::parse_args();
    match args.prop.as_str() {
        "C12" => c12::run(&args),
        "C16" => c16::run(&args),
        "C17" => c17::run(&args),
        "C18" => c18::run(&args),
        "PROBE" => probe(&args),
        p => vcore::die(&format!("eng_types does not serve {p}")),
    }
}

/// developer aid: `--prop PROBE [--defs <lua>] (--ty <annotation> | --expr <expr>)`
fn probe(args: &vcore::Args) {
    let mut w = common::W::with_defs();
    if let Some(d) = args.extra.get("defs") {
        w.file("extra.lua", &d.replace("\\n", "\n"));
    }
    let t = if let Some(t) = args.extra.get("ty") { w.ty(t) } else { w.expr_ty(args.extra.get("expr").map(|s| s.as_str()).unwrap_or("nil")) };
    match t {
        None => println!("no type"),
        Some(t) => {
            println!("debug : {:?}", t);
            println!("canon : {}", common::canon(&t));
            println!("render: {}", w.render(&t));
            println!("self-accept: {}", w.check(&t, &t));
        }
    }
}
