//! C17 — a type rendered at full detail reads back as the same type.
//!
//! Universe: the statement's sub-grammar (primitives, literals, unions, optionals, arrays, map and
//! record tables, class/alias/enum references), every term up to the depth bound.
//! Ω: t = ty(text); r = humanize_type(db, t, Documentation); ty(r) equals t modulo union member
//! order. Renders carrying the truncation marker `...` are skipped (size-limit proviso); a render
//! in the display-only expanded class view (`Name {` + field lines) is outside the statement
//! (undecided).
use crate::common::*;
use serde_json::{Value, json};
use vcore::*;

/// bases: primitives, literals (incl. strings that need escaping or contain type punctuation), references
pub const BASES17: &[&str] = &[
    "integer", "nil", "string", "boolean", "number", "table", "function", "any", "userdata", "thread", "1", "-1", "0", "true", "false", "'s'",
    "''", "'a b'", "'a|b'", "'a\"b'", "\"a'b\"", "'a\\\\b'", "'?'", "'[]'", "C", "F", "Al", "En", "ML",
];
pub const SMALL17: &[&str] = &["integer", "nil", "'s'", "C", "true"];

// constructors of the sub-grammar: Opt, Arr (unary 0,1); Union, Table, Obj (binary 0,2,3)
const UN17: &[usize] = &[0, 1];
const BIN17: &[usize] = &[0, 2, 3];

fn grow(prev: &[Term], all_so_far: &[Term], small: &[Term]) -> Vec<Term> {
    // terms whose deepest child is in `prev`
    let mut out = Vec::new();
    for &c in UN17 {
        for t in prev {
            out.push(Term::unary(c, t.clone()));
        }
    }
    let _ = all_so_far;
    for &c in BIN17 {
        for t in prev {
            for s in small {
                out.push(Term::binary(c, t.clone(), s.clone()));
                if s != t {
                    out.push(Term::binary(c, s.clone(), t.clone()));
                }
            }
        }
    }
    out
}

#[derive(Debug, PartialEq)]
pub enum V17 {
    Same,
    Truncated,
    DisplayOnly,
    Unresolved,
    Differs { render: String, original: String, readback: String },
}

pub fn eval(w: &mut W, text: &str) -> V17 {
    let Some(t) = w.ty(text) else { return V17::Unresolved };
    let r = w.render(&t);
    if r.contains("...") {
        return V17::Truncated;
    }
    if r.contains("{\n") {
        return V17::DisplayOnly;
    }
    let Some(t2) = w.ty(&r) else { return V17::Differs { render: r, original: sem_canon(w.db(), &t, 0, false), readback: "<no type>".into() } };
    let (a, b) = (sem_canon(w.db(), &t, 0, false), sem_canon(w.db(), &t2, 0, false));
    if a == b { V17::Same } else { V17::Differs { render: r, original: a, readback: b } }
}

const SIMPLE: &[&str] = &["integer", "nil", "string"];

fn judge(t: &Term, st: &mut Stats) {
    let text = t.render();
    st.eval(t.size() > 1);
    match with_ws(|w| eval(w, &text)) {
        Err(_) => {
            st.undecided += 1;
            st.outcome("panic (reported under C12)");
        }
        Ok(V17::Same) => st.outcome("reads back equal"),
        Ok(V17::Truncated) => st.outcome("skipped: render truncated (size limit)"),
        Ok(V17::DisplayOnly) => {
            st.undecided += 1;
            st.outcome("undecided: expanded class view is display-only syntax");
        }
        Ok(V17::Unresolved) => {
            st.undecided += 1;
            st.outcome("undecided: annotation did not resolve");
        }
        Ok(V17::Differs { render, original, readback }) => {
            st.outcome("READS BACK DIFFERENT");
            if !matches!(with_ws(|w| eval(w, &text)), Ok(V17::Differs { .. })) {
                st.undecided += 1;
                return;
            }
            let mut fails = |c: &[Term]| matches!(with_ws(|w| eval(w, &c[0].render())), Ok(V17::Differs { .. }));
            let min = minimise_terms(std::slice::from_ref(t), SIMPLE, &mut fails);
            let mtext = min[0].render();
            let detail = match with_ws(|w| eval(w, &mtext)) {
                Ok(V17::Differs { render, original, readback }) => format!("`{mtext}` is rendered `{render}`, which reads back as {readback} instead of {original}"),
                _ => format!("`{text}` is rendered `{render}`, which reads back as {readback} instead of {original}"),
            };
            st.violation(Violation { signature: "readback-differs".into(), witness: json!({"type": mtext}), detail });
        }
    }
}


// ------------------------------------------------------------------ siblings: "provided the type fits"
//
// The renderer's size limits belong to a nesting depth, not to what was rendered before: a field that is
// rendered in full next to a trivial sibling fits the limit of its position. A record `{x: X, y?: Y}` whose
// two fields each fit next to `integer` must therefore be rendered without truncation (and read back equal).
// Without this, "skipped: truncated" would also excuse a renderer that truncates what fits.

/// types at and around the per-level limits (records of n fields, unions of n members, nesting)
fn wide_family() -> Vec<&'static str> {
    let mut v: Vec<String> = Vec::new();
    for n in [1usize, 2, 3, 4, 5, 6, 8, 9] {
        v.push(format!("{{{}}}", (0..n).map(|i| format!("f{i}: {}", i + 1)).collect::<Vec<_>>().join(", ")));
    }
    for n in [2usize, 3, 4, 5, 6, 7] {
        v.push((1..=n).map(|i| i.to_string()).collect::<Vec<_>>().join("|"));
    }
    v.push("table<string, {a: 1, b: 2, c: 3}>".into());
    v.push("{a: {b: {c: 1}}}".into());
    v.push("{a: 1|2|3, b: string[]}".into());
    v.into_iter().map(|s| &*Box::leak(s.into_boxed_str())).collect()
}

#[derive(Debug, PartialEq)]
enum Sib {
    Ok,
    Skipped,
    Undecided,
    Differs(String),
    TruncatedAlthoughFits(String),
}

fn obj_text(x: &str, y: &str) -> String {
    format!("{{x: {x}, y?: {y}}}")
}

fn eval_siblings(w: &mut W, x: &str, y: &str) -> Sib {
    let whole = obj_text(x, y);
    match eval(w, &whole) {
        V17::Same => Sib::Ok,
        V17::DisplayOnly | V17::Unresolved => Sib::Undecided,
        V17::Differs { render, original, readback } => Sib::Differs(format!("`{whole}` is rendered `{render}`, which reads back as {readback} instead of {original}")),
        V17::Truncated => {
            let alone_x = eval(w, &obj_text(x, "integer"));
            let alone_y = eval(w, &obj_text("integer", y));
            if alone_x == V17::Same && alone_y == V17::Same {
                let t = w.ty(&whole);
                let r = t.map(|t| w.render(&t)).unwrap_or_default();
                Sib::TruncatedAlthoughFits(format!("`{whole}` is rendered `{r}` (truncated), although `{}` and `{}` are each rendered in full and read back equal: both fields fit the size limit of their position", obj_text(x, "integer"), obj_text("integer", y)))
            } else {
                Sib::Skipped
            }
        }
    }
}

fn judge_siblings(x: &Term, y: &'static str, x_first: bool, st: &mut Stats) {
    let (xs, ys) = if x_first { (x.render(), y.to_string()) } else { (y.to_string(), x.render()) };
    st.eval(true);
    let r = with_ws(|w| eval_siblings(w, &xs, &ys));
    match r {
        Err(_) => {
            st.undecided += 1;
            st.outcome("panic (reported under C12)");
        }
        Ok(Sib::Ok) => st.outcome("siblings: reads back equal"),
        Ok(Sib::Skipped) => st.outcome("siblings: skipped, a field is truncated on its own (size limit)"),
        Ok(Sib::Undecided) => {
            st.undecided += 1;
            st.outcome("siblings: undecided");
        }
        Ok(Sib::Differs(_)) | Ok(Sib::TruncatedAlthoughFits(_)) => {
            let sig = if matches!(r, Ok(Sib::Differs(_))) { "readback-differs" } else { "truncated-although-fits" };
            st.outcome(&format!("siblings: {sig}"));
            let same = |w: &mut W, xs: &str, ys: &str| match eval_siblings(w, xs, ys) {
                Sib::Differs(_) => sig == "readback-differs",
                Sib::TruncatedAlthoughFits(_) => sig == "truncated-although-fits",
                _ => false,
            };
            // shrink the generated side structurally; the wide side is replaced by the first (smallest) family member that still fails
            let mut fails = |c: &[Term]| {
                let t = c[0].render();
                let (a, b) = if x_first { (t, y.to_string()) } else { (y.to_string(), t) };
                matches!(with_ws(|w| same(w, &a, &b)), Ok(true))
            };
            let min = minimise_terms(std::slice::from_ref(x), SIMPLE, &mut fails);
            let mx = min[0].render();
            let my = wide_family()
                .into_iter()
                .find(|cand| {
                    let (a, b) = if x_first { (mx.clone(), cand.to_string()) } else { (cand.to_string(), mx.clone()) };
                    matches!(with_ws(|w| same(w, &a, &b)), Ok(true))
                })
                .unwrap_or(y);
            let (a, b) = if x_first { (mx, my.to_string()) } else { (my.to_string(), mx) };
            let detail = match with_ws(|w| eval_siblings(w, &a, &b)) {
                Ok(Sib::Differs(d)) | Ok(Sib::TruncatedAlthoughFits(d)) => d,
                _ => String::new(),
            };
            st.violation(Violation { signature: sig.into(), witness: json!({"x": a, "y": b}), detail });
        }
    }
}

pub fn replay(w: &Value) -> Option<Violation> {
    if let (Some(x), Some(y)) = (w["x"].as_str(), w["y"].as_str()) {
        return match with_ws(|ws| eval_siblings(ws, x, y)) {
            Ok(Sib::Differs(d)) => Some(Violation { signature: "readback-differs".into(), witness: w.clone(), detail: d }),
            Ok(Sib::TruncatedAlthoughFits(d)) => Some(Violation { signature: "truncated-although-fits".into(), witness: w.clone(), detail: d }),
            _ => None,
        };
    }
    let text = w["type"].as_str()?;
    match with_ws(|ws| eval(ws, text)) {
        Ok(V17::Differs { render, original, readback }) => Some(Violation {
            signature: "readback-differs".into(),
            witness: w.clone(),
            detail: format!("`{text}` is rendered `{render}`, which reads back as {readback} instead of {original}"),
        }),
        _ => None,
    }
}

pub fn run(args: &Args) -> ! {
    if let Some(w) = args.replay_witness() {
        let w = if w.get("witness").is_some() { w["witness"].clone() } else { w };
        finish_replay(replay(&w), "C17");
    }
    let dl = args.deadline();
    let mut rep = Report::new("C17", "exploration");
    let max_depth = args.extra_usize("depth").unwrap_or(args.tier.pick(2, 3));
    let bases = base_terms(BASES17);
    let small = base_terms(SMALL17);
    let mut all = Stats::default();
    let mut level: Vec<Term> = bases.clone();
    let mut completed = None;
    let mut sizes = Vec::new();
    for d in 0..=max_depth {
        if d > 0 {
            // depth 1 pairs every base with every base; deeper levels pair with the small set
            level = if d == 1 { grow(&level, &[], &bases) } else { grow(&level, &[], &small) };
        }
        sizes.push(level.len());
        let lv = &level;
        let (st, ok) = par_range(lv.len() as u64, args.threads, &dl, |i, st| {
            let t = &lv[i as usize];
            if i % 4001 == 7 {
                st.sample(|| json!({"depth": d, "type": t.render()}));
            }
            judge(t, st);
        });
        all.merge(st);
        if ok {
            completed = Some(d);
        } else {
            break;
        }
    }
    // sibling phase: every term of depth ≤ 1 next to every member of the wide family, in both field positions
    let wide = wide_family();
    let mut sib_done = false;
    if completed == Some(max_depth) {
        let mut xs: Vec<Term> = bases.clone();
        xs.extend(grow(&bases, &[], &bases));
        let n = (xs.len() * wide.len() * 2) as u64;
        let (st, ok) = par_range(n, args.threads, &dl, |i, st| {
            let i = i as usize;
            let x = &xs[i / (wide.len() * 2)];
            let y = wide[(i / 2) % wide.len()];
            if i % 9001 == 5 {
                st.sample(|| json!({"phase": "siblings", "x": x.render(), "y": y, "x_first": i % 2 == 0}));
            }
            judge_siblings(x, y, i % 2 == 0, st);
        });
        all.merge(st);
        sib_done = ok;
        sizes.push(n as usize);
    }
    rep.rule = format!(
        "every annotation term of depth <= {max_depth} over {} bases {:?} and the constructors T?, T[], T|U, table<K,V>, {{x:T, y?:U}} (depth 1: all base pairs; deeper: the previous level paired with {:?} on either side): humanize_type(.., Documentation) of ty(term), written after `---@type`, must denote a type with the same structural canonical form (union members as a set). Skipped: renders with `...`; undecided: expanded class view. Violations are re-executed and shrunk structurally. Sibling phase: every term of depth <= 1 as one field of `{{x: X, y?: Y}}` next to every member of a family of types at and around the per-level size limits (records of 1-9 fields, unions of 2-7 members, nested tables), in both positions: when each field is rendered in full next to `integer`, the record must be rendered without `...` and read back equal (a truncated render is skipped only if a field is truncated on its own).",
        BASES17.len(), BASES17, SMALL17
    );
    rep.exhaustive = completed == Some(max_depth) && sib_done;
    rep.bounds = json!({"depth_target": max_depth, "depth_completed": completed, "terms_per_depth": sizes, "wall_cap_hit": dl.was_hit()});
    rep.assumptions = vec![
        "function and tuple types are outside the statement and not generated; `unknown` is display-only (not an annotation keyword) and not generated".into(),
        "same type = same structure with union members as a set, alias references transparent, any absorbing, `---@type table` instance = table".into(),
    ];
    rep.finish(args, all)
}
