//! C17 — a type rendered at full detail reads back as the same type.
//!
//! Universe: the statement's sub-grammar (primitives, literals, unions, optionals, arrays, map and
//! record tables, class/alias/enum references), every term up to the depth bound.
//! Ω: t = ty(text); r = humanize_type(db, t, Documentation); ty(r) equals t modulo union member
//! order. Renders carrying the truncation marker `...` are skipped (size-limit proviso); a render
//! in the display-only expanded class view (`Name {` + field lines) is outside the statement
//! (undecided).
use crate::common::*;
use serde_json::{Value, json};
use vcore::*;

/// bases: primitives, literals (incl. strings that need escaping or contain type punctuation), references
pub const BASES17: &[&str] = &[
    "integer", "nil", "string", "boolean", "number", "table", "function", "any", "userdata", "thread", "1", "-1", "0", "true", "false", "'s'",
    "''", "'a b'", "'a|b'", "'a\"b'", "\"a'b\"", "'a\\\\b'", "'?'", "'[]'", "C", "F", "Al", "En", "ML",
];
pub const SMALL17: &[&str] = &["integer", "nil", "'s'", "C", "true"];

// constructors of the sub-grammar: Opt, Arr (unary 0,1); Union, Table, Obj (binary 0,2,3)
const UN17: &[usize] = &[0, 1];
const BIN17: &[usize] = &[0, 2, 3];

fn grow(prev: &[Term], all_so_far: &[Term], small: &[Term]) -> Vec<Term> {
    // terms whose deepest child is in `prev`
    let mut out = Vec::new();
    for &c in UN17 {
        for t in prev {
            out.push(Term::unary(c, t.clone()));
        }
    }
    let _ = all_so_far;
    for &c in BIN17 {
        for t in prev {
            for s in small {
                out.push(Term::binary(c, t.clone(), s.clone()));
                if s != t {
                    out.push(Term::binary(c, s.clone(), t.clone()));
                }
            }
        }
    }
    out
}

#[derive(Debug, PartialEq)]
pub enum V17 {
    Same,
    Truncated,
    DisplayOnly,
    Unresolved,
    Differs { render: String, original: String, readback: String },
}

pub fn eval(w: &mut W, text: &str) -> V17 {
    let Some(t) = w.ty(text) else { return V17::Unresolved };
    let r = w.render(&t);
    if r.contains("...") {
        return V17::Truncated;
    }
    if r.contains("{\n") {
        return V17::DisplayOnly;
    }
    let Some(t2) = w.ty(&r) else { return V17::Differs { render: r, original: sem_canon(w.db(), &t, 0, false), readback: "<no type>".into() } };
    let (a, b) = (sem_canon(w.db(), &t, 0, false), sem_canon(w.db(), &t2, 0, false));
    if a == b { V17::Same } else { V17::Differs { render: r, original: a, readback: b } }
}

const SIMPLE: &[&str] = &["integer", "nil", "string"];

fn judge(t: &Term, st: &mut Stats) {
    let text = t.render();
    st.eval(t.size() > 1);
    match with_ws(|w| eval(w, &text)) {
        Err(_) => {
            st.undecided += 1;
            st.outcome("panic (reported under C12)");
        }
        Ok(V17::Same) => st.outcome("reads back equal"),
        Ok(V17::Truncated) => st.outcome("skipped: render truncated (size limit)"),
        Ok(V17::DisplayOnly) => {
            st.undecided += 1;
            st.outcome("undecided: expanded class view is display-only syntax");
        }
        Ok(V17::Unresolved) => {
            st.undecided += 1;
            st.outcome("undecided: annotation did not resolve");
        }
        Ok(V17::Differs { render, original, readback }) => {
            st.outcome("READS BACK DIFFERENT");
            if !matches!(with_ws(|w| eval(w, &text)), Ok(V17::Differs { .. })) {
                st.undecided += 1;
                return;
            }
            let mut fails = |c: &[Term]| matches!(with_ws(|w| eval(w, &c[0].render())), Ok(V17::Differs { .. }));
            let min = minimise_terms(std::slice::from_ref(t), SIMPLE, &mut fails);
            let mtext = min[0].render();
            let detail = match with_ws(|w| eval(w, &mtext)) {
                Ok(V17::Differs { render, original, readback }) => format!("`{mtext}` is rendered `{render}`, which reads back as {readback} instead of {original}"),
                _ => format!("`{text}` is rendered `{render}`, which reads back as {readback} instead of {original}"),
            };
            st.violation(Violation { signature: "readback-differs".into(), witness: json!({"type": mtext}), detail });
        }
    }
}

pub fn replay(w: &Value) -> Option<Violation> {
    let text = w["type"].as_str()?;
    match with_ws(|ws| eval(ws, text)) {
        Ok(V17::Differs { render, original, readback }) => Some(Violation {
            signature: "readback-differs".into(),
            witness: w.clone(),
            detail: format!("`{text}` is rendered `{render}`, which reads back as {readback} instead of {original}"),
        }),
        _ => None,
    }
}

pub fn run(args: &Args) -> ! {
    if let Some(w) = args.replay_witness() {
        let w = if w.get("witness").is_some() { w["witness"].clone() } else { w };
        finish_replay(replay(&w), "C17");
    }
    let dl = args.deadline();
    let mut rep = Report::new("C17", "exploration");
    let max_depth = args.extra_usize("depth").unwrap_or(args.tier.pick(2, 3));
    let bases = base_terms(BASES17);
    let small = base_terms(SMALL17);
    let mut all = Stats::default();
    let mut level: Vec<Term> = bases.clone();
    let mut completed = None;
    let mut sizes = Vec::new();
    for d in 0..=max_depth {
        if d > 0 {
            // depth 1 pairs every base with every base; deeper levels pair with the small set
            level = if d == 1 { grow(&level, &[], &bases) } else { grow(&level, &[], &small) };
        }
        sizes.push(level.len());
        let lv = &level;
        let (st, ok) = par_range(lv.len() as u64, args.threads, &dl, |i, st| {
            let t = &lv[i as usize];
            if i % 4001 == 7 {
                st.sample(|| json!({"depth": d, "type": t.render()}));
            }
            judge(t, st);
        });
        all.merge(st);
        if ok {
            completed = Some(d);
        } else {
            break;
        }
    }
    rep.rule = format!(
        "every annotation term of depth <= {max_depth} over {} bases {:?} and the constructors T?, T[], T|U, table<K,V>, {{x:T, y?:U}} (depth 1: all base pairs; deeper: the previous level paired with {:?} on either side): humanize_type(.., Documentation) of ty(term), written after `---@type`, must denote a type with the same structural canonical form (union members as a set). Skipped: renders with `...`; undecided: expanded class view. Violations are re-executed and shrunk structurally.",
        BASES17.len(), BASES17, SMALL17
    );
    rep.exhaustive = completed == Some(max_depth);
    rep.bounds = json!({"depth_target": max_depth, "depth_completed": completed, "terms_per_depth": sizes, "wall_cap_hit": dl.was_hit()});
    rep.assumptions = vec![
        "function and tuple types are outside the statement and not generated; `unknown` is display-only (not an annotation keyword) and not generated".into(),
        "same type = same structure with union members as a set, alias references transparent, any absorbing, `---@type table` instance = table".into(),
    ];
    rep.finish(args, all)
}
