//! Shared pieces of the type engines: a reusable workspace per worker thread, the type
//! universe of C16/C17/C18, a structural canonical form of `LuaType` (union members as sets).
use emmylua_code_analysis::{
    DbIndex, DiagnosticCode, Emmyrc, EmmyrcLuaVersion, FileId, LuaType, RenderLevel, VirtualWorkspace, humanize_type,
};
use emmylua_parser::{LuaAstNode, LuaAstToken, LuaLocalName};
use std::sync::Arc;
use tokio_util::sync::CancellationToken;

pub struct W {
    pub vw: VirtualWorkspace,
    /// per-workspace cache slot for precomputed types (C16 L5 letters)
    pub cache: Vec<LuaType>,
}

/// declarations every C16/C17/C18 workspace carries
pub const DEFS: &str = r#"
---@class C
---@class D: C
---@class E: D
---@class X
---@class M: C, X
---@class G<T>
---@class H<T>: C
---@class F
---@field x integer
---@field y string?
---@alias Al integer|string
---@alias AlC C
---@enum En
local En = { A = 1, B = 2 }
---@alias ML
---| 'a' # first
---| 'b' # second
---@class K0
---@class K1: K0
---@class K2: K1
---@class K3: K2
---@class K4: K3
---@class K5: K4
---@class K6: K5
"#;

impl W {
    pub fn new() -> W {
        W { vw: VirtualWorkspace::new_with_init_std_lib(), cache: Vec::new() }
    }
    pub fn with_defs() -> W {
        let mut w = W::new();
        w.file("defs.lua", DEFS);
        crate::c18::ws_init(&mut w);
        w
    }
    pub fn db(&self) -> &DbIndex {
        self.vw.analysis.compilation.get_db()
    }
    pub fn file(&mut self, name: &str, text: &str) -> FileId {
        self.vw.def_file(name, text)
    }
    pub fn remove(&mut self, name: &str) {
        let uri = self.vw.virtual_url_generator.new_uri(name);
        self.vw.analysis.remove_file_by_uri(&uri);
    }
    pub fn set_config(&mut self, rc: Emmyrc) {
        self.vw.analysis.update_config(Arc::new(rc));
    }
    /// type of the first local name of a file
    pub fn first_local_type(&mut self, file_id: FileId) -> Option<LuaType> {
        let tree = self.db().get_vfs().get_syntax_tree(&file_id)?;
        let local_name = tree.get_chunk_node().descendants::<LuaLocalName>().next()?;
        let token = local_name.get_name_token()?;
        let model = self.vw.analysis.compilation.get_semantic_model(file_id)?;
        let info = model.get_semantic_info(token.syntax().clone().into())?;
        Some(info.typ)
    }
    /// the type an annotation text denotes (`---@type <repr>` on a local)
    pub fn ty(&mut self, repr: &str) -> Option<LuaType> {
        let id = self.file("probe_ty.lua", &format!("---@type {}\nlocal t", repr));
        self.first_local_type(id)
    }
    /// the inferred type of an expression
    pub fn expr_ty(&mut self, expr: &str) -> Option<LuaType> {
        self.expr_ty_in("probe_ex.lua", expr)
    }
    /// same, in a file of its own (types that point into the file stay valid)
    pub fn expr_ty_in(&mut self, file: &str, expr: &str) -> Option<LuaType> {
        let id = self.file(file, &format!("local t = {}", expr));
        self.first_local_type(id)
    }
    /// `---@param a GIVEN / local function f(a) ---@type EXPECTED local b = a end`:
    /// (inferred type of the value expression `a`, assign-type-mismatch messages)
    pub fn assign_probe(&mut self, expected: &str, given: &str) -> (Option<LuaType>, Vec<String>) {
        self.only_diag(DiagnosticCode::AssignTypeMismatch);
        let text = format!("---@param a {given}\nlocal function f(a)\n    ---@type {expected}\n    local b = a\nend\n");
        let id = self.file("probe_as.lua", &text);
        let msgs: Vec<String> = self
            .vw
            .analysis
            .diagnose_file(id, CancellationToken::new())
            .unwrap_or_default()
            .into_iter()
            .filter(|d| matches!(&d.code, Some(lsp_types::NumberOrString::String(s)) if s == "assign-type-mismatch"))
            .map(|d| d.message)
            .collect();
        let inferred = (|| {
            let tree = self.db().get_vfs().get_syntax_tree(&id)?;
            let stat = tree.get_chunk_node().descendants::<emmylua_parser::LuaLocalStat>().next()?;
            let e = stat.get_value_exprs().next()?;
            let model = self.vw.analysis.compilation.get_semantic_model(id)?;
            model.infer_expr(e).ok()
        })();
        (inferred, msgs)
    }
    pub fn check(&self, source: &LuaType, compact: &LuaType) -> bool {
        self.vw.check_type(source, compact)
    }
    pub fn render(&self, t: &LuaType) -> String {
        humanize_type(self.db(), t, RenderLevel::Documentation)
    }
    /// diagnostics of one code for a file text (only that code enabled)
    pub fn diag_codes(&mut self, name: &str, text: &str) -> Vec<(String, String)> {
        let id = self.file(name, text);
        let res = self.vw.analysis.diagnose_file(id, CancellationToken::new()).unwrap_or_default();
        res.into_iter()
            .map(|d| {
                let code = match d.code {
                    Some(lsp_types::NumberOrString::String(s)) => s,
                    Some(lsp_types::NumberOrString::Number(n)) => n.to_string(),
                    None => String::new(),
                };
                (code, d.message)
            })
            .collect()
    }
    pub fn only_diag(&mut self, code: DiagnosticCode) {
        self.vw.analysis.diagnostic.enable_only(code);
    }
}

thread_local! {
    pub static TLW: std::cell::RefCell<Option<W>> = const { std::cell::RefCell::new(None) };
}
/// run `f` with this thread's reusable workspace (created with DEFS on first use). If `f`
/// panics the workspace is discarded (its state may be torn).
pub fn with_ws<R>(f: impl FnOnce(&mut W) -> R) -> Result<R, String> {
    TLW.with(|c| {
        let mut slot = c.borrow_mut();
        if slot.is_none() {
            *slot = Some(W::with_defs());
        }
        let w = slot.as_mut().unwrap();
        let r = vcore::catch(|| f(w));
        if r.is_err() {
            *slot = None;
        }
        r
    })
}

// ------------------------------------------------------------------ canonical form

fn flatten_union(t: &LuaType, out: &mut Vec<String>) {
    match t {
        LuaType::Union(u) => {
            for m in u.into_vec() {
                flatten_union(&m, out);
            }
        }
        _ => out.push(canon(t)),
    }
}

/// flattened member set of a type seen as a union (a non-union is its own single member)
pub fn members(t: &LuaType) -> Vec<String> {
    let mut v = Vec::new();
    flatten_union(t, &mut v);
    v.sort();
    v.dedup();
    v
}

/// Structural canonical text: equal iff the types are equal modulo union member order and
/// duplicate union members.
pub fn canon(t: &LuaType) -> String {
    match t {
        LuaType::Union(_) => {
            let m = members(t);
            if m.len() == 1 { m[0].clone() } else { format!("U({})", m.join(" | ")) }
        }
        LuaType::Array(a) => format!("Arr({};{:?})", canon(a.get_base()), a.get_len()),
        LuaType::Tuple(tp) => {
            let v: Vec<String> = tp.get_types().iter().map(canon).collect();
            format!("Tup({};{:?})", v.join(", "), tp.status)
        }
        LuaType::Object(o) => {
            let mut f: Vec<String> = o.get_fields().iter().map(|(k, v)| format!("{:?}: {}", k, canon(v))).collect();
            f.sort();
            let a: Vec<String> = o.get_index_access().iter().map(|(k, v)| format!("[{}]: {}", canon(k), canon(v))).collect();
            format!("Obj({} ; {})", f.join(", "), a.join(", "))
        }
        LuaType::TableGeneric(v) => {
            let v: Vec<String> = v.iter().map(canon).collect();
            format!("Tbl<{}>", v.join(", "))
        }
        LuaType::Generic(g) => {
            let v: Vec<String> = g.get_params().iter().map(canon).collect();
            format!("Gen({:?}<{}>)", g.get_base_type_id(), v.join(", "))
        }
        LuaType::DocFunction(f) => {
            let p: Vec<String> = f
                .get_params()
                .iter()
                .map(|(n, t)| format!("{}: {}", n, t.as_ref().map(canon).unwrap_or_else(|| "-".into())))
                .collect();
            format!("Fun({:?};{};{};{}) -> {}", f.get_async_state(), f.is_colon_define(), f.is_variadic(), p.join(", "), canon(f.get_ret()))
        }
        LuaType::Variadic(v) => format!("Var({:?})", v),
        LuaType::MultiLineUnion(m) => {
            let v: Vec<String> = m.get_unions().iter().map(|(t, _)| canon(t)).collect();
            format!("ML({})", v.join(" | "))
        }
        LuaType::Intersection(i) => {
            let v: Vec<String> = i.get_types().iter().map(canon).collect();
            format!("And({})", v.join(" & "))
        }
        other => format!("{:?}", other),
    }
}

/// "The same type", as weakly as the statement allows: union members as a set; a reference to
/// a (non-generic) alias is the aliased type; `any`/`unknown` absorb a union; the table
/// instance that `---@type table` creates for its variable is `table`.
fn sem_members(db: &DbIndex, t: &LuaType, depth: u32, widen: bool, out: &mut Vec<String>) {
    match t {
        LuaType::Union(u) => {
            for m in u.into_vec() {
                sem_members(db, &m, depth, widen, out);
            }
        }
        LuaType::MultiLineUnion(m) => {
            for (m, _) in m.get_unions() {
                sem_members(db, m, depth, widen, out);
            }
        }
        LuaType::Ref(id) if depth < 8 => {
            let origin = db.get_type_index().get_type_decl(id).filter(|d| d.is_alias()).and_then(|d| d.get_alias_origin(db, None));
            match origin {
                Some(o) => sem_members(db, &o, depth + 1, widen, out),
                None => out.push(canon(t)),
            }
        }
        _ => out.push(sem_canon(db, t, depth, widen)),
    }
}

pub fn sem_canon(db: &DbIndex, t: &LuaType, depth: u32, widen: bool) -> String {
    match t {
        LuaType::IntegerConst(_) | LuaType::DocIntegerConst(_) if widen => "Integer".into(),
        LuaType::FloatConst(_) if widen => "Number".into(),
        LuaType::StringConst(_) | LuaType::DocStringConst(_) if widen => "String".into(),
        LuaType::BooleanConst(_) | LuaType::DocBooleanConst(_) if widen => "Boolean".into(),
        LuaType::Union(_) | LuaType::MultiLineUnion(_) | LuaType::Ref(_) => {
            let mut m = Vec::new();
            sem_members(db, t, depth, widen, &mut m);
            m.sort();
            m.dedup();
            for top in ["Any", "Unknown"] {
                if m.iter().any(|x| x == top) {
                    return top.to_string();
                }
            }
            if m.len() == 1 { m[0].clone() } else { format!("U({})", m.join(" | ")) }
        }
        LuaType::TableConst(_) => "Table".into(),
        LuaType::Array(a) => format!("Arr({};{:?})", sem_canon(db, a.get_base(), depth, widen), a.get_len()),
        LuaType::Object(o) => {
            let mut f: Vec<String> = o.get_fields().iter().map(|(k, v)| format!("{:?}: {}", k, sem_canon(db, v, depth, widen))).collect();
            f.sort();
            let a: Vec<String> = o.get_index_access().iter().map(|(k, v)| format!("[{}]: {}", sem_canon(db, k, depth, widen), sem_canon(db, v, depth, widen))).collect();
            format!("Obj({} ; {})", f.join(", "), a.join(", "))
        }
        LuaType::TableGeneric(v) => {
            let v: Vec<String> = v.iter().map(|x| sem_canon(db, x, depth, widen)).collect();
            format!("Tbl<{}>", v.join(", "))
        }
        LuaType::Tuple(tp) => {
            let v: Vec<String> = tp.get_types().iter().map(|x| sem_canon(db, x, depth, widen)).collect();
            format!("Tup({})", v.join(", "))
        }
        LuaType::Generic(g) => {
            let v: Vec<String> = g.get_params().iter().map(|x| sem_canon(db, x, depth, widen)).collect();
            format!("Gen({:?}<{}>)", g.get_base_type_id(), v.join(", "))
        }
        other => canon(other),
    }
}


pub fn short(t: &LuaType) -> String {
    let s = format!("{:?}", t);
    if s.len() > 300 { format!("{}…", s.chars().take(300).collect::<String>()) } else { s }
}

pub fn contains_kind(t: &LuaType, pred: &dyn Fn(&LuaType) -> bool) -> bool {
    if pred(t) {
        return true;
    }
    match t {
        LuaType::Union(u) => u.into_vec().iter().any(|m| contains_kind(m, pred)),
        LuaType::Array(a) => contains_kind(a.get_base(), pred),
        LuaType::Tuple(tp) => tp.get_types().iter().any(|m| contains_kind(m, pred)),
        LuaType::Object(o) => {
            o.get_fields().values().any(|m| contains_kind(m, pred))
                || o.get_index_access().iter().any(|(k, v)| contains_kind(k, pred) || contains_kind(v, pred))
        }
        LuaType::TableGeneric(v) => v.iter().any(|m| contains_kind(m, pred)),
        LuaType::Generic(g) => g.get_params().iter().any(|m| contains_kind(m, pred)),
        LuaType::DocFunction(f) => {
            f.get_params().iter().any(|(_, t)| t.as_ref().is_some_and(|t| contains_kind(t, pred))) || contains_kind(f.get_ret(), pred)
        }
        _ => false,
    }
}

// ------------------------------------------------------------------ configurations (C12)

#[derive(Clone, Debug)]
pub struct CfgSpec {
    pub name: &'static str,
}

pub const CFG_NAMES: &[&str] = &[
    "all-diagnostics", // base: default emmyrc with every diagnostic code enabled
    "default",         // plain default emmyrc
    "Lua5.1",
    "LuaJIT",
    "Lua5.3",
    "Lua5.5",
    "strict.requirePath",
    "strict.typeCall",
    "strict.arrayIndex=false",
    "strict.metaOverrideFileDefine=false",
    "strict.docBaseConstMatchBaseType=false",
    "Lua5.2",
    "Lua5.4",
    "LuaJIT2",
    "LuaJIT3",
];
pub const N_CFG_QUICK: usize = 11;

pub fn emmyrc_for(cfg: usize) -> Emmyrc {
    let mut rc = Emmyrc::default();
    let name = CFG_NAMES[cfg];
    if name != "default" {
        for c in DiagnosticCode::all() {
            rc.diagnostics.enables.push(c);
        }
    }
    match name {
        "Lua5.1" => rc.runtime.version = EmmyrcLuaVersion::Lua51,
        "LuaJIT" => rc.runtime.version = EmmyrcLuaVersion::LuaJIT,
        "LuaJIT2" => rc.runtime.version = EmmyrcLuaVersion::LuaJIT2,
        "LuaJIT3" => rc.runtime.version = EmmyrcLuaVersion::LuaJIT3,
        "Lua5.2" => rc.runtime.version = EmmyrcLuaVersion::Lua52,
        "Lua5.3" => rc.runtime.version = EmmyrcLuaVersion::Lua53,
        "Lua5.4" => rc.runtime.version = EmmyrcLuaVersion::Lua54,
        "Lua5.5" => rc.runtime.version = EmmyrcLuaVersion::Lua55,
        "strict.requirePath" => rc.strict.require_path = true,
        "strict.typeCall" => rc.strict.type_call = true,
        "strict.arrayIndex=false" => rc.strict.array_index = false,
        "strict.metaOverrideFileDefine=false" => rc.strict.meta_override_file_define = false,
        "strict.docBaseConstMatchBaseType=false" => rc.strict.doc_base_const_match_base_type = false,
        _ => {}
    }
    rc
}

// ------------------------------------------------------------------ type terms (C16/C17/C18)

/// annotation-grammar term; `render` gives the annotation text
#[derive(Clone, Debug, PartialEq, Eq, Hash, PartialOrd, Ord)]
pub enum Term {
    Base(&'static str),
    Opt(Box<Term>),
    Arr(Box<Term>),
    Gen(Box<Term>),
    Union(Box<Term>, Box<Term>),
    Tuple(Box<Term>, Box<Term>),
    Table(Box<Term>, Box<Term>),
    Obj(Box<Term>, Box<Term>),
    Fun(Box<Term>, Box<Term>),
}

pub const UNARY: usize = 3;
pub const BINARY: usize = 5;

impl Term {
    pub fn unary(c: usize, a: Term) -> Term {
        match c {
            0 => Term::Opt(a.into()),
            1 => Term::Arr(a.into()),
            _ => Term::Gen(a.into()),
        }
    }
    pub fn binary(c: usize, a: Term, b: Term) -> Term {
        match c {
            0 => Term::Union(a.into(), b.into()),
            1 => Term::Tuple(a.into(), b.into()),
            2 => Term::Table(a.into(), b.into()),
            3 => Term::Obj(a.into(), b.into()),
            _ => Term::Fun(a.into(), b.into()),
        }
    }
    fn atomic(&self) -> bool {
        // a negative literal is a unary minus applied to a type: `-1[]` would negate `1[]`
        !matches!(self, Term::Opt(_) | Term::Union(..) | Term::Fun(..)) && !matches!(self, Term::Base(b) if b.starts_with('-'))
    }
    fn wrapped(&self) -> String {
        if self.atomic() { self.render() } else { format!("({})", self.render()) }
    }
    fn nested(&self) -> String {
        if matches!(self, Term::Fun(..)) { format!("({})", self.render()) } else { self.render() }
    }
    pub fn render(&self) -> String {
        match self {
            Term::Base(s) => s.to_string(),
            Term::Opt(a) => format!("{}?", a.wrapped()),
            Term::Arr(a) => format!("{}[]", a.wrapped()),
            // a nested `fun(..): R` is parenthesised: its return list would swallow a following `, X`
            Term::Gen(a) => format!("G<{}>", a.nested()),
            Term::Union(a, b) => format!("{}|{}", a.wrapped(), b.wrapped()),
            Term::Tuple(a, b) => format!("[{}, {}]", a.nested(), b.nested()),
            Term::Table(a, b) => format!("table<{}, {}>", a.nested(), b.nested()),
            Term::Obj(a, b) => format!("{{x: {}, y?: {}}}", a.nested(), b.nested()),
            Term::Fun(a, b) => format!("fun(a: {}): {}", a.nested(), b.nested()),
        }
    }
    pub fn size(&self) -> usize {
        1 + self.children().iter().map(|c| c.size()).sum::<usize>()
    }
    pub fn children(&self) -> Vec<&Term> {
        match self {
            Term::Base(_) => vec![],
            Term::Opt(a) | Term::Arr(a) | Term::Gen(a) => vec![a],
            Term::Union(a, b) | Term::Tuple(a, b) | Term::Table(a, b) | Term::Obj(a, b) | Term::Fun(a, b) => vec![a, b],
        }
    }
    fn with_children(&self, mut ch: Vec<Term>) -> Term {
        match self {
            Term::Base(s) => Term::Base(s),
            Term::Opt(_) => Term::Opt(ch.remove(0).into()),
            Term::Arr(_) => Term::Arr(ch.remove(0).into()),
            Term::Gen(_) => Term::Gen(ch.remove(0).into()),
            Term::Union(..) => {
                let b = ch.remove(1);
                Term::Union(ch.remove(0).into(), b.into())
            }
            Term::Tuple(..) => {
                let b = ch.remove(1);
                Term::Tuple(ch.remove(0).into(), b.into())
            }
            Term::Table(..) => {
                let b = ch.remove(1);
                Term::Table(ch.remove(0).into(), b.into())
            }
            Term::Obj(..) => {
                let b = ch.remove(1);
                Term::Obj(ch.remove(0).into(), b.into())
            }
            Term::Fun(..) => {
                let b = ch.remove(1);
                Term::Fun(ch.remove(0).into(), b.into())
            }
        }
    }
    /// one-step simplifications: a child in place of the term, a simpler base in place of a
    /// base, or the same step inside one child
    pub fn shrinks(&self, simple: &[&'static str]) -> Vec<Term> {
        let mut out = Vec::new();
        for c in self.children() {
            out.push(c.clone());
        }
        // canonical spelling of an optional
        if let Term::Union(a, b) = self {
            if **b == Term::Base("nil") {
                out.push(Term::Opt(a.clone()));
            } else if **a == Term::Base("nil") {
                out.push(Term::Opt(b.clone()));
            }
        }
        if let Term::Base(b) = self {
            for s in simple {
                if s == b {
                    break;
                }
                out.push(Term::Base(s));
            }
        }
        let ch = self.children();
        for (i, c) in ch.iter().enumerate() {
            for s in c.shrinks(simple) {
                let mut v: Vec<Term> = ch.iter().map(|x| (*x).clone()).collect();
                v[i] = s;
                out.push(self.with_children(v));
            }
        }
        out
    }
    pub fn contains_base(&self, pred: &dyn Fn(&str) -> bool) -> bool {
        match self {
            Term::Base(b) => pred(b),
            _ => self.children().iter().any(|c| c.contains_base(pred)),
        }
    }
    pub fn has(&self, pred: &dyn Fn(&Term) -> bool) -> bool {
        pred(self) || self.children().iter().any(|c| c.has(pred))
    }
}

/// greedy structural minimisation of a tuple of terms while `fails` keeps holding
pub fn minimise_terms(terms: &[Term], simple: &[&'static str], fails: &mut dyn FnMut(&[Term]) -> bool) -> Vec<Term> {
    let mut cur = terms.to_vec();
    loop {
        let mut progressed = false;
        'search: for i in 0..cur.len() {
            for s in cur[i].shrinks(simple) {
                let mut cand = cur.clone();
                cand[i] = s;
                if fails(&cand) {
                    cur = cand;
                    progressed = true;
                    break 'search;
                }
            }
        }
        if !progressed {
            return cur;
        }
    }
}

/// bases of the C16 universe (DESIGN §4 C16) — order = "simplest first" for the minimiser
pub const BASES: &[&str] = &[
    "integer", "nil", "string", "boolean", "number", "table", "function", "any", "unknown", "'s'", "1", "true", "C", "D", "E", "G<integer>", "Al", "En",
    "M", "F", "AlC", "ML",
];
/// small base set used where a full product would be too large
pub const BASES_SMALL: &[&str] = &["integer", "nil", "'s'", "C"];

pub fn base_terms(names: &[&'static str]) -> Vec<Term> {
    names.iter().map(|b| Term::Base(b)).collect()
}

/// depth-1 universe: bases, every unary constructor over a base, every binary constructor over base pairs
pub fn universe1() -> Vec<Term> {
    let b = base_terms(BASES);
    let mut out = b.clone();
    for c in 0..UNARY {
        for x in &b {
            out.push(Term::unary(c, x.clone()));
        }
    }
    for c in 0..BINARY {
        for x in &b {
            for y in &b {
                out.push(Term::binary(c, x.clone(), y.clone()));
            }
        }
    }
    out
}
