//! C16 — subtyping laws L1–L5 through the public type-check API and the
//! assign-type-mismatch diagnostic.
//!
//! L1 a value of type T is accepted where T is expected          check(ty(T), ty(T))
//! L2 each member of a union is accepted where the union is      check(ty(T|U), ty(T)), check(ty(T|U), ty(U))
//! L3 a class is accepted where any ancestor is expected          check(ty(Anc), ty(Desc))
//! L4 any / unknown accept everything                             check(any, ty(T)), check(unknown, ty(T))
//! L5 union_all(ts) == left fold of TypeOps::Union over ts        (same flattened member set)
//! Every law is also observed through the diagnostic: no `assign-type-mismatch` on
//! `---@param a GIVEN … ---@type EXPECTED local b = a`.
use crate::common::*;
use emmylua_code_analysis::{LuaType, LuaTypeDeclId, TypeOps};
use serde_json::{Value, json};
use vcore::*;

#[derive(Clone, Copy, Debug, PartialEq, Eq)]
pub enum Law {
    L1,
    L1Diag,
    L2,
    L2Diag,
    L3,
    L3Diag,
    L4Any,
    L4Unknown,
    L4Diag,
}
impl Law {
    pub fn name(self) -> &'static str {
        match self {
            Law::L1 => "L1-self-rejected",
            Law::L1Diag => "L1-self-mismatch-diagnostic",
            Law::L2 => "L2-union-member-rejected",
            Law::L2Diag => "L2-union-member-mismatch-diagnostic",
            Law::L3 => "L3-descendant-rejected",
            Law::L3Diag => "L3-descendant-mismatch-diagnostic",
            Law::L4Any => "L4-any-rejects",
            Law::L4Unknown => "L4-unknown-rejects",
            Law::L4Diag => "L4-any-mismatch-diagnostic",
        }
    }
    pub fn from_name(n: &str) -> Option<Law> {
        [Law::L1, Law::L1Diag, Law::L2, Law::L2Diag, Law::L3, Law::L3Diag, Law::L4Any, Law::L4Unknown, Law::L4Diag].into_iter().find(|l| l.name() == n)
    }
}

#[derive(Debug, Clone, PartialEq)]
pub enum Verdict {
    Holds,
    Fails(String),
    Undecided(&'static str),
}

fn union_text(a: &str, b: &str) -> String {
    format!("({a})|({b})")
}

fn diag_accepts(w: &mut W, expected: &str, given: &str) -> Verdict {
    let Some(g) = w.ty(given) else { return Verdict::Undecided("given type did not resolve") };
    let (inferred, msgs) = w.assign_probe(expected, given);
    let Some(inferred) = inferred else { return Verdict::Undecided("value expression has no type") };
    if canon(&inferred) != canon(&g) {
        // the parameter does not carry GIVEN as such (e.g. narrowed): the statement does not apply
        return Verdict::Undecided("value expression is not of the given type");
    }
    if msgs.is_empty() { Verdict::Holds } else { Verdict::Fails(msgs.join(" / ")) }
}

/// evaluate one law instance; `ts` are annotation texts
pub fn eval(w: &mut W, law: Law, ts: &[String]) -> Verdict {
    let accept = |ok: bool, what: String| if ok { Verdict::Holds } else { Verdict::Fails(what) };
    match law {
        Law::L1 => {
            let (Some(a), Some(b)) = (w.ty(&ts[0]), w.ty(&ts[0])) else { return Verdict::Undecided("type did not resolve") };
            if !w.check(&a, &a) {
                return Verdict::Fails(format!("check(T, T) rejects for T = {}", short(&a)));
            }
            accept(w.check(&a, &b), format!("check(T, T') rejects for two parses of the same annotation, T = {}", short(&a)))
        }
        Law::L1Diag => diag_accepts(w, &ts[0], &ts[0]),
        Law::L2 => {
            let u = union_text(&ts[0], &ts[1]);
            let (Some(ut), Some(m)) = (w.ty(&u), w.ty(&ts[2])) else { return Verdict::Undecided("type did not resolve") };
            accept(w.check(&ut, &m), format!("check({}, {}) rejects", short(&ut), short(&m)))
        }
        Law::L2Diag => {
            let u = union_text(&ts[0], &ts[1]);
            diag_accepts(w, &u, &ts[2])
        }
        Law::L3 => {
            let (Some(a), Some(d)) = (w.ty(&ts[0]), w.ty(&ts[1])) else { return Verdict::Undecided("type did not resolve") };
            accept(w.check(&a, &d), format!("check({}, {}) rejects", short(&a), short(&d)))
        }
        Law::L3Diag => diag_accepts(w, &ts[0], &ts[1]),
        Law::L4Any | Law::L4Unknown => {
            let Some(t) = w.ty(&ts[0]) else { return Verdict::Undecided("type did not resolve") };
            let top = if law == Law::L4Any { LuaType::Any } else { LuaType::Unknown };
            accept(w.check(&top, &t), format!("check({:?}, {}) rejects", top, short(&t)))
        }
        Law::L4Diag => diag_accepts(w, "any", &ts[0]),
    }
}

const SIMPLE: &[&str] = &["integer", "nil", "string"];

fn judge(law: Law, terms: &[Term], st: &mut Stats, nontrivial: bool) {
    let texts: Vec<String> = terms.iter().map(|t| t.render()).collect();
    // L2 carries the member as a third text (either side)
    let run = |texts: &[String]| with_ws(|w| eval(w, law, texts));
    st.eval(nontrivial);
    match run(&texts) {
        Err(p) => {
            st.outcome("panic (reported under C12)");
            st.undecided += 1;
            let _ = p;
        }
        Ok(Verdict::Holds) => st.outcome(&format!("{}: accepted", &law.name()[..2])),
        Ok(Verdict::Undecided(why)) => {
            st.undecided += 1;
            st.outcome(&format!("undecided: {why}"));
        }
        Ok(Verdict::Fails(detail)) => {
            st.outcome(&format!("{}: REJECTED", &law.name()[..2]));
            // determinism before verdict
            if !matches!(run(&texts), Ok(Verdict::Fails(_))) {
                st.undecided += 1;
                st.outcome("not reproduced (undecided)");
                return;
            }
            let min = minimise_law(law, terms);
            st.violation(Violation { signature: law.name().into(), witness: json!({"law": law.name(), "types": min}), detail });
        }
    }
}

/// shrink the terms structurally while the same law keeps failing
fn minimise_law(law: Law, terms: &[Term]) -> Vec<String> {
    let is_l2 = matches!(law, Law::L2 | Law::L2Diag);
    // for L2 the third text is a copy of member `which`
    let which = if is_l2 && terms.len() == 3 && terms[2] == terms[1] && terms[2] != terms[0] { 1 } else { 0 };
    let core: Vec<Term> = if is_l2 { terms[..2].to_vec() } else { terms.to_vec() };
    let expand = |c: &[Term]| -> Vec<String> {
        let mut v: Vec<String> = c.iter().map(|t| t.render()).collect();
        if is_l2 {
            v.push(c[which].render());
        }
        v
    };
    let mut fails = |c: &[Term]| matches!(with_ws(|w| eval(w, law, &expand(c))), Ok(Verdict::Fails(_)));
    let min = minimise_terms(&core, SIMPLE, &mut fails);
    expand(&min)
}

// ------------------------------------------------------------------ L5

#[derive(Clone, Copy)]
enum Src {
    Ann(&'static str),
    Expr(&'static str),
    AliasOrigin(&'static str),
    Never,
}
/// L5 alphabet: every pair class with a pairwise rule in `union_type_impl`, the early-reject
/// members of `can_use_structural_union`, never/any/nil; annotation (Doc*Const) and expression
/// (*Const) forms.
const L5: &[(&str, Src)] = &[
    ("never", Src::Never),
    ("any", Src::Ann("any")),
    ("nil", Src::Ann("nil")),
    ("number", Src::Ann("number")),
    ("integer", Src::Ann("integer")),
    ("expr 1", Src::Expr("1")),
    ("expr 2", Src::Expr("2")),
    ("doc 1", Src::Ann("1")),
    ("expr 1.5", Src::Expr("1.5")),
    ("string", Src::Ann("string")),
    ("expr 's'", Src::Expr("'s'")),
    ("doc 's'", Src::Ann("'s'")),
    ("boolean", Src::Ann("boolean")),
    ("expr true", Src::Expr("true")),
    ("expr false", Src::Expr("false")),
    ("doc true", Src::Ann("true")),
    ("doc false", Src::Ann("false")),
    ("table", Src::Ann("table")),
    ("expr {}", Src::Expr("{}")),
    ("function", Src::Ann("function")),
    ("doc fun()", Src::Ann("fun()")),
    ("expr function() end", Src::Expr("function() end")),
    ("alias Al", Src::Ann("Al")),
    ("class C", Src::Ann("C")),
    ("union integer|string", Src::Ann("integer|string")),
    ("union C?", Src::Ann("C?")),
    ("multi-line union ML", Src::AliasOrigin("ML")),
    ("array integer[]", Src::Ann("integer[]")),
    ("object {x: integer}", Src::Ann("{x: integer}")),
    ("object {x: integer} (2nd parse)", Src::Ann("{x:integer}")),
];

fn l5_types(w: &mut W) -> Vec<LuaType> {
    if w.cache.len() == L5.len() {
        return w.cache.clone();
    }
    let mut v = Vec::new();
    for (i, (name, src)) in L5.iter().enumerate() {
        let t = match src {
            Src::Never => Some(LuaType::Never),
            Src::Ann(a) => w.ty(a),
            Src::Expr(e) => w.expr_ty_in(&format!("l5_{i}.lua"), e),
            Src::AliasOrigin(a) => {
                let id = LuaTypeDeclId::global(a);
                w.db().get_type_index().get_type_decl(&id).and_then(|d| d.get_alias_origin(w.db(), None))
            }
        };
        v.push(t.unwrap_or_else(|| die(&format!("L5 letter {name} has no type"))));
    }
    w.cache = v.clone();
    v
}

/// (batch members, fold members, mutual acceptance where both self-accept)
fn l5_eval(w: &mut W, word: &[usize]) -> Verdict {
    let types = l5_types(w);
    let ts: Vec<LuaType> = word.iter().map(|&i| types[i].clone()).collect();
    let db = w.db();
    let batch = TypeOps::union_all(db, ts.clone());
    let mut fold = LuaType::Never;
    for t in &ts {
        fold = TypeOps::Union.apply(db, &fold, t);
    }
    let (mb, mf) = (members(&batch), members(&fold));
    if mb != mf {
        return Verdict::Fails(format!("union_all = {} but folding TypeOps::Union = {}", short(&batch), short(&fold)));
    }
    if w.check(&batch, &batch) && w.check(&fold, &fold) && !(w.check(&batch, &fold) && w.check(&fold, &batch)) {
        return Verdict::Fails(format!("same members but not mutually accepted: {} vs {}", short(&batch), short(&fold)));
    }
    Verdict::Holds
}

fn l5_names(word: &[usize]) -> Vec<&'static str> {
    word.iter().map(|&i| L5[i].0).collect()
}

fn l5_judge(word: &[usize], st: &mut Stats) {
    st.eval(word.len() > 1);
    let run = |w_: &[usize]| with_ws(|w| l5_eval(w, w_));
    match run(word) {
        Err(_) => {
            st.undecided += 1;
            st.outcome("panic (reported under C12)");
        }
        Ok(Verdict::Holds) => st.outcome("L5: batch == fold"),
        Ok(Verdict::Undecided(w)) => {
            st.undecided += 1;
            st.outcome(&format!("undecided: {w}"));
        }
        Ok(Verdict::Fails(detail)) => {
            st.outcome("L5: batch != fold");
            if !matches!(run(word), Ok(Verdict::Fails(_))) {
                st.undecided += 1;
                return;
            }
            let min = minimise_seq(word, |c| !c.is_empty() && matches!(run(c), Ok(Verdict::Fails(_))));
            st.violation(Violation { signature: "L5-batch-differs-from-fold".into(), witness: json!({"law": "L5", "members": l5_names(&min)}), detail });
        }
    }
}

// ------------------------------------------------------------------ replay

pub fn replay(w: &Value) -> Option<Violation> {
    if w["law"] == "L5" {
        let word: Vec<usize> = w["members"].as_array()?.iter().filter_map(|n| L5.iter().position(|l| Some(l.0) == n.as_str())).collect();
        return match with_ws(|ws| l5_eval(ws, &word)) {
            Ok(Verdict::Fails(d)) => Some(Violation { signature: "L5-batch-differs-from-fold".into(), witness: w.clone(), detail: d }),
            _ => None,
        };
    }
    let law = Law::from_name(w["law"].as_str()?)?;
    let ts: Vec<String> = w["types"].as_array()?.iter().map(|t| t.as_str().unwrap_or("").to_string()).collect();
    match with_ws(|ws| eval(ws, law, &ts)) {
        Ok(Verdict::Fails(d)) => Some(Violation { signature: law.name().into(), witness: w.clone(), detail: d }),
        _ => None,
    }
}

// ------------------------------------------------------------------ run

/// ancestor/descendant pairs: chains C←D←E, K0←…←K6, multiple inheritance, generic child, alias of the ancestor
fn l3_pairs() -> Vec<(String, String)> {
    let mut v: Vec<(String, String)> = [("C", "D"), ("C", "E"), ("D", "E"), ("C", "M"), ("X", "M"), ("C", "H<integer>"), ("AlC", "D"), ("AlC", "E")]
        .iter()
        .map(|(a, b)| (a.to_string(), b.to_string()))
        .collect();
    for i in 0..=6 {
        for j in i + 1..=6 {
            v.push((format!("K{i}"), format!("K{j}")));
        }
    }
    v
}

pub fn run(args: &Args) -> ! {
    if let Some(w) = args.replay_witness() {
        let w = if w.get("witness").is_some() { w["witness"].clone() } else { w };
        finish_replay(replay(&w), "C16");
    }
    let dl = args.deadline();
    let mut rep = Report::new("C16", "exploration");
    let mut all = Stats::default();
    let thorough = args.tier == Tier::Thorough;
    let u1 = universe1();
    let small = base_terms(if thorough { BASES } else { BASES_SMALL });
    let mut done = Vec::new();

    // phase A: L1, L4 (type-check API) over depth ≤ 2
    // index space: U1, then unary(U1), then binary(U1 × small) and binary(small × U1)
    let n1 = u1.len() as u64;
    let n_un = UNARY as u64 * n1;
    let n_bin = BINARY as u64 * 2 * small.len() as u64 * n1;
    let term_at = |i: u64| -> Term {
        if i < n1 {
            u1[i as usize].clone()
        } else if i < n1 + n_un {
            let j = i - n1;
            Term::unary((j / n1) as usize, u1[(j % n1) as usize].clone())
        } else {
            let j = i - n1 - n_un;
            let t = u1[(j % n1) as usize].clone();
            let j = j / n1;
            let s = small[(j % small.len() as u64) as usize].clone();
            let j = j / small.len() as u64;
            let (c, left) = ((j / 2) as usize, j % 2 == 0);
            if left { Term::binary(c, t, s) } else { Term::binary(c, s, t) }
        }
    };
    let total_a = n1 + n_un + n_bin;
    let (st, ok) = par_range(total_a, args.threads, &dl, |i, st| {
        let t = term_at(i);
        if i % 5003 == 0 {
            st.sample(|| json!({"law": "L1/L4", "T": t.render()}));
        }
        for law in [Law::L1, Law::L4Any, Law::L4Unknown] {
            judge(law, std::slice::from_ref(&t), st, t.size() > 1);
        }
        // control, not judged: the unrelated class X as the expected type (shows check_type discriminates)
        if i < n1 {
            let text = t.render();
            if let Ok(Some(acc)) = with_ws(|w| {
                let (x, v) = (w.ty("X")?, w.ty(&text)?);
                Some(w.check(&x, &v))
            }) {
                st.outcome(if acc { "control (unjudged): unrelated class X accepts T" } else { "control (unjudged): unrelated class X rejects T" });
            }
        }
    });
    all.merge(st);
    done.push(("A: L1,L4 via check_type over depth<=2", total_a * 3, ok));

    // phase B: L1, L4 through the diagnostic over depth ≤ 1
    let (st, ok) = par_range(n1, args.threads, &dl, |i, st| {
        let t = &u1[i as usize];
        for law in [Law::L1Diag, Law::L4Diag] {
            judge(law, std::slice::from_ref(t), st, t.size() > 1);
        }
    });
    all.merge(st);
    done.push(("B: L1,L4 via assign-type-mismatch over depth<=1", n1 * 2, ok));

    // phase C: L2 — members T ∈ U1, U ∈ S (bases, unary over bases, binary over the small bases), both orders
    let mut s_set = base_terms(BASES);
    for c in 0..UNARY {
        for b in base_terms(BASES) {
            s_set.push(Term::unary(c, b));
        }
    }
    for c in 0..BINARY {
        for a in base_terms(BASES_SMALL) {
            for b in base_terms(BASES_SMALL) {
                s_set.push(Term::binary(c, a.clone(), b));
            }
        }
    }
    let left_set: &Vec<Term> = if thorough { &u1 } else { &s_set };
    let ns = s_set.len() as u64;
    let total_c = left_set.len() as u64 * ns;
    let (st, ok) = par_range(total_c, args.threads, &dl, |i, st| {
        let t = &left_set[(i / ns) as usize];
        let u = &s_set[(i % ns) as usize];
        if i % 7001 == 0 {
            st.sample(|| json!({"law": "L2", "union": union_text(&t.render(), &u.render())}));
        }
        // T|U accepts T and U; U|T is the case (u, t) of the same enumeration when T ∈ S
        judge(Law::L2, &[t.clone(), u.clone(), t.clone()], st, true);
        judge(Law::L2, &[t.clone(), u.clone(), u.clone()], st, true);
    });
    all.merge(st);
    done.push(("C: L2 via check_type, T x S pairs", total_c * 2, ok));

    // phase C': L2 through the diagnostic over S × S
    let total_c2 = ns * ns;
    let (st, ok) = par_range(total_c2, args.threads, &dl, |i, st| {
        let t = &s_set[(i / ns) as usize];
        let u = &s_set[(i % ns) as usize];
        judge(Law::L2Diag, &[t.clone(), u.clone(), t.clone()], st, true);
        judge(Law::L2Diag, &[t.clone(), u.clone(), u.clone()], st, true);
    });
    all.merge(st);
    done.push(("C': L2 via assign-type-mismatch, S x S pairs", total_c2 * 2, ok));

    // thorough: unions of three members over the bases and unary-over-bases
    if thorough {
        let tri: Vec<Term> = s_set.iter().filter(|t| t.size() <= 2).cloned().collect();
        let nt = tri.len() as u64;
        let total = nt * nt * nt;
        let (st, ok) = par_range(total, args.threads, &dl, |i, st| {
            let (a, b, c) = (&tri[(i / (nt * nt)) as usize], &tri[((i / nt) % nt) as usize], &tri[(i % nt) as usize]);
            let ab = Term::Union(a.clone().into(), b.clone().into());
            for m in [a, b, c] {
                // (a|b)|c accepts each of a, b, c; the third text is the member
                let texts = [ab.render(), c.render(), m.render()];
                st.eval(true);
                match with_ws(|w| eval(w, Law::L2, &texts)) {
                    Ok(Verdict::Holds) => st.outcome("L2: accepted"),
                    Ok(Verdict::Fails(detail)) => {
                        st.outcome("L2: REJECTED");
                        st.violation(Violation { signature: Law::L2.name().into(), witness: json!({"law": Law::L2.name(), "types": texts}), detail });
                    }
                    _ => st.undecided += 1,
                }
            }
        });
        all.merge(st);
        done.push(("C'': L2 three-member unions", total * 3, ok));
    }

    // phase D: L3 — plain references (judged); wrappers are only recorded
    let pairs = l3_pairs();
    let (st, ok) = par_range(pairs.len() as u64, args.threads, &dl, |i, st| {
        let (a, d) = &pairs[i as usize];
        for law in [Law::L3, Law::L3Diag] {
            st.eval(true);
            match with_ws(|w| eval(w, law, &[a.clone(), d.clone()])) {
                Ok(Verdict::Holds) => st.outcome("L3: accepted"),
                Ok(Verdict::Fails(detail)) => {
                    st.outcome("L3: REJECTED");
                    st.violation(Violation { signature: law.name().into(), witness: json!({"law": law.name(), "types": [a, d]}), detail });
                }
                Ok(Verdict::Undecided(w)) => {
                    st.undecided += 1;
                    st.outcome(&format!("undecided: {w}"));
                }
                Err(_) => st.undecided += 1,
            }
        }
        st.sample(|| json!({"law": "L3", "expected": a, "given": d}));
        // not judged (the statement speaks of the classes themselves): wrappers and the reverse direction
        for (wa, wd, label) in [(format!("{a}?"), format!("{d}?"), "T?"), (format!("{a}[]"), format!("{d}[]"), "T[]"), (d.clone(), a.clone(), "reverse")] {
            if let Ok(v) = with_ws(|w| eval(w, Law::L3, &[wa.clone(), wd.clone()])) {
                st.outcome(&format!("L3 unjudged {label}: {}", if v == Verdict::Holds { "accepted" } else { "rejected" }));
            }
        }
    });
    all.merge(st);
    done.push(("D: L3 ancestor pairs", pairs.len() as u64 * 2, ok));

    // phase E: L5 — all sequences of ≤ 3 letters
    let (st, k5) = par_words(L5.len(), 1, 3, args.threads, &dl, |w, st| {
        if w.len() == 3 && w[0] == 5 && w[1] == 3 && w[2] == 9 {
            st.sample(|| json!({"law": "L5", "members": l5_names(w)}));
        }
        l5_judge(w, st);
    });
    all.merge(st);

    let all_ok = done.iter().all(|d| d.2) && k5 == Some(3);
    rep.rule = format!(
        "type universe from the annotation grammar: {} bases {:?}; constructors T?, T[], G<T>, T|U, [T,U], table<K,V>, {{x:T, y?:U}}, fun(a:T):U. U1 = bases + every constructor over bases ({} types). L1/L4 via check_type on U1, unary(U1), binary(U1 x S0) and binary(S0 x U1) with S0 = {:?}; L1/L4 via the assign-type-mismatch diagnostic on U1; L2 (both members) on {} x S with S = bases + unary(bases) + binary(small bases) ({} types) via check_type, S x S via the diagnostic{}; L3 on {} ancestor/descendant pairs (chains of length 1..6, multiple inheritance, generic child, alias of the ancestor) via both channels; L5: every sequence of <= 3 of {} member kinds, TypeOps::union_all vs left fold of TypeOps::Union, same flattened member set (+ mutual acceptance when both self-accept). A failing instance is re-executed, then shrunk structurally (sub-term for term, simpler base for base).",
        BASES.len(), BASES, u1.len(), if thorough { BASES } else { BASES_SMALL }, if thorough { "U1" } else { "S" }, s_set.len(),
        if thorough { "; three-member unions over bases + unary(bases)" } else { "" }, pairs.len(), L5.len()
    );
    rep.exhaustive = all_ok;
    rep.bounds = json!({"depth": 2, "u1": u1.len(), "s": s_set.len(), "phases": done.iter().map(|(n, c, ok)| json!({"phase": n, "instances": c, "completed": ok})).collect::<Vec<_>>(), "l5_k_completed": k5, "wall_cap_hit": dl.was_hit()});
    rep.assumptions = vec![
        "the diagnostic channel judges only when the value expression is inferred as exactly the given type".into(),
        "L3 is judged for plain class references; optional/array wrappers and the reverse direction are recorded, not judged".into(),
    ];
    rep.finish(args, all)
}
