//! C18 — generic functions return their instantiated argument types.
//!
//! Templates × argument types. For a template with declared return `ret(T…)` called with an
//! argument of type A the inferred type R of `local r = f(arg)` must be `ret(A)`: structurally
//! equal (unions as sets, alias references transparent), or equal after widening literal types
//! (`1` → integer, `'s'` → string, …) provided R still accepts `ret(A)`.
use crate::common::*;
use emmylua_code_analysis::{LuaArrayType, LuaType, TypeOps};
use emmylua_parser::{LuaAstNode, LuaAstToken, LuaLocalStat};
use serde_json::{Value, json};
use vcore::*;

pub const TEMPLATES_LUA: &str = r#"
---@generic T
---@param x T
---@return T
function id(x) end

---@generic T
---@param x T
---@return T[]
function arr_of(x) end

---@generic T
---@param x T[]
---@return T
function elem_of(x) end

---@generic K, V
---@param k K
---@param v V
---@return table<K, V>
function mk_table(k, v) end

---@generic K, V
---@param t table<K, V>
---@return K
function key_of(t) end

---@generic K, V
---@param t table<K, V>
---@return V
function val_of(t) end

---@generic T
---@param x T
---@return T?
function opt_of(x) end

---@generic T
---@param f fun(): T
---@return T
function call_of(f) end

---@generic T
---@param ... T
---@return T
function first_of(...) end

---@generic A, B
---@param a A
---@param b B
---@return A
function pick1of2(a, b) end

---@generic A, B
---@param a A
---@param b B
---@return B
function pick2of2(a, b) end

---@generic A, B, C
---@param a A
---@param b B
---@param c C
---@return A
function pick1of3(a, b, c) end

---@generic A, B, C
---@param a A
---@param b B
---@param c C
---@return B
function pick2of3(a, b, c) end

---@generic A, B, C
---@param a A
---@param b B
---@param c C
---@return C
function pick3of3(a, b, c) end

---@return boolean
function m_b() end

---@return string, boolean
function m_sb() end

---@return integer, string, boolean
function m_isb() end
"#;

// ------------------------------------------------------------------ argument lists (Lua call semantics)
//
// An argument list is not a list of values: a call in the last position contributes all its results, a
// call elsewhere only its first. Every list of ≤ 3 arguments over {three typed variables, calls returning
// 1, 2 and 3 values of pairwise different types} is passed to every `pickKofN` template; the declared
// return is the type of the K-th *value* of the expanded list.

/// (expression, types of the values it yields)
const SOURCES: &[(&str, &[&str])] = &[
    ("vi", &["integer"]),
    ("vs", &["string"]),
    ("vb", &["boolean"]),
    ("m_b()", &["boolean"]),
    ("m_sb()", &["string", "boolean"]),
    ("m_isb()", &["integer", "string", "boolean"]),
];
/// (function, parameters, index of the returned parameter)
const PICKS: &[(&str, usize, usize)] = &[("pick1of2", 2, 0), ("pick2of2", 2, 1), ("pick1of3", 3, 0), ("pick2of3", 3, 1), ("pick3of3", 3, 2)];

fn arglist_program(pick: usize, args: &[usize]) -> String {
    format!(
        "---@param vi integer\n---@param vs string\n---@param vb boolean\nlocal function test(vi, vs, vb)\n    local r = {}({})\nend\n",
        PICKS[pick].0,
        args.iter().map(|&a| SOURCES[a].0).collect::<Vec<_>>().join(", ")
    )
}

/// the values an argument list yields: all but the last argument are truncated to their first value
fn expand(args: &[usize]) -> Vec<&'static str> {
    let mut v = Vec::new();
    for (i, &a) in args.iter().enumerate() {
        if i + 1 == args.len() {
            v.extend(SOURCES[a].1.iter().copied());
        } else {
            v.push(SOURCES[a].1[0]);
        }
    }
    v
}

pub fn eval_arglist(w: &mut W, pick: usize, args: &[usize]) -> V18 {
    let vals = expand(args);
    let (_, n, k) = PICKS[pick];
    if vals.len() < n {
        return V18::Undecided("fewer values than parameters (the missing ones are nil; not judged)");
    }
    let Some(want) = w.ty(vals[k]) else { return V18::Undecided("expected type did not resolve") };
    let Some((r, _)) = run_program(w, &arglist_program(pick, args)) else { return V18::Undecided("no type for r") };
    compare(w, &r, &want)
}

type Least = std::sync::Mutex<Option<((usize, usize, Vec<usize>), Violation)>>;

fn judge_arglist(pick: usize, args: &[usize], st: &mut Stats, least: &Least) {
    st.eval(args.len() > 1);
    match with_ws(|w| eval_arglist(w, pick, args)) {
        Err(_) => {
            st.undecided += 1;
            st.outcome("panic (reported under C12)");
        }
        Ok(v) => {
            record(st, &v);
            if let V18::Wrong { got, want } = v {
                let call = format!("{}({})", PICKS[pick].0, args.iter().map(|&a| SOURCES[a].0).collect::<Vec<_>>().join(", "));
                // one witness for the argument-list phase: the shortest list, then the simplest template and sources
                st.raw_violating_cases += 1;
                let v = Violation {
                    signature: "wrong-return".into(),
                    witness: json!({"call": call, "pick": PICKS[pick].0, "args": args.iter().map(|&a| SOURCES[a].0).collect::<Vec<_>>()}),
                    detail: format!("`{call}` (the argument list yields {:?}): inferred {got}, expected {want}", expand(args)),
                };
                let key = (args.len(), pick, args.to_vec());
                let mut l = least.lock().unwrap();
                if l.as_ref().is_none_or(|(k, _)| key < *k) {
                    *l = Some((key, v));
                }
            }
        }
    }
}


#[derive(Clone, Copy, Debug, PartialEq, Eq)]
pub enum Ret {
    T,
    ArrT,
    OptT,
    TableTInt,
    TableStrT,
}

/// (name, parameter annotation(s) built from A, call, declared return shape)
pub struct Tpl {
    pub name: &'static str,
    /// annotation of each test parameter, `{}` = the argument type text
    pub params: &'static [&'static str],
    pub call: &'static str,
    pub ret: Ret,
}

pub const TPLS: &[Tpl] = &[
    Tpl { name: "id: T -> T", params: &["{}"], call: "id(p1)", ret: Ret::T },
    Tpl { name: "arr_of: T -> T[]", params: &["{}"], call: "arr_of(p1)", ret: Ret::ArrT },
    Tpl { name: "elem_of: T[] -> T", params: &["{}[]"], call: "elem_of(p1)", ret: Ret::T },
    Tpl { name: "mk_table: (K,V) -> table<K,V> [K]", params: &["{}", "integer"], call: "mk_table(p1, p2)", ret: Ret::TableTInt },
    Tpl { name: "mk_table: (K,V) -> table<K,V> [V]", params: &["string", "{}"], call: "mk_table(p1, p2)", ret: Ret::TableStrT },
    Tpl { name: "key_of: table<K,V> -> K", params: &["table<{}, integer>"], call: "key_of(p1)", ret: Ret::T },
    Tpl { name: "val_of: table<K,V> -> V", params: &["table<string, {}>"], call: "val_of(p1)", ret: Ret::T },
    Tpl { name: "opt_of: T -> T?", params: &["{}"], call: "opt_of(p1)", ret: Ret::OptT },
    Tpl { name: "call_of: (fun():T) -> T", params: &["fun(): {}"], call: "call_of(p1)", ret: Ret::T },
    Tpl { name: "first_of: T... -> T", params: &["{}"], call: "first_of(p1)", ret: Ret::T },
    Tpl { name: "first_of: T... -> T (two args)", params: &["{}", "{}"], call: "first_of(p1, p2)", ret: Ret::T },
];

/// literal / constructor expressions used directly as the argument
pub const EXPRS: &[&str] = &["1", "1.5", "'s'", "true", "nil", "{}", "{1, 2}", "{x = 1}", "function() end", "-1", "\"\""];
/// templates that take the argument as is (usable with expression arguments)
const DIRECT: &[usize] = &[0, 1, 7, 9];

fn apply_ret(w: &W, ret: Ret, a: &LuaType) -> LuaType {
    match ret {
        Ret::T => a.clone(),
        Ret::ArrT => LuaType::Array(LuaArrayType::from_base_type(a.clone()).into()),
        Ret::OptT => TypeOps::Union.apply(w.db(), a, &LuaType::Nil),
        Ret::TableTInt => LuaType::TableGeneric(vec![a.clone(), LuaType::Integer].into()),
        Ret::TableStrT => LuaType::TableGeneric(vec![LuaType::String, a.clone()].into()),
    }
}

#[derive(Debug, PartialEq)]
pub enum V18 {
    Exact,
    Widened,
    Undecided(&'static str),
    Wrong { got: String, want: String },
}

/// the test program for an annotated argument
fn program(tpl: &Tpl, arg: &str) -> String {
    let mut s = String::new();
    let mut names = Vec::new();
    for (i, p) in tpl.params.iter().enumerate() {
        s.push_str(&format!("---@param p{} {}\n", i + 1, p.replace("{}", &format!("({arg})"))));
        names.push(format!("p{}", i + 1));
    }
    s.push_str(&format!("local function test({})\n    local r = {}\nend\n", names.join(", "), tpl.call));
    s
}

/// (type of `r`, type of the first call argument)
fn run_program(w: &mut W, text: &str) -> Option<(LuaType, Option<LuaType>)> {
    let id = w.file("probe_c18.lua", text);
    let tree = w.db().get_vfs().get_syntax_tree(&id)?;
    let stat = tree.get_chunk_node().descendants::<LuaLocalStat>().next()?;
    let name = stat.get_local_name_list().next()?;
    let tok = name.get_name_token()?;
    let model = w.vw.analysis.compilation.get_semantic_model(id)?;
    let r = model.get_semantic_info(tok.syntax().clone().into())?.typ;
    let arg0 = stat
        .get_value_exprs()
        .next()
        .and_then(|e| match e {
            emmylua_parser::LuaExpr::CallExpr(c) => c.get_args_list(),
            _ => None,
        })
        .and_then(|l| l.get_args().next())
        .and_then(|a| model.infer_expr(a).ok());
    Some((r, arg0))
}

fn compare(w: &W, r: &LuaType, want: &LuaType) -> V18 {
    let db = w.db();
    if sem_canon(db, r, 0, false) == sem_canon(db, want, 0, false) {
        return V18::Exact;
    }
    if sem_canon(db, r, 0, true) == sem_canon(db, want, 0, true) && w.check(r, want) {
        return V18::Widened;
    }
    V18::Wrong { got: short(r), want: short(want) }
}

pub fn eval_annotated(w: &mut W, ti: usize, arg: &str) -> V18 {
    let tpl = &TPLS[ti];
    let Some(a) = w.ty(arg) else { return V18::Undecided("argument annotation did not resolve") };
    let ca = sem_canon(w.db(), &a, 0, false);
    if ca == "Any" || ca == "Unknown" {
        return V18::Undecided("argument type is any/unknown");
    }
    // what the test parameter is declared as (the template's parameter shape around A)
    let Some(p1) = w.ty(&tpl.params[0].replace("{}", &format!("({arg})"))) else { return V18::Undecided("parameter annotation did not resolve") };
    let Some((r, arg0)) = run_program(w, &program(tpl, arg)) else { return V18::Undecided("no type for r") };
    match arg0 {
        Some(t) if canon(&t) == canon(&p1) => {}
        _ => return V18::Undecided("argument expression is not of the declared type"),
    }
    let want = apply_ret(w, tpl.ret, &a);
    compare(w, &r, &want)
}

pub fn eval_expr(w: &mut W, ti: usize, expr: &str) -> V18 {
    let tpl = &TPLS[ti];
    let text = format!("local r = {}\n", tpl.call.replace("p1", expr));
    let Some((r, arg0)) = run_program(w, &text) else { return V18::Undecided("no type for r") };
    let Some(a) = arg0 else { return V18::Undecided("argument expression has no type") };
    let want = apply_ret(w, tpl.ret, &a);
    compare(w, &r, &want)
}

const SIMPLE: &[&str] = &["integer", "nil", "string"];

fn record(st: &mut Stats, v: &V18) {
    match v {
        V18::Exact => st.outcome("returns the instantiated type"),
        V18::Widened => st.outcome("returns the instantiated type, literals widened"),
        V18::Undecided(w) => {
            st.undecided += 1;
            st.outcome(&format!("undecided: {w}"));
        }
        V18::Wrong { .. } => st.outcome("WRONG RETURN TYPE"),
    }
}

fn judge_annotated(ti: usize, t: &Term, st: &mut Stats) {
    let text = t.render();
    st.eval(true);
    match with_ws(|w| eval_annotated(w, ti, &text)) {
        Err(_) => {
            st.undecided += 1;
            st.outcome("panic (reported under C12)");
        }
        Ok(v) => {
            record(st, &v);
            if let V18::Wrong { .. } = v {
                if !matches!(with_ws(|w| eval_annotated(w, ti, &text)), Ok(V18::Wrong { .. })) {
                    st.undecided += 1;
                    return;
                }
                let mut fails = |c: &[Term]| matches!(with_ws(|w| eval_annotated(w, ti, &c[0].render())), Ok(V18::Wrong { .. }));
                let min = minimise_terms(std::slice::from_ref(t), SIMPLE, &mut fails);
                let mtext = min[0].render();
                let detail = match with_ws(|w| eval_annotated(w, ti, &mtext)) {
                    Ok(V18::Wrong { got, want }) => format!("{} with an argument of type `{mtext}`: inferred {got}, expected {want}", TPLS[ti].name),
                    _ => String::new(),
                };
                st.violation(Violation { signature: "wrong-return".into(), witness: json!({"template": TPLS[ti].name, "arg_type": mtext}), detail });
            }
        }
    }
}

fn judge_expr(ti: usize, expr: &str, st: &mut Stats) {
    st.eval(true);
    match with_ws(|w| eval_expr(w, ti, expr)) {
        Err(_) => {
            st.undecided += 1;
            st.outcome("panic (reported under C12)");
        }
        Ok(v) => {
            record(st, &v);
            if let V18::Wrong { got, want } = v {
                st.violation(Violation {
                    signature: "wrong-return".into(),
                    witness: json!({"template": TPLS[ti].name, "arg_expr": expr}),
                    detail: format!("{} with the argument `{expr}`: inferred {got}, expected {want}", TPLS[ti].name),
                });
            }
        }
    }
}

pub fn replay(w: &Value) -> Option<Violation> {
    if let Some(p) = w["pick"].as_str() {
        let pick = PICKS.iter().position(|x| x.0 == p)?;
        let args: Vec<usize> = w["args"].as_array()?.iter().filter_map(|a| SOURCES.iter().position(|s| Some(s.0) == a.as_str())).collect();
        return match with_ws(move |ws| eval_arglist(ws, pick, &args)) {
            Ok(V18::Wrong { got, want }) => Some(Violation { signature: "wrong-return".into(), witness: w.clone(), detail: format!("inferred {got}, expected {want}") }),
            _ => None,
        };
    }
    let ti = TPLS.iter().position(|t| Some(t.name) == w["template"].as_str())?;
    let v = if let Some(a) = w["arg_type"].as_str() {
        with_ws(|ws| eval_annotated(ws, ti, a))
    } else {
        let e = w["arg_expr"].as_str()?.to_string();
        with_ws(move |ws| eval_expr(ws, ti, &e))
    };
    match v {
        Ok(V18::Wrong { got, want }) => Some(Violation { signature: "wrong-return".into(), witness: w.clone(), detail: format!("inferred {got}, expected {want}") }),
        _ => None,
    }
}

pub fn ws_init(w: &mut W) {
    w.file("c18_templates.lua", TEMPLATES_LUA);
}

pub fn run(args: &Args) -> ! {
    if let Some(w) = args.replay_witness() {
        let w = if w.get("witness").is_some() { w["witness"].clone() } else { w };
        finish_replay(replay(&w), "C18");
    }
    let dl = args.deadline();
    let mut rep = Report::new("C18", "exploration");
    let thorough = args.tier == Tier::Thorough;
    let u1 = universe1();
    let small = base_terms(BASES_SMALL);
    let mut all = Stats::default();

    // argument universe: depth ≤ 1 (quick); thorough adds unary(U1) and binary(U1 × small) on either side
    let n1 = u1.len() as u64;
    let n_un = if thorough { UNARY as u64 * n1 } else { 0 };
    let n_bin = if thorough { BINARY as u64 * 2 * small.len() as u64 * n1 } else { 0 };
    let term_at = |i: u64| -> Term {
        if i < n1 {
            u1[i as usize].clone()
        } else if i < n1 + n_un {
            let j = i - n1;
            Term::unary((j / n1) as usize, u1[(j % n1) as usize].clone())
        } else {
            let j = i - n1 - n_un;
            let t = u1[(j % n1) as usize].clone();
            let j = j / n1;
            let s = small[(j % small.len() as u64) as usize].clone();
            let j = j / small.len() as u64;
            if j % 2 == 0 { Term::binary((j / 2) as usize, t, s) } else { Term::binary((j / 2) as usize, s, t) }
        }
    };
    let n_types = n1 + n_un + n_bin;
    let nt = TPLS.len() as u64;
    let (st, ok) = par_range(n_types * nt, args.threads, &dl, |i, st| {
        let (ti, t) = ((i % nt) as usize, term_at(i / nt));
        if i % 2503 == 11 {
            st.sample(|| json!({"template": TPLS[ti].name, "arg_type": t.render(), "program": program(&TPLS[ti], &t.render())}));
        }
        judge_annotated(ti, &t, st);
    });
    all.merge(st);

    let ne = (EXPRS.len() * DIRECT.len()) as u64;
    let (st, ok2) = par_range(ne, args.threads, &dl, |i, st| {
        let (ti, e) = (DIRECT[(i as usize) % DIRECT.len()], EXPRS[(i as usize) / DIRECT.len()]);
        st.sample(|| json!({"template": TPLS[ti].name, "arg_expr": e}));
        judge_expr(ti, e, st);
    });
    all.merge(st);

    // argument lists
    let mut lists: Vec<(usize, Vec<usize>)> = Vec::new();
    for pick in 0..PICKS.len() {
        for len in 1..=3usize {
            for i in 0..SOURCES.len().pow(len as u32) {
                let mut a = Vec::new();
                let mut r = i;
                for _ in 0..len {
                    a.push(r % SOURCES.len());
                    r /= SOURCES.len();
                }
                lists.push((pick, a));
            }
        }
    }
    let least: Least = Default::default();
    let (mut st, ok3) = par_range(lists.len() as u64, args.threads, &dl, |i, st| {
        let (pick, a) = &lists[i as usize];
        if i % 97 == 3 {
            st.sample(|| json!({"program": arglist_program(*pick, a), "values": expand(a)}));
        }
        judge_arglist(*pick, a, st, &least);
    });
    if let Some((_, v)) = least.into_inner().unwrap() {
        st.violation(v);
    }
    all.merge(st);
    let ok2 = ok2 && ok3;
    rep.rule = format!(
        "{} template instances {:?} x every argument type of depth <= {} of the C16 universe ({} types; the argument is a parameter annotated with the template's parameter shape around A) + {} literal/constructor expressions {:?} x the templates that take the argument as is. Oracle: inferred type of `local r = f(arg)` == declared return with T:=A, structurally (unions as sets, aliases transparent), or equal after literal widening while still accepting it. Undecided when A is any/unknown or the argument expression is not inferred as declared. Argument lists: every list of <= 3 arguments over three typed variables and calls returning 1, 2 and 3 values of pairwise different types, passed to pickKofN (N in 2,3): the result is the type of the K-th value of the list as Lua expands it (a call in the last position contributes all its results, elsewhere its first); lists yielding fewer values than parameters are undecided.",
        TPLS.len(), TPLS.iter().map(|t| t.name).collect::<Vec<_>>(), if thorough { 2 } else { 1 }, n_types, EXPRS.len(), EXPRS
    );
    rep.exhaustive = ok && ok2;
    rep.bounds = json!({"arg_types": n_types, "templates": TPLS.len(), "expr_args": EXPRS.len(), "argument_lists": lists.len(), "completed": ok && ok2, "wall_cap_hit": dl.was_hit()});
    rep.finish(args, all)
}
