//! C19 — suppression comments affect exactly their scope.
//!
//! Space: skeleton programs (one statement per line, ≤ 2 nested blocks) over the line alphabet
//! {G0, GI, U, UG, DO, IF, END, BLANK} × one `---@diagnostic` comment (3 kinds × 6 code lists) placed on
//! its own line (indented or not) between any two lines, or trailing after any non-blank line.
//! Oracle: D1 (with the comment) must equal D0 (comment replaced by a plain comment of identical
//! shape) minus exactly the diagnostics in the scope the statement defines — in both directions.
use crate::common::*;
use serde_json::{Value, json};
use vcore::*;

#[derive(Clone, Copy, PartialEq, Eq, Debug, PartialOrd, Ord)]
pub enum L {
    Blank,
    G0,
    GI,
    U,
    UG,
    Do,
    If,
    End,
}
pub const LINES: [L; 8] = [L::Blank, L::G0, L::GI, L::U, L::UG, L::Do, L::If, L::End];

impl L {
    fn name(self) -> &'static str {
        match self {
            L::Blank => "BLANK",
            L::G0 => "G0",
            L::GI => "GI",
            L::U => "U",
            L::UG => "UG",
            L::Do => "DO",
            L::If => "IF",
            L::End => "END",
        }
    }
    fn from_name(s: &str) -> Option<L> {
        LINES.iter().copied().find(|l| l.name() == s)
    }
    /// the source line; `i` makes the names distinct per line so no redefinition diagnostics arise
    fn text(self, i: usize) -> String {
        match self {
            L::Blank => String::new(),
            L::G0 => format!("g{i}()"),
            L::GI => format!("  g{i}()"),
            L::U => format!("local u{i} = 1"),
            L::UG => format!("local v{i} = g{i}()"),
            L::Do => "do".to_string(),
            L::If => format!("if g{i} then"),
            L::End => "end".to_string(),
        }
    }
    fn opener(self) -> bool {
        matches!(self, L::Do | L::If)
    }
    /// simpler kinds to try during minimisation (in order)
    fn simpler(self) -> &'static [L] {
        match self {
            L::Blank => &[],
            L::G0 => &[L::Blank],
            L::GI => &[L::Blank, L::G0],
            L::U => &[L::Blank, L::G0, L::GI],
            L::UG => &[L::Blank, L::G0, L::GI, L::U],
            L::Do => &[],
            L::If => &[L::Do],
            L::End => &[],
        }
    }
}

pub const KINDS: [&str; 3] = ["disable-next-line", "disable-line", "disable"];
/// code lists: none (= every code), the matching codes, a non-matching code, two codes
pub const CODES: [&[&str]; 6] = [
    &[],
    &["undefined-global"],
    &["unused"],
    &["deprecated"],
    &["undefined-global", "unused"],
    &["unused", "deprecated"],
];

#[derive(Clone, Copy, PartialEq, Eq, Debug)]
pub struct Cm {
    pub kind: usize,
    pub codes: usize,
    /// own-line: inserted before skeleton line `pos` (0..=n); trailing: appended to skeleton line `pos`
    pub pos: usize,
    pub trailing: bool,
    pub indent: bool,
}

impl Cm {
    fn text(&self) -> String {
        let mut s = format!("---@diagnostic {}", KINDS[self.kind]);
        if !CODES[self.codes].is_empty() {
            s.push_str(": ");
            s.push_str(&CODES[self.codes].join(", "));
        }
        s
    }
    fn matches(&self, code: &str) -> bool {
        CODES[self.codes].is_empty() || CODES[self.codes].contains(&code)
    }
}

#[derive(Clone, PartialEq, Eq, Debug)]
pub struct Case {
    pub lines: Vec<L>,
    pub cm: Cm,
    pub final_nl: bool,
}

/// balanced, never closes more than it opened, depth ≤ 2
pub fn valid_skeleton(lines: &[L]) -> bool {
    let mut depth = 0i32;
    for l in lines {
        if l.opener() {
            depth += 1;
            if depth > 2 {
                return false;
            }
        } else if *l == L::End {
            depth -= 1;
            if depth < 0 {
                return false;
            }
        }
    }
    depth == 0
}

impl Case {
    pub fn valid(&self) -> bool {
        let n = self.lines.len();
        if !valid_skeleton(&self.lines) {
            return false;
        }
        if self.cm.trailing {
            self.cm.pos < n && self.lines[self.cm.pos] != L::Blank && !self.cm.indent
        } else {
            self.cm.pos <= n
        }
    }

    /// (text with the suppression comment, text with the same-shape plain comment, column where the comment starts)
    pub fn texts(&self) -> (String, String, u32) {
        let cm = self.cm.text();
        // same length, same position, but an ordinary comment: `---@` -> `--  `
        let plain = format!("--  {}", &cm[4..]);
        let build = |c: &str| -> (String, u32) {
            let mut out: Vec<String> = Vec::new();
            let mut col = 0u32;
            for (i, l) in self.lines.iter().enumerate() {
                if !self.cm.trailing && self.cm.pos == i {
                    col = if self.cm.indent { 2 } else { 0 };
                    out.push(format!("{}{}", if self.cm.indent { "  " } else { "" }, c));
                }
                let mut t = l.text(i);
                if self.cm.trailing && self.cm.pos == i {
                    col = t.len() as u32 + 1;
                    t.push(' ');
                    t.push_str(c);
                }
                out.push(t);
            }
            if !self.cm.trailing && self.cm.pos == self.lines.len() {
                col = if self.cm.indent { 2 } else { 0 };
                out.push(format!("{}{}", if self.cm.indent { "  " } else { "" }, c));
            }
            let mut s = out.join("\n");
            if self.final_nl {
                s.push('\n');
            }
            (s, col)
        };
        let (t1, col) = build(&cm);
        let (t0, _) = build(&plain);
        (t1, t0, col)
    }

    pub fn witness(&self) -> Value {
        json!({
            "lines": self.lines.iter().map(|l| l.name()).collect::<Vec<_>>(),
            "comment": {"kind": KINDS[self.cm.kind], "codes": CODES[self.cm.codes].join(","), "at": self.cm.pos,
                        "trailing": self.cm.trailing, "indent": self.cm.indent},
            "final_newline": self.final_nl,
        })
    }

    pub fn from_witness(w: &Value) -> Option<Case> {
        let lines = w["lines"].as_array()?.iter().map(|x| x.as_str().and_then(L::from_name)).collect::<Option<Vec<L>>>()?;
        let c = &w["comment"];
        let kind = KINDS.iter().position(|k| Some(*k) == c["kind"].as_str())?;
        let codes = CODES.iter().position(|k| Some(k.join(",").as_str()) == c["codes"].as_str())?;
        let cm = Cm {
            kind,
            codes,
            pos: c["at"].as_u64()? as usize,
            trailing: c["trailing"].as_bool()?,
            indent: c["indent"].as_bool()?,
        };
        let case = Case { lines, cm, final_nl: w["final_newline"].as_bool()? };
        case.valid().then_some(case)
    }
}

#[derive(Clone, Copy, PartialEq, Eq, Debug)]
enum Class {
    Keep,
    Suppress,
    Open,
    OnComment,
}

pub enum Verdict {
    Ok { d0: usize, suppressed: usize, open: usize, on_comment: usize },
    Undecided(&'static str),
    /// (signature, detail), the first in a deterministic order
    Bad(String, String),
}

struct Blocks {
    /// block ids (outermost first) that contain the diagnostics of skeleton line i
    path: Vec<Vec<u8>>,
    /// innermost block id in force just before skeleton line i (i in 0..=n)
    before: Vec<u8>,
}

fn blocks(lines: &[L]) -> Blocks {
    let mut stack: Vec<u8> = vec![0];
    let mut next = 1u8;
    let mut path = Vec::new();
    let mut before = Vec::new();
    for l in lines {
        before.push(*stack.last().unwrap());
        if l.opener() {
            path.push(stack.clone());
            stack.push(next);
            next += 1;
        } else if *l == L::End {
            stack.pop();
            path.push(stack.clone());
        } else {
            path.push(stack.clone());
        }
    }
    before.push(*stack.last().unwrap());
    Blocks { path, before }
}

/// judge one case given the two observed diagnostic lists
pub fn judge(case: &Case, d1: &[D], d0: &[D], comment_col: u32) -> Verdict {
    let n = case.lines.len();
    let cm = &case.cm;
    let c = cm.pos as u32; // text line of the comment (own-line: the inserted line; trailing: the host line)
    if d0.iter().chain(d1.iter()).any(|d| d.sl != d.el) {
        return Verdict::Undecided("multi-line diagnostic");
    }
    if d0.iter().chain(d1.iter()).any(|d| d.code == "syntax-error" || d.code == "doc-syntax-error") {
        return Verdict::Undecided("skeleton has a syntax error");
    }
    let bl = blocks(&case.lines);
    // candidates for "the enclosing block" of the comment
    let cands: Vec<u8> = if !cm.trailing {
        vec![bl.before[cm.pos]]
    } else if case.lines[cm.pos].opener() {
        // after `do` / `then` on the same line: the statement does not say which block encloses it
        vec![bl.before[cm.pos], bl.before[cm.pos + 1]]
    } else {
        vec![bl.before[cm.pos + 1]]
    };
    let skel_line = |tl: u32| -> Option<usize> {
        let tl = tl as usize;
        if cm.trailing {
            (tl < n).then_some(tl)
        } else if tl < cm.pos {
            Some(tl)
        } else if tl == cm.pos {
            None
        } else {
            (tl - 1 < n).then_some(tl - 1)
        }
    };
    let classify = |d: &D| -> Class {
        if d.sl == c && d.sc >= comment_col {
            return Class::OnComment;
        }
        if !cm.matches(&d.code) {
            return Class::Keep;
        }
        match cm.kind {
            0 => {
                // the comment and the line directly after it
                if d.sl == c + 1 { Class::Suppress } else { Class::Keep }
            }
            1 => {
                if d.sl == c { Class::Suppress } else { Class::Keep }
            }
            _ => {
                let Some(s) = skel_line(d.sl) else { return Class::Open };
                let p = &bl.path[s];
                let all = cands.iter().all(|b| p.contains(b));
                let any = cands.iter().any(|b| p.contains(b));
                if all {
                    Class::Suppress
                } else if !any {
                    Class::Keep
                } else {
                    Class::Open
                }
            }
        }
    };
    let rel = |d: &D| -> String {
        if cm.kind == 2 {
            String::new()
        } else {
            let k = d.sl as i64 - c as i64;
            format!(":line{}{}{}", if k >= 0 { "+" } else { "" }, k, if d.sc == 0 { ":col0" } else { "" })
        }
    };
    let mut keep0: Vec<&D> = Vec::new();
    let (mut n_sup, mut n_open, mut n_onc) = (0, 0, 0);
    for d in d0 {
        match classify(d) {
            Class::Keep => keep0.push(d),
            Class::Suppress => n_sup += 1,
            Class::Open => n_open += 1,
            Class::OnComment => n_onc += 1,
        }
    }
    let mut bad: Vec<(String, String)> = Vec::new();
    // direction 1: everything outside the scope is still reported
    let mut pool: Vec<&D> = d1.iter().collect();
    for d in &keep0 {
        if let Some(i) = pool.iter().position(|x| x == d) {
            pool.remove(i);
        } else {
            bad.push((
                format!("hidden:{}{}", KINDS[cm.kind], rel(d)),
                format!("{} is reported without the comment, lies outside the comment's scope (or has another code), but is hidden", d.short()),
            ));
        }
    }
    // direction 2: nothing inside the scope is still reported, nothing new appears
    for d in pool {
        match classify(d) {
            Class::Suppress => bad.push((
                format!("not-suppressed:{}{}", KINDS[cm.kind], rel(d)),
                format!("{} lies in the comment's scope with a listed code but is still reported", d.short()),
            )),
            Class::Keep => bad.push((
                format!("appeared:{}{}", KINDS[cm.kind], rel(d)),
                format!("{} is reported only when the suppression comment is present", d.short()),
            )),
            Class::Open => {}
            Class::OnComment => n_onc += 1,
        }
    }
    bad.sort();
    match bad.into_iter().next() {
        Some((s, d)) => Verdict::Bad(s, d),
        None => Verdict::Ok { d0: d0.len(), suppressed: n_sup, open: n_open, on_comment: n_onc },
    }
}

/// run one case on a workspace
pub fn run_case(ws: &mut Ws, case: &Case) -> Verdict {
    let (t1, t0, col) = case.texts();
    let Some(d0) = ws.diagnose(&t0) else { return Verdict::Undecided("no diagnostics list") };
    let Some(d1) = ws.diagnose(&t1) else { return Verdict::Undecided("no diagnostics list") };
    judge(case, &flat_sorted(&d1), &flat_sorted(&d0), col)
}

static MEMO: std::sync::Mutex<Option<std::collections::HashMap<String, Option<(String, String)>>>> = std::sync::Mutex::new(None);

fn signature_of(case: &Case, fresh: bool) -> Option<(String, String)> {
    if !case.valid() {
        return None;
    }
    // the minimiser revisits the same small candidates from thousands of raw cases: memoise (non-fresh only)
    let key = case.witness().to_string();
    if !fresh {
        if let Some(v) = MEMO.lock().unwrap().get_or_insert_with(Default::default).get(&key) {
            return v.clone();
        }
    }
    let r = if fresh { with_fresh_ws(|ws| run_case(ws, case)) } else { with_ws(|ws| run_case(ws, case)) };
    let out = match r {
        Ok(Verdict::Bad(s, d)) => Some((s, d)),
        _ => None,
    };
    if !fresh {
        MEMO.lock().unwrap().get_or_insert_with(Default::default).insert(key, out.clone());
    }
    out
}

/// delta-minimise over the engine's own vocabulary while the signature stays the same
pub fn minimise(case: &Case, sig: &str) -> Case {
    let same = |c: &Case| signature_of(c, false).is_some_and(|(s, _)| s == sig);
    let mut cur = case.clone();
    loop {
        let mut progressed = false;
        // drop skeleton lines
        let mut i = 0;
        while i < cur.lines.len() {
            let mut cand = cur.clone();
            cand.lines.remove(i);
            let ok_pos = if cur.cm.trailing {
                if i == cur.cm.pos {
                    false
                } else {
                    if cur.cm.pos > i {
                        cand.cm.pos -= 1;
                    }
                    true
                }
            } else {
                if cur.cm.pos > i {
                    cand.cm.pos -= 1;
                }
                true
            };
            if ok_pos && cand.valid() && same(&cand) {
                cur = cand;
                progressed = true;
            } else {
                i += 1;
            }
        }
        // drop an opener together with a closer (single drops would unbalance the skeleton)
        'pairs: loop {
            for i in 0..cur.lines.len() {
                if !cur.lines[i].opener() {
                    continue;
                }
                for j in i + 1..cur.lines.len() {
                    if cur.lines[j] != L::End {
                        continue;
                    }
                    if cur.cm.trailing && (cur.cm.pos == i || cur.cm.pos == j) {
                        continue;
                    }
                    let mut cand = cur.clone();
                    cand.lines.remove(j);
                    cand.lines.remove(i);
                    let p = cur.cm.pos;
                    cand.cm.pos = p - (p > i) as usize - (p > j) as usize;
                    if cand.valid() && same(&cand) {
                        cur = cand;
                        progressed = true;
                        continue 'pairs;
                    }
                    // `if gN then … end` whose only role is its condition's diagnostic: a plain `gN()` line
                    if cur.lines[i] == L::If {
                        let mut cand = cur.clone();
                        cand.lines.remove(j);
                        cand.lines[i] = L::G0;
                        cand.cm.pos = p - (p > j) as usize;
                        if cand.valid() && same(&cand) {
                            cur = cand;
                            progressed = true;
                            continue 'pairs;
                        }
                    }
                }
            }
            break;
        }
        // moves that keep every other line where it is: a trailing comment's host statement goes away
        // (the comment keeps the line to itself) …
        if cur.cm.trailing && !cur.lines[cur.cm.pos].opener() && cur.lines[cur.cm.pos] != L::End {
            let mut cand = cur.clone();
            cand.lines.remove(cur.cm.pos);
            cand.cm.trailing = false;
            if cand.valid() && same(&cand) {
                cur = cand;
                progressed = true;
            }
        }
        // … and an opener/closer pair becomes two blank lines (or the comment's own line, if it hosted it)
        'blank: loop {
            for i in 0..cur.lines.len() {
                if !cur.lines[i].opener() {
                    continue;
                }
                for j in i + 1..cur.lines.len() {
                    if cur.lines[j] != L::End {
                        continue;
                    }
                    let mut cand = cur.clone();
                    cand.lines[i] = L::Blank;
                    cand.lines[j] = L::Blank;
                    if cur.cm.trailing && (cur.cm.pos == i || cur.cm.pos == j) {
                        cand.lines.remove(cur.cm.pos);
                        cand.cm.trailing = false;
                    }
                    if cand.valid() && same(&cand) {
                        cur = cand;
                        progressed = true;
                        continue 'blank;
                    }
                }
            }
            break;
        }
        // a trailing comment becomes a comment on its own line above its host line
        if cur.cm.trailing {
            let mut cand = cur.clone();
            cand.cm.trailing = false;
            if cand.valid() && same(&cand) {
                cur = cand;
                progressed = true;
            }
        }
        // simpler line kinds
        for i in 0..cur.lines.len() {
            for s in cur.lines[i].simpler() {
                let mut cand = cur.clone();
                cand.lines[i] = *s;
                if cand.valid() && same(&cand) {
                    cur = cand;
                    progressed = true;
                    break;
                }
            }
        }
        // fewer codes, no indent, no final newline
        for k in 0..cur.cm.codes {
            let mut cand = cur.clone();
            cand.cm.codes = k;
            if same(&cand) {
                cur = cand;
                progressed = true;
                break;
            }
        }
        if cur.cm.indent {
            let mut cand = cur.clone();
            cand.cm.indent = false;
            if same(&cand) {
                cur = cand;
                progressed = true;
            }
        }
        if cur.final_nl {
            let mut cand = cur.clone();
            cand.final_nl = false;
            if same(&cand) {
                cur = cand;
                progressed = true;
            }
        }
        if !progressed {
            return cur;
        }
    }
}

fn violation_for(case: &Case, sig: &str) -> Option<Violation> {
    let min = minimise(case, sig);
    // confirm in a brand-new analysis (independent of whatever this thread analysed before)
    let (s2, detail) = signature_of(&min, true)?;
    if s2 != sig {
        return None;
    }
    let (t1, _, _) = min.texts();
    Some(Violation { signature: sig.to_string(), witness: min.witness(), detail: format!("{detail}; program: {t1:?}") })
}

pub fn replay(w: &Value) -> Option<Violation> {
    let case = Case::from_witness(w)?;
    let (sig, detail) = signature_of(&case, true)?;
    let (t1, _, _) = case.texts();
    Some(Violation { signature: sig, witness: w.clone(), detail: format!("{detail}; program: {t1:?}") })
}

/// all comment placements for a skeleton of n lines with at most `max_lines` text lines
fn placements(lines: &[L], max_lines: usize) -> Vec<(usize, bool, bool)> {
    let n = lines.len();
    let mut v = Vec::new();
    if n + 1 <= max_lines {
        for pos in 0..=n {
            v.push((pos, false, false));
            v.push((pos, false, true));
        }
    }
    if n <= max_lines {
        for pos in 0..n {
            if lines[pos] != L::Blank {
                v.push((pos, true, false));
            }
        }
    }
    v
}

pub fn run(args: &Args) -> ! {
    if let Some(w) = args.replay_witness() {
        finish_replay(replay(&w["witness"]).or_else(|| replay(&w)), "C19");
    }
    let dl = args.deadline();
    let mut rep = Report::new("C19", "exploration");
    let max_lines = args.extra_usize("lines").unwrap_or(args.tier.pick(5, 6));
    let mut all = Stats::default();
    let mut completed: Option<usize> = None;
    let mut skeletons = 0u64;
    let not_reproduced = std::sync::atomic::AtomicU64::new(0);
    let panics = std::sync::atomic::AtomicU64::new(0);
    // bound iterated upward: skeletons of n = 0,1,… lines (text lines = n or n+1)
    for n in 0..=max_lines {
        let total = pow(LINES.len() as u64, n as u32);
        let (st, ok) = par_range(total, args.threads, &dl, |i, st| {
            let mut w = Vec::new();
            decode_word(i, LINES.len() as u64, n, &mut w);
            let lines: Vec<L> = w.iter().map(|&x| LINES[x]).collect();
            if !valid_skeleton(&lines) {
                return;
            }
            st.outcome("skeleton");
            for (pos, trailing, indent) in placements(&lines, max_lines) {
                for kind in 0..KINDS.len() {
                    for codes in 0..CODES.len() {
                        for final_nl in [false, true] {
                            let case = Case { lines: lines.clone(), cm: Cm { kind, codes, pos, trailing, indent }, final_nl };
                            let r = with_ws(|ws| run_case(ws, &case));
                            match r {
                                Err(_) => {
                                    panics.fetch_add(1, std::sync::atomic::Ordering::Relaxed);
                                    st.undecided += 1;
                                    st.outcome("panic (undecided here; C12)");
                                }
                                Ok(Verdict::Undecided(why)) => {
                                    st.undecided += 1;
                                    st.outcome(&format!("undecided: {why}"));
                                }
                                Ok(Verdict::Ok { d0, suppressed, open, on_comment }) => {
                                    st.eval(d0 > 0);
                                    if open > 0 {
                                        st.outcome("some diagnostics left open (comment after a block opener)");
                                    }
                                    if on_comment > 0 {
                                        st.outcome("diagnostic on the comment itself (ignored)");
                                    }
                                    st.outcome(if d0 == 0 {
                                        "ok: nothing to suppress"
                                    } else if suppressed == 0 {
                                        "ok: nothing in scope, all kept"
                                    } else if suppressed == d0 {
                                        "ok: everything in scope, all hidden"
                                    } else {
                                        "ok: exactly the scope hidden, rest kept"
                                    });
                                    if suppressed > 0 && suppressed < d0 && (i + pos as u64) % 97 == 0 {
                                        st.sample(|| {
                                            let (t1, _, _) = case.texts();
                                            json!({"program": t1, "diagnostics_without_comment": d0, "hidden_by_comment": suppressed})
                                        });
                                    }
                                }
                                Ok(Verdict::Bad(sig, _)) => {
                                    st.eval(true);
                                    st.outcome(&format!("VIOLATION {}", sig.split(':').next().unwrap_or("")));
                                    match violation_for(&case, &sig) {
                                        Some(v) => st.violation(v),
                                        None => {
                                            not_reproduced.fetch_add(1, std::sync::atomic::Ordering::Relaxed);
                                            st.undecided += 1;
                                            st.outcome("not reproduced in a fresh analysis (not reported)");
                                        }
                                    }
                                }
                            }
                        }
                    }
                }
            }
        });
        skeletons += st.outcomes.get("skeleton").copied().unwrap_or(0);
        all.merge(st);
        if ok {
            completed = Some(n);
        } else {
            break;
        }
    }
    all.outcomes.remove("skeleton");
    rep.rule = format!(
        "every skeleton of ≤{max_lines} text lines over the line alphabet {{BLANK, `gN()` at column 0, indented `gN()`, `local uN = 1`, `local vN = gN()` (two codes on one line), `do`, `if gN then`, `end`}} (balanced, depth ≤ 2) × every `---@diagnostic` comment of kinds {KINDS:?} × code lists {{none, undefined-global, unused, deprecated (non-matching), undefined-global+unused, unused+deprecated}} × every placement (own line before each line / after the last, indented or not; trailing after each non-blank line) × {{with, without}} final newline. Oracle: diagnostics with the comment == diagnostics with the comment turned into a same-length plain comment, minus exactly those whose code is listed (or any code if no list) and whose line is the next line (disable-next-line) / the comment's line (disable-line) / inside the enclosing block, whole file at top level (disable); compared as multisets in both directions. non-trivial = the program has at least one diagnostic. A violating case is minimised and confirmed in a fresh analysis before it is reported."
    );
    rep.exhaustive = completed == Some(max_lines);
    rep.bounds = json!({"max_text_lines": max_lines, "skeleton_lines_completed": completed, "skeletons": skeletons,
        "line_alphabet": LINES.len(), "comment_kinds": KINDS.len(), "code_lists": CODES.len(),
        "wall_cap_s": args.wall_cap_s, "wall_cap_hit": dl.was_hit()});
    rep.assumptions = vec![
        "a trailing `disable` comment on the line of a block opener leaves open which block encloses it: diagnostics between the two candidate blocks are not judged".into(),
        "diagnostics on the comment's own text are ignored; only single-line diagnostics are judged; only \\n line ends".into(),
        "one analysis per worker thread is reused across cases (file replaced in place); every violation is re-confirmed in a fresh analysis".into(),
    ];
    rep.set("not_reproduced_in_fresh_analysis", json!(not_reproduced.load(std::sync::atomic::Ordering::Relaxed)));
    rep.set("panics", json!(panics.load(std::sync::atomic::Ordering::Relaxed)));
    rep.finish(args, all)
}
