//! C19 — suppression comments affect exactly their scope.
//!
//! Space: skeleton programs (one statement per line, ≤ 2 nested blocks) over the line alphabet
//! {G0, GI, U, UG, DO, IF, END, BLANK} × one or two `---@diagnostic` comments (3 kinds × code lists), each on
//! its own line (indented or not) between any two lines, or trailing after any non-blank line.
//! Oracle: D1 (with the comments) must equal D0 (every comment replaced by a plain comment of identical
//! shape) minus exactly the union of the scopes the statement defines — in both directions.
use crate::common::*;
use serde_json::{Value, json};
use vcore::*;

#[derive(Clone, Copy, PartialEq, Eq, Debug, PartialOrd, Ord)]
pub enum L {
    Blank,
    G0,
    GI,
    U,
    UG,
    Do,
    If,
    End,
}
pub const LINES: [L; 8] = [L::Blank, L::G0, L::GI, L::U, L::UG, L::Do, L::If, L::End];

impl L {
    fn name(self) -> &'static str {
        match self {
            L::Blank => "BLANK",
            L::G0 => "G0",
            L::GI => "GI",
            L::U => "U",
            L::UG => "UG",
            L::Do => "DO",
            L::If => "IF",
            L::End => "END",
        }
    }
    fn from_name(s: &str) -> Option<L> {
        LINES.iter().copied().find(|l| l.name() == s)
    }
    /// the source line; `i` makes the names distinct per line so no redefinition diagnostics arise
    fn text(self, i: usize) -> String {
        match self {
            L::Blank => String::new(),
            L::G0 => format!("g{i}()"),
            L::GI => format!("  g{i}()"),
            L::U => format!("local u{i} = 1"),
            L::UG => format!("local v{i} = g{i}()"),
            L::Do => "do".to_string(),
            L::If => format!("if g{i} then"),
            L::End => "end".to_string(),
        }
    }
    fn opener(self) -> bool {
        matches!(self, L::Do | L::If)
    }
    /// simpler kinds to try during minimisation (in order)
    fn simpler(self) -> &'static [L] {
        match self {
            L::Blank => &[],
            L::G0 => &[L::Blank],
            L::GI => &[L::Blank, L::G0],
            L::U => &[L::Blank, L::G0, L::GI],
            L::UG => &[L::Blank, L::G0, L::GI, L::U],
            L::Do => &[],
            L::If => &[L::Do],
            L::End => &[],
        }
    }
}

pub const KINDS: [&str; 3] = ["disable-next-line", "disable-line", "disable"];
/// code lists: none (= every code), the matching codes, a non-matching code, two codes
pub const CODES: [&[&str]; 6] = [
    &[],
    &["undefined-global"],
    &["unused"],
    &["deprecated"],
    &["undefined-global", "unused"],
    &["unused", "deprecated"],
];

/// code lists used when a program carries two comments (every code / one matching code each)
pub const PAIR_CODES: [usize; 3] = [0, 1, 2];

#[derive(Clone, Copy, PartialEq, Eq, Debug)]
pub struct Cm {
    pub kind: usize,
    pub codes: usize,
    /// own-line: inserted before skeleton line `pos` (0..=n); trailing: appended to skeleton line `pos`
    pub pos: usize,
    pub trailing: bool,
    pub indent: bool,
}

impl Cm {
    fn text(&self) -> String {
        let mut s = format!("---@diagnostic {}", KINDS[self.kind]);
        if !CODES[self.codes].is_empty() {
            s.push_str(": ");
            s.push_str(&CODES[self.codes].join(", "));
        }
        s
    }
    fn matches(&self, code: &str) -> bool {
        CODES[self.codes].is_empty() || CODES[self.codes].contains(&code)
    }
    fn json(&self) -> Value {
        json!({"kind": KINDS[self.kind], "codes": CODES[self.codes].join(","), "at": self.pos,
               "trailing": self.trailing, "indent": self.indent})
    }
    fn from_json(c: &Value) -> Option<Cm> {
        Some(Cm {
            kind: KINDS.iter().position(|k| Some(*k) == c["kind"].as_str())?,
            codes: CODES.iter().position(|k| Some(k.join(",").as_str()) == c["codes"].as_str())?,
            pos: c["at"].as_u64()? as usize,
            trailing: c["trailing"].as_bool()?,
            indent: c["indent"].as_bool()?,
        })
    }
}

/// One program: a skeleton plus one or two suppression comments. Comments are kept in text order
/// (own-line comments inserted before the same skeleton line appear in vector order).
#[derive(Clone, PartialEq, Eq, Debug)]
pub struct Case {
    pub lines: Vec<L>,
    pub cms: Vec<Cm>,
    pub final_nl: bool,
}

/// balanced, never closes more than it opened, depth ≤ 2
pub fn valid_skeleton(lines: &[L]) -> bool {
    let mut depth = 0i32;
    for l in lines {
        if l.opener() {
            depth += 1;
            if depth > 2 {
                return false;
            }
        } else if *l == L::End {
            depth -= 1;
            if depth < 0 {
                return false;
            }
        }
    }
    depth == 0
}

/// where things ended up in the text
pub struct Layout {
    pub with_comments: String,
    pub plain_twin: String,
    /// (text line, start column) of each comment, in `cms` order
    pub at: Vec<(u32, u32)>,
    /// text line -> skeleton line (None = a line holding only a comment)
    pub skel: Vec<Option<usize>>,
}

impl Case {
    pub fn valid(&self) -> bool {
        let n = self.lines.len();
        if !valid_skeleton(&self.lines) || self.cms.is_empty() || self.cms.len() > 2 {
            return false;
        }
        for c in &self.cms {
            let ok = if c.trailing { c.pos < n && self.lines[c.pos] != L::Blank && !c.indent } else { c.pos <= n };
            if !ok {
                return false;
            }
        }
        if self.cms.len() == 2 {
            let (a, b) = (&self.cms[0], &self.cms[1]);
            // text order; one line hosts at most one trailing comment; an own-line comment before
            // line p precedes a trailing comment on line p
            if a.pos > b.pos || (a.trailing && b.trailing && a.pos == b.pos) || (a.trailing && !b.trailing && a.pos == b.pos) {
                return false;
            }
        }
        true
    }

    pub fn layout(&self) -> Layout {
        let build = |plain: bool| -> (String, Vec<(u32, u32)>, Vec<Option<usize>>) {
            let text_of = |c: &Cm| {
                let t = c.text();
                // same length, same position, but an ordinary comment: `---@` -> `--  `
                if plain { format!("--  {}", &t[4..]) } else { t }
            };
            let mut out: Vec<String> = Vec::new();
            let mut skel: Vec<Option<usize>> = Vec::new();
            let mut at = vec![(0u32, 0u32); self.cms.len()];
            for i in 0..=self.lines.len() {
                for (k, c) in self.cms.iter().enumerate() {
                    if !c.trailing && c.pos == i {
                        at[k] = (out.len() as u32, if c.indent { 2 } else { 0 });
                        out.push(format!("{}{}", if c.indent { "  " } else { "" }, text_of(c)));
                        skel.push(None);
                    }
                }
                if i < self.lines.len() {
                    let mut t = self.lines[i].text(i);
                    for (k, c) in self.cms.iter().enumerate() {
                        if c.trailing && c.pos == i {
                            at[k] = (out.len() as u32, t.len() as u32 + 1);
                            t.push(' ');
                            t.push_str(&text_of(c));
                        }
                    }
                    out.push(t);
                    skel.push(Some(i));
                }
            }
            let mut s = out.join("\n");
            if self.final_nl {
                s.push('\n');
            }
            (s, at, skel)
        };
        let (with_comments, at, skel) = build(false);
        let (plain_twin, _, _) = build(true);
        Layout { with_comments, plain_twin, at, skel }
    }

    pub fn witness(&self) -> Value {
        let lines = self.lines.iter().map(|l| l.name()).collect::<Vec<_>>();
        if self.cms.len() == 1 {
            json!({"lines": lines, "comment": self.cms[0].json(), "final_newline": self.final_nl})
        } else {
            json!({"lines": lines, "comments": self.cms.iter().map(|c| c.json()).collect::<Vec<_>>(), "final_newline": self.final_nl})
        }
    }

    pub fn from_witness(w: &Value) -> Option<Case> {
        let lines = w["lines"].as_array()?.iter().map(|x| x.as_str().and_then(L::from_name)).collect::<Option<Vec<L>>>()?;
        let cms = if let Some(a) = w["comments"].as_array() {
            a.iter().map(Cm::from_json).collect::<Option<Vec<Cm>>>()?
        } else {
            vec![Cm::from_json(&w["comment"])?]
        };
        let case = Case { lines, cms, final_nl: w["final_newline"].as_bool()? };
        case.valid().then_some(case)
    }
}

#[derive(Clone, Copy, PartialEq, Eq, Debug)]
enum Class {
    Keep,
    Suppress(usize),
    Open,
    OnComment,
}

pub enum Verdict {
    Ok { d0: usize, suppressed: usize, open: usize, on_comment: usize },
    Undecided(&'static str),
    /// (signature, detail), the first in a deterministic order
    Bad(String, String),
}

struct Blocks {
    /// block ids (outermost first) that contain the diagnostics of skeleton line i
    path: Vec<Vec<u8>>,
    /// innermost block id in force just before skeleton line i (i in 0..=n)
    before: Vec<u8>,
}

fn blocks(lines: &[L]) -> Blocks {
    let mut stack: Vec<u8> = vec![0];
    let mut next = 1u8;
    let mut path = Vec::new();
    let mut before = Vec::new();
    for l in lines {
        before.push(*stack.last().unwrap());
        if l.opener() {
            path.push(stack.clone());
            stack.push(next);
            next += 1;
        } else if *l == L::End {
            stack.pop();
            path.push(stack.clone());
        } else {
            path.push(stack.clone());
        }
    }
    before.push(*stack.last().unwrap());
    Blocks { path, before }
}

/// judge one case given the two observed diagnostic lists; the expected suppression is the union
/// of the scopes of all comments of the program
pub fn judge(case: &Case, lay: &Layout, d1: &[D], d0: &[D]) -> Verdict {
    if d0.iter().chain(d1.iter()).any(|d| d.sl != d.el) {
        return Verdict::Undecided("multi-line diagnostic");
    }
    if d0.iter().chain(d1.iter()).any(|d| d.code == "syntax-error" || d.code == "doc-syntax-error") {
        return Verdict::Undecided("skeleton has a syntax error");
    }
    let bl = blocks(&case.lines);
    // candidates for "the enclosing block" of each comment
    let cands: Vec<Vec<u8>> = case
        .cms
        .iter()
        .map(|cm| {
            if !cm.trailing {
                vec![bl.before[cm.pos]]
            } else if case.lines[cm.pos].opener() {
                // after `do` / `then` on the same line: the statement does not say which block encloses it
                vec![bl.before[cm.pos], bl.before[cm.pos + 1]]
            } else {
                vec![bl.before[cm.pos + 1]]
            }
        })
        .collect();
    let comment_only = |tl: u32| lay.skel.get(tl as usize).is_some_and(|s| s.is_none());
    let class_for = |k: usize, d: &D| -> Class {
        let cm = &case.cms[k];
        let (c, _) = lay.at[k];
        if !cm.matches(&d.code) {
            return Class::Keep;
        }
        match cm.kind {
            0 => {
                // "the comment and the line directly after it". When the following line(s) hold only
                // another comment, whether the first code line after them still counts is left open.
                if d.sl == c + 1 {
                    Class::Suppress(k)
                } else if d.sl > c + 1 && (c + 1..d.sl).all(comment_only) {
                    Class::Open
                } else {
                    Class::Keep
                }
            }
            1 => {
                if d.sl == c { Class::Suppress(k) } else { Class::Keep }
            }
            _ => {
                let Some(Some(s)) = lay.skel.get(d.sl as usize) else { return Class::Open };
                let p = &bl.path[*s];
                let all = cands[k].iter().all(|b| p.contains(b));
                let any = cands[k].iter().any(|b| p.contains(b));
                if all {
                    Class::Suppress(k)
                } else if !any {
                    Class::Keep
                } else {
                    Class::Open
                }
            }
        }
    };
    let classify = |d: &D| -> Class {
        if lay.at.iter().any(|(l, col)| d.sl == *l && d.sc >= *col) {
            return Class::OnComment;
        }
        let cs: Vec<Class> = (0..case.cms.len()).map(|k| class_for(k, d)).collect();
        if let Some(s) = cs.iter().find(|c| matches!(c, Class::Suppress(_))) {
            *s
        } else if cs.contains(&Class::Open) {
            Class::Open
        } else {
            Class::Keep
        }
    };
    let kinds = case.cms.iter().map(|c| KINDS[c.kind]).collect::<Vec<_>>().join("+");
    let rel = |k: usize, d: &D| -> String {
        if case.cms[k].kind == 2 {
            String::new()
        } else {
            let r = d.sl as i64 - lay.at[k].0 as i64;
            format!(":line{}{}{}", if r >= 0 { "+" } else { "" }, r, if d.sc == 0 { ":col0" } else { "" })
        }
    };
    let mut keep0: Vec<&D> = Vec::new();
    let (mut n_sup, mut n_open, mut n_onc) = (0, 0, 0);
    for d in d0 {
        match classify(d) {
            Class::Keep => keep0.push(d),
            Class::Suppress(_) => n_sup += 1,
            Class::Open => n_open += 1,
            Class::OnComment => n_onc += 1,
        }
    }
    let mut bad: Vec<(String, String)> = Vec::new();
    // direction 1: everything outside every scope is still reported
    let mut pool: Vec<&D> = d1.iter().collect();
    for d in &keep0 {
        if let Some(i) = pool.iter().position(|x| x == d) {
            pool.remove(i);
        } else {
            let r = if case.cms.len() == 1 { rel(0, d) } else { String::new() };
            bad.push((
                format!("hidden:{kinds}{r}"),
                format!("{} is reported without the comment(s), lies outside every comment's scope (or has another code), but is hidden", d.short()),
            ));
        }
    }
    // direction 2: nothing inside a scope is still reported, nothing new appears
    for d in pool {
        match classify(d) {
            Class::Suppress(k) => bad.push((
                format!("not-suppressed:{}{}{}", KINDS[case.cms[k].kind], rel(k, d), if case.cms.len() == 2 { format!(":with-{}", KINDS[case.cms[1 - k].kind]) } else { String::new() }),
                format!("{} lies in the scope of the {} comment with a listed code but is still reported", d.short(), KINDS[case.cms[k].kind]),
            )),
            Class::Keep => bad.push((
                format!("appeared:{kinds}"),
                format!("{} is reported only when the suppression comment(s) are present", d.short()),
            )),
            Class::Open => {}
            Class::OnComment => n_onc += 1,
        }
    }
    bad.sort();
    match bad.into_iter().next() {
        Some((s, d)) => Verdict::Bad(s, d),
        None => Verdict::Ok { d0: d0.len(), suppressed: n_sup, open: n_open, on_comment: n_onc },
    }
}

/// run one case on a workspace
pub fn run_case(ws: &mut Ws, case: &Case) -> Verdict {
    let lay = case.layout();
    let Some(d0) = ws.diagnose(&lay.plain_twin) else { return Verdict::Undecided("no diagnostics list") };
    let Some(d1) = ws.diagnose(&lay.with_comments) else { return Verdict::Undecided("no diagnostics list") };
    judge(case, &lay, &flat_sorted(&d1), &flat_sorted(&d0))
}

static MEMO: std::sync::Mutex<Option<std::collections::HashMap<String, Option<(String, String)>>>> = std::sync::Mutex::new(None);

fn signature_of(case: &Case, fresh: bool) -> Option<(String, String)> {
    if !case.valid() {
        return None;
    }
    // the minimiser revisits the same small candidates from thousands of raw cases: memoise (non-fresh only)
    let key = case.witness().to_string();
    if !fresh {
        if let Some(v) = MEMO.lock().unwrap().get_or_insert_with(Default::default).get(&key) {
            return v.clone();
        }
    }
    let r = if fresh { with_fresh_ws(|ws| run_case(ws, case)) } else { with_ws(|ws| run_case(ws, case)) };
    let out = match r {
        Ok(Verdict::Bad(s, d)) => Some((s, d)),
        _ => None,
    };
    if !fresh {
        MEMO.lock().unwrap().get_or_insert_with(Default::default).insert(key, out.clone());
    }
    out
}

/// the direction of a failure: hidden / not-suppressed / appeared
fn family(sig: &str) -> &str {
    sig.split(':').next().unwrap_or("")
}

/// remove skeleton line i; None if a trailing comment sits on it
fn without_line(c: &Case, i: usize) -> Option<Case> {
    if c.cms.iter().any(|m| m.trailing && m.pos == i) {
        return None;
    }
    let mut n = c.clone();
    n.lines.remove(i);
    for m in n.cms.iter_mut() {
        if m.pos > i {
            m.pos -= 1;
        }
    }
    Some(n)
}

/// the trailing comment k keeps its line to itself: its host statement goes away
fn host_to_own_line(c: &Case, k: usize) -> Option<Case> {
    let m = c.cms[k];
    if !m.trailing || c.cms.iter().enumerate().any(|(j, o)| j != k && o.trailing && o.pos == m.pos) {
        return None;
    }
    let mut n = c.clone();
    n.lines.remove(m.pos);
    for (j, o) in n.cms.iter_mut().enumerate() {
        if j == k {
            o.trailing = false;
        } else if o.pos > m.pos {
            // comments at or before the host keep their line; later ones keep theirs too because the
            // comment now occupies the host's line
            o.pos -= 1;
        }
    }
    Some(n)
}

/// Delta-minimise over the engine's own vocabulary while the failure stays in the same family
/// (hidden / not-suppressed / appeared). The signature reported is that of the minimal case, so a
/// one-comment defect found in a two-comment program is reported as the one-comment finding.
pub fn minimise(case: &Case, sig: &str) -> Case {
    let fam = family(sig).to_string();
    let same = |c: &Case| c.valid() && signature_of(c, false).is_some_and(|(s, _)| family(&s) == fam);
    let mut cur = case.clone();
    loop {
        let mut progressed = false;
        // one comment instead of two
        if cur.cms.len() == 2 {
            for k in 0..2 {
                let mut cand = cur.clone();
                cand.cms.remove(k);
                if same(&cand) {
                    cur = cand;
                    progressed = true;
                    break;
                }
            }
        }
        // drop skeleton lines
        let mut i = 0;
        while i < cur.lines.len() {
            match without_line(&cur, i) {
                Some(cand) if same(&cand) => {
                    cur = cand;
                    progressed = true;
                }
                _ => i += 1,
            }
        }
        // opener/closer pairs: drop both; `if gN then … end` -> `gN()`; both -> blank lines (numbering kept)
        'pairs: loop {
            for i in 0..cur.lines.len() {
                if !cur.lines[i].opener() {
                    continue;
                }
                for j in i + 1..cur.lines.len() {
                    if cur.lines[j] != L::End {
                        continue;
                    }
                    let mut cands: Vec<Case> = Vec::new();
                    if let Some(a) = without_line(&cur, j).and_then(|a| without_line(&a, i)) {
                        cands.push(a);
                    }
                    if cur.lines[i] == L::If {
                        if let Some(mut a) = without_line(&cur, j) {
                            a.lines[i] = L::G0;
                            cands.push(a);
                        }
                    }
                    {
                        // blank both; a comment trailing on one of them keeps that line to itself
                        let mut a = cur.clone();
                        let mut ok = true;
                        for l in [j, i] {
                            if let Some(k) = a.cms.iter().position(|m| m.trailing && m.pos == l) {
                                match host_to_own_line(&a, k) {
                                    Some(b) => a = b,
                                    None => ok = false,
                                }
                            } else {
                                a.lines[l] = L::Blank;
                            }
                        }
                        if ok {
                            cands.push(a);
                        }
                    }
                    for cand in cands {
                        if same(&cand) {
                            cur = cand;
                            progressed = true;
                            continue 'pairs;
                        }
                    }
                }
            }
            break;
        }
        // a trailing comment's host statement goes away (the comment keeps the line) …
        for k in 0..cur.cms.len() {
            let m = cur.cms[k];
            if m.trailing && !cur.lines[m.pos].opener() && cur.lines[m.pos] != L::End {
                if let Some(cand) = host_to_own_line(&cur, k) {
                    if same(&cand) {
                        cur = cand;
                        progressed = true;
                    }
                }
            }
        }
        // … or the comment moves to its own line above its host
        for k in 0..cur.cms.len() {
            if cur.cms[k].trailing {
                let mut cand = cur.clone();
                cand.cms[k].trailing = false;
                if same(&cand) {
                    cur = cand;
                    progressed = true;
                }
            }
        }
        // simpler line kinds
        for i in 0..cur.lines.len() {
            for s in cur.lines[i].simpler() {
                let mut cand = cur.clone();
                cand.lines[i] = *s;
                if same(&cand) {
                    cur = cand;
                    progressed = true;
                    break;
                }
            }
        }
        // fewer codes, no indent, no final newline
        for k in 0..cur.cms.len() {
            for c in 0..cur.cms[k].codes {
                let mut cand = cur.clone();
                cand.cms[k].codes = c;
                if same(&cand) {
                    cur = cand;
                    progressed = true;
                    break;
                }
            }
            if cur.cms[k].indent {
                let mut cand = cur.clone();
                cand.cms[k].indent = false;
                if same(&cand) {
                    cur = cand;
                    progressed = true;
                }
            }
        }
        if cur.final_nl {
            let mut cand = cur.clone();
            cand.final_nl = false;
            if same(&cand) {
                cur = cand;
                progressed = true;
            }
        }
        if !progressed {
            return cur;
        }
    }
}

fn violation_for(case: &Case, sig: &str) -> Option<Violation> {
    let min = minimise(case, sig);
    // confirm in a brand-new analysis (independent of whatever this thread analysed before)
    let (s2, detail) = signature_of(&min, true)?;
    if family(&s2) != family(sig) {
        return None;
    }
    Some(Violation { signature: s2, witness: min.witness(), detail: format!("{detail}; program: {:?}", min.layout().with_comments) })
}

pub fn replay(w: &Value) -> Option<Violation> {
    let case = Case::from_witness(w)?;
    let (sig, detail) = signature_of(&case, true)?;
    Some(Violation { signature: sig, witness: w.clone(), detail: format!("{detail}; program: {:?}", case.layout().with_comments) })
}

/// (pos, trailing, indent) of every placement of one comment in a skeleton
fn placements(lines: &[L], own: bool, trailing: bool, indents: &[bool]) -> Vec<(usize, bool, bool)> {
    let n = lines.len();
    let mut v = Vec::new();
    if own {
        for pos in 0..=n {
            for &ind in indents {
                v.push((pos, false, ind));
            }
        }
    }
    if trailing {
        for pos in 0..n {
            if lines[pos] != L::Blank {
                v.push((pos, true, false));
            }
        }
    }
    v
}

struct Counters {
    /// signature -> (least locally-minimal witness, raw cases)
    best: std::sync::Mutex<std::collections::BTreeMap<String, (Violation, u64)>>,
    not_reproduced: std::sync::atomic::AtomicU64,
    panics: std::sync::atomic::AtomicU64,
}

/// Last step of the minimiser: the local minima of one defect differ in where the comments sit
/// (trailing / own line, which block), so every raw case is finally reduced to the least
/// (fewest lines and comments, then lexicographically first) locally-minimal witness that fails with
/// the same signature. Deterministic: the least element of a set does not depend on discovery order.
fn record(cn: &Counters, v: Violation) {
    let rank = |x: &Violation| {
        let n = x.witness["lines"].as_array().map_or(0, |a| a.len()) + x.witness["comments"].as_array().map_or(1, |a| a.len());
        (n, x.witness.to_string())
    };
    let mut g = cn.best.lock().unwrap();
    match g.get_mut(&v.signature) {
        None => {
            g.insert(v.signature.clone(), (v, 1));
        }
        Some(e) => {
            e.1 += 1;
            if rank(&v) < rank(&e.0) {
                e.0 = v;
            }
        }
    }
}

fn run_one(case: &Case, st: &mut Stats, cn: &Counters, sample_pick: bool) {
    use std::sync::atomic::Ordering::Relaxed;
    let pair = case.cms.len() == 2;
    match with_ws(|ws| run_case(ws, case)) {
        Err(_) => {
            cn.panics.fetch_add(1, Relaxed);
            st.undecided += 1;
            st.outcome("panic (undecided here; C12)");
        }
        Ok(Verdict::Undecided(why)) => {
            st.undecided += 1;
            st.outcome(&format!("undecided: {why}"));
        }
        Ok(Verdict::Ok { d0, suppressed, open, on_comment }) => {
            st.eval(d0 > 0);
            if open > 0 {
                st.outcome("some diagnostics left open (comment after a block opener / next line is a comment)");
            }
            if on_comment > 0 {
                st.outcome("diagnostic on the comment itself (ignored)");
            }
            let what = if d0 == 0 {
                "nothing to suppress"
            } else if suppressed == 0 {
                "nothing in scope, all kept"
            } else if suppressed == d0 {
                "everything in scope, all hidden"
            } else {
                "exactly the scope hidden, rest kept"
            };
            st.outcome(&format!("ok ({}): {what}", if pair { "two comments" } else { "one comment" }));
            if suppressed > 0 && suppressed < d0 && sample_pick {
                st.sample(|| json!({"program": case.layout().with_comments, "diagnostics_without_comments": d0, "hidden_by_comments": suppressed}));
            }
        }
        Ok(Verdict::Bad(sig, _)) => {
            st.eval(true);
            st.outcome(&format!("VIOLATION {}", family(&sig)));
            match violation_for(case, &sig) {
                Some(v) => {
                    st.raw_violating_cases += 1;
                    record(cn, v);
                }
                None => {
                    cn.not_reproduced.fetch_add(1, Relaxed);
                    st.undecided += 1;
                    st.outcome("not reproduced in a fresh analysis (not reported)");
                }
            }
        }
    }
}

pub fn run(args: &Args) -> ! {
    if let Some(w) = args.replay_witness() {
        finish_replay(replay(&w["witness"]).or_else(|| replay(&w)), "C19");
    }
    let dl = args.deadline();
    let mut rep = Report::new("C19", "exploration");
    let max_lines = args.extra_usize("lines").unwrap_or(args.tier.pick(5, 6));
    let pair_lines = args.extra_usize("pairlines").unwrap_or(args.tier.pick(4, 5));
    let mut all = Stats::default();
    let cn = Counters { best: Default::default(), not_reproduced: 0.into(), panics: 0.into() };
    let quick = args.tier == Tier::Quick;

    // One schedule over both sub-spaces, ordered by size, so that a wall cap cuts the largest
    // sub-space and never a whole phase: singles with exactly t text lines (S t) and pairs with exactly
    // t text lines (P t); every smaller size of both is finished before the largest size of either.
    #[derive(Clone, Copy, PartialEq)]
    enum Step {
        S(usize),
        P(usize),
    }
    let small = max_lines.saturating_sub(2).min(pair_lines.saturating_sub(1));
    let mut schedule: Vec<Step> = Vec::new();
    for t in 0..=small {
        schedule.push(Step::S(t));
    }
    for t in 0..=small.min(pair_lines) {
        schedule.push(Step::P(t));
    }
    let mut t = small + 1;
    while t <= max_lines || t <= pair_lines {
        if t <= max_lines && t < max_lines.max(pair_lines + 1) {
            schedule.push(Step::S(t));
        }
        if t <= pair_lines {
            schedule.push(Step::P(t));
        }
        if t <= max_lines && t >= max_lines.max(pair_lines + 1) {
            schedule.push(Step::S(t));
        }
        t += 1;
    }
    let mut completed1: Option<usize> = None;
    let mut completed2: Option<usize> = None;
    let mut skeletons = 0u64;
    let mut pair_skeletons = 0u64;
    let mut steps_done: Vec<String> = Vec::new();
    'schedule: for step in schedule.iter().copied() {
        match step {
            // singles with exactly t text lines: skeletons of t lines with a trailing comment,
            // skeletons of t-1 lines with a comment on its own line
            Step::S(t) => {
                for n in t.saturating_sub(1)..=t {
                    let own = n + 1 == t;
                    if !own && n != t {
                        continue;
                    }
                    let total = pow(LINES.len() as u64, n as u32);
                    // quick tier: at the largest skeleton size only programs without a final newline
                    let nls: &[bool] = if quick && n == max_lines { &[false] } else { &[false, true] };
                    let (st, ok) = par_range(total, args.threads, &dl, |i, st| {
                        let mut w = Vec::new();
                        decode_word(i, LINES.len() as u64, n, &mut w);
                        let lines: Vec<L> = w.iter().map(|&x| LINES[x]).collect();
                        if !valid_skeleton(&lines) {
                            return;
                        }
                        st.outcome("skeleton");
                        for (pos, trailing, indent) in placements(&lines, own, !own, &[false, true]) {
                            for kind in 0..KINDS.len() {
                                for codes in 0..CODES.len() {
                                    for &final_nl in nls {
                                        let case = Case { lines: lines.clone(), cms: vec![Cm { kind, codes, pos, trailing, indent }], final_nl };
                                        run_one(&case, st, &cn, (i + pos as u64) % 97 == 0);
                                    }
                                }
                            }
                        }
                    });
                    skeletons += st.outcomes.get("skeleton").copied().unwrap_or(0);
                    all.merge(st);
                    if !ok {
                        break 'schedule;
                    }
                }
                completed1 = Some(t);
                steps_done.push(format!("S{t}"));
            }
            // pairs with exactly t text lines: skeleton lines + comments on their own line == t
            Step::P(t) => {
                for n in t.saturating_sub(2)..=t {
                    let total = pow(LINES.len() as u64, n as u32);
                    let (st, ok) = par_range(total, args.threads, &dl, |i, st| {
                        let mut w = Vec::new();
                        decode_word(i, LINES.len() as u64, n, &mut w);
                        let lines: Vec<L> = w.iter().map(|&x| LINES[x]).collect();
                        if !valid_skeleton(&lines) {
                            return;
                        }
                        st.outcome("skeleton");
                        let pl = placements(&lines, true, true, &[false]);
                        // every ordered pair of placements; `valid` keeps exactly the text-ordered ones
                        for a in pl.iter() {
                            for b in pl.iter() {
                                let own = (!a.1) as usize + (!b.1) as usize;
                                if n + own != t {
                                    continue;
                                }
                                for ka in 0..KINDS.len() {
                                    for &ca in &PAIR_CODES {
                                        for kb in 0..KINDS.len() {
                                            for &cb in &PAIR_CODES {
                                                let case = Case {
                                                    lines: lines.clone(),
                                                    cms: vec![
                                                        Cm { kind: ka, codes: ca, pos: a.0, trailing: a.1, indent: a.2 },
                                                        Cm { kind: kb, codes: cb, pos: b.0, trailing: b.1, indent: b.2 },
                                                    ],
                                                    final_nl: false,
                                                };
                                                if !case.valid() {
                                                    continue;
                                                }
                                                run_one(&case, st, &cn, (i + ka as u64 + kb as u64) % 89 == 0);
                                            }
                                        }
                                    }
                                }
                            }
                        }
                    });
                    pair_skeletons += st.outcomes.get("skeleton").copied().unwrap_or(0);
                    all.merge(st);
                    if !ok {
                        break 'schedule;
                    }
                }
                completed2 = Some(t);
                steps_done.push(format!("P{t}"));
            }
        }
    }
    all.outcomes.remove("skeleton");

    for (_, (v, n)) in std::mem::take(&mut *cn.best.lock().unwrap()) {
        all.violations.insert(format!("{}:{}", v.signature, v.witness), (v, n));
    }

    rep.rule = format!(
        "Skeletons: one statement per line over {{BLANK, `gN()` at column 0, indented `gN()`, `local uN = 1`, `local vN = gN()` (two codes on one line), `do`, `if gN then`, `end`}}, balanced, depth ≤ 2. (1) ONE comment: every skeleton of ≤{max_lines} text lines × every `---@diagnostic` comment of kinds {KINDS:?} × code lists {{none, undefined-global, unused, deprecated (non-matching), undefined-global+unused, unused+deprecated}} × every placement (own line before each line / after the last, indented or not; trailing after each non-blank line) × {{without, with}} final newline{}. (2) TWO comments: every skeleton of ≤{pair_lines} text lines × every ordered pair of (kind × code list in {{none, undefined-global, unused}}) × every pair of placements in text order (own line / trailing, two own-line comments may be adjacent), no final newline. Oracle: diagnostics with the comment(s) == diagnostics with every comment turned into a same-length plain comment, minus exactly the union over the comments of {{listed code (any code if no list) ∧ line is the next line (disable-next-line) / the comment's line (disable-line) / inside the enclosing block, whole file at top level (disable)}}; multisets, both directions. non-trivial = the program has at least one diagnostic. Both sub-spaces are run in one schedule ordered by text-line count (S0..S{small}, P0..P{small}, then sizes upward, the largest of each last) so a wall cap cuts only the largest sizes. A violating case is minimised (same failure direction), confirmed in a fresh analysis, and reported under the least minimal witness of its signature.",
        if quick { format!(" (quick: skeletons of exactly {max_lines} lines only without)") } else { String::new() }
    );
    rep.exhaustive = completed1 == Some(max_lines) && completed2 == Some(pair_lines);
    rep.bounds = json!({"max_text_lines_one_comment": max_lines, "text_lines_completed_one_comment": completed1, "skeletons_one_comment": skeletons,
        "max_text_lines_two_comments": pair_lines, "text_lines_completed_two_comments": completed2, "schedule_completed": steps_done, "skeletons_two_comments": pair_skeletons,
        "line_alphabet": LINES.len(), "comment_kinds": KINDS.len(), "code_lists": CODES.len(), "pair_code_lists": PAIR_CODES.len(),
        "wall_cap_s": args.wall_cap_s, "wall_cap_hit": dl.was_hit()});
    rep.assumptions = vec![
        "a trailing `disable` comment on the line of a block opener leaves open which block encloses it: diagnostics between the two candidate blocks are not judged".into(),
        "when the line after a disable-next-line comment holds only the other comment, the first code line after it is not judged (the statement does not say whether stacked comments share their next line)".into(),
        "diagnostics on a comment's own text are ignored; only single-line diagnostics are judged; only \\n line ends".into(),
        "one analysis per worker thread is reused across cases (file replaced in place); every violation is re-confirmed in a fresh analysis".into(),
    ];
    use std::sync::atomic::Ordering::Relaxed;
    rep.set("not_reproduced_in_fresh_analysis", json!(cn.not_reproduced.load(Relaxed)));
    rep.set("panics", json!(cn.panics.load(Relaxed)));
    rep.finish(args, all)
}
