//! C21 — reported diagnostics are well-formed; every parse error appears as a syntax-error
//! diagnostic at its range; no exact duplicates.
//!
//! Space: every word of Σ1^≤k1 and Σ2^≤k2 and every truncation of every bundled std file at every
//! token boundary, each diagnosed as a main-workspace file (std library loaded) under
//! {default configuration, every diagnostic code enabled}.
use crate::common::*;
use emmylua_code_analysis::{DiagnosticCode, Emmyrc};
use emmylua_parser::LuaParseErrorKind;
use lsp_types::Diagnostic;
use serde_json::{Value, json};
use std::collections::HashSet;
use vcore::*;

pub fn full_config() -> Emmyrc {
    let mut rc = Emmyrc::default();
    rc.diagnostics.enables = DiagnosticCode::all().into_iter().filter(|c| *c != DiagnosticCode::None).collect();
    rc
}

pub const CFGS: [&str; 2] = ["default", "all-enabled"];

fn config(i: usize) -> Emmyrc {
    if i == 0 { Emmyrc::default() } else { full_config() }
}

fn known_codes() -> HashSet<String> {
    DiagnosticCode::all().into_iter().filter(|c| *c != DiagnosticCode::None).map(|c| c.get_name().to_string()).collect()
}

/// Is (line, character) a position of `text` under *some* reading the statement allows: lines split at
/// `\n` only (what the analyser uses) or at `\n`, `\r\n`, `\r` (LSP); character counted in any unit
/// (so at most the byte length of the line, terminator excluded for LSP, `\r` included for `\n`-only).
fn pos_in_doc(text: &str, line: u32, ch: u32) -> bool {
    let nl: Vec<&str> = text.split('\n').collect();
    if (line as usize) < nl.len() && ch as usize <= nl[line as usize].len() {
        return true;
    }
    let mut lsp: Vec<usize> = Vec::new(); // byte length of each LSP line
    let b = text.as_bytes();
    let mut cur = 0usize;
    let mut i = 0;
    while i < b.len() {
        if b[i] == b'\n' {
            lsp.push(cur);
            cur = 0;
        } else if b[i] == b'\r' {
            lsp.push(cur);
            cur = 0;
            if i + 1 < b.len() && b[i + 1] == b'\n' {
                i += 1;
            }
        } else {
            cur += 1;
        }
        i += 1;
    }
    lsp.push(cur);
    (line as usize) < lsp.len() && ch as usize <= lsp[line as usize]
}

pub struct Obs {
    pub diags: Vec<Diagnostic>,
    /// (kind code name, translated range or None, message)
    pub parse_errors: Vec<(String, Option<lsp_types::Range>, String)>,
}

pub fn observe(ws: &mut Ws, text: &str) -> Option<Obs> {
    let (id, diags) = ws.diagnose_at(Place::Main, text);
    let id = id?;
    let diags = diags?;
    let db = ws.analysis.compilation.get_db();
    let vfs = db.get_vfs();
    let doc = vfs.get_document(&id)?;
    let tree = vfs.get_syntax_tree(&id)?;
    let parse_errors = tree
        .get_errors()
        .iter()
        .map(|e| {
            let code = match e.kind {
                LuaParseErrorKind::SyntaxError => "syntax-error",
                LuaParseErrorKind::DocError => "doc-syntax-error",
            };
            (code.to_string(), doc.to_lsp_range(e.range), e.message.clone())
        })
        .collect();
    Some(Obs { diags, parse_errors })
}

/// all failures of one observation, as (signature, detail), sorted
pub fn judge(text: &str, obs: &Obs, known: &HashSet<String>, undecided: &mut u64) -> Vec<(String, String)> {
    let mut bad = Vec::new();
    let flats: Vec<D> = obs.diags.iter().map(flat).collect();
    for (d, f) in obs.diags.iter().zip(flats.iter()) {
        let code_ok = known.contains(&f.code);
        if !code_ok {
            bad.push((format!("unknown-code:{}", f.code), format!("diagnostic {} has a code that is not a DiagnosticCode name", f.short())));
        }
        if !pos_in_doc(text, f.sl, f.sc) || !pos_in_doc(text, f.el, f.ec) {
            bad.push((format!("range-outside-document:{}", f.code), format!("{} is not inside the document", f.short())));
        }
        if (f.sl, f.sc) > (f.el, f.ec) {
            bad.push((format!("start-after-end:{}", f.code), format!("{} starts after it ends", f.short())));
        }
        match f.sev {
            Some(1..=4) => {}
            _ => bad.push((format!("no-severity:{}", f.code), format!("{} has severity {:?}", f.short(), d.severity))),
        }
        // unsubstituted placeholders; judged only when the source itself cannot have put the characters there
        if f.msg.contains("%{") {
            if text.contains("%{") {
                *undecided += 1;
            } else {
                bad.push((format!("placeholder:{}", f.code), format!("{} message contains `%{{`: {:?}", f.short(), f.msg)));
            }
        }
        // `{{}}` is not a placeholder: the message templates write literal braces doubled
        // (`'\\u{{%{unicode_hex}}}'`) and the substituted value may be empty
        if f.msg.replace("{{}}", "").contains("{}") {
            if text.contains('{') {
                *undecided += 1;
            } else {
                bad.push((format!("placeholder:{}", f.code), format!("{} message contains `{{}}`: {:?}", f.short(), f.msg)));
            }
        }
    }
    // duplicates: every field equal
    let mut seen: HashSet<String> = HashSet::new();
    for (d, f) in obs.diags.iter().zip(flats.iter()) {
        let k = serde_json::to_string(d).unwrap_or_default();
        if !seen.insert(k) {
            bad.push((format!("duplicate:{}", f.code), format!("{} {:?} is listed twice with identical fields", f.short(), f.msg)));
        }
    }
    // completeness for parse errors (open when the text may suppress or is a meta file)
    if !obs.parse_errors.is_empty() {
        if text.contains("@diagnostic") || text.contains("@meta") {
            *undecided += 1;
        } else {
            for (code, range, msg) in &obs.parse_errors {
                let Some(r) = range else {
                    *undecided += 1;
                    continue;
                };
                let found = obs.diags.iter().zip(flats.iter()).any(|(d, f)| &f.code == code && d.range == *r);
                if !found {
                    bad.push((
                        format!("parse-error-not-reported:{code}"),
                        format!("parse error {:?} at {}:{}-{}:{} has no {code} diagnostic at that range", msg, r.start.line, r.start.character, r.end.line, r.end.character),
                    ));
                }
            }
        }
    }
    bad.sort();
    bad.dedup_by(|a, b| a.0 == b.0);
    bad
}

/// outcome class of a well-formed observation (shows what kinds of lists were judged)
fn summary(obs: &Obs) -> String {
    let n = obs.diags.len();
    let pe = obs.parse_errors.len();
    let empty = obs.diags.iter().filter(|d| d.range.start == d.range.end).count();
    let codes: HashSet<String> = obs.diags.iter().map(|d| flat(d).code).collect();
    let size = |k: usize| match k {
        0 => "0",
        1 => "1",
        2..=4 => "2-4",
        _ => "5+",
    };
    format!(
        "well-formed: {} diagnostics, {} codes, {} parse errors (all reported){}",
        size(n),
        size(codes.len()),
        size(pe),
        if empty > 0 { ", some with an empty range" } else { "" }
    )
}

thread_local! {
    static CUR_CFG: std::cell::Cell<usize> = const { std::cell::Cell::new(usize::MAX) };
}

/// run `text` under configuration `ci` on this thread's workspace (or a fresh one)
fn eval(text: &str, ci: usize, fresh: bool, known: &HashSet<String>, undecided: &mut u64) -> Result<Option<Vec<(String, String)>>, String> {
    eval2(text, ci, fresh, known, undecided).map(|o| o.map(|x| x.0))
}

fn eval2(text: &str, ci: usize, fresh: bool, known: &HashSet<String>, undecided: &mut u64) -> Result<Option<(Vec<(String, String)>, String)>, String> {
    let mut u = 0u64;
    let r = if fresh {
        with_fresh_ws(|ws| {
            ws.set_config(config(ci));
            observe(ws, text).map(|o| (judge(text, &o, known, &mut u), summary(&o)))
        })
    } else {
        let r = with_ws(|ws| {
            if CUR_CFG.with(|c| c.get()) != ci {
                ws.set_config(config(ci));
                CUR_CFG.with(|c| c.set(ci));
            }
            observe(ws, text).map(|o| (judge(text, &o, known, &mut u), summary(&o)))
        });
        if r.is_err() {
            CUR_CFG.with(|c| c.set(usize::MAX)); // workspace was discarded
        }
        r
    };
    *undecided += u;
    r
}

fn check_text(text: &str, ci: usize, st: &mut Stats, known: &HashSet<String>, origin: &str, extra: &Extra) {
    let mut und = 0;
    match eval2(text, ci, false, known, &mut und) {
        Err(p) => {
            extra.panics.fetch_add(1, std::sync::atomic::Ordering::Relaxed);
            let mut g = extra.panic_sample.lock().unwrap();
            if g.is_none() {
                *g = Some(json!({"text": text, "cfg": CFGS[ci], "panic": p}));
            }
            st.undecided += 1;
            st.outcome("panic while diagnosing (undecided here; C12)");
        }
        Ok(None) => {
            st.undecided += 1;
            st.outcome("no diagnostics list returned");
        }
        Ok(Some((bad, class))) => {
            st.undecided += und;
            st.eval(text.len() > 1);
            if bad.is_empty() {
                st.outcome(&class);
                return;
            }
            // one report per distinct signature of this case
            for (sig, _) in &bad {
                st.outcome(&format!("VIOLATION {}", sig.split(':').next().unwrap_or("")));
                match minimise(text, ci, sig, known, origin) {
                    Some(v) => {
                        st.raw_violating_cases += 1;
                        record(extra, v);
                    }
                    None => {
                        extra.not_reproduced.fetch_add(1, std::sync::atomic::Ordering::Relaxed);
                        st.outcome("not reproduced in a fresh analysis (not reported)");
                    }
                }
            }
        }
    }
}

fn has_sig(text: &str, ci: usize, sig: &str, fresh: bool, known: &HashSet<String>) -> Option<String> {
    let mut u = 0;
    match eval(text, ci, fresh, known, &mut u) {
        Ok(Some(bad)) => bad.into_iter().find(|(s, _)| s == sig).map(|(_, d)| d),
        _ => None,
    }
}

fn minimise(text: &str, ci: usize, sig: &str, known: &HashSet<String>, origin: &str) -> Option<Violation> {
    // prefer the default configuration when it fails there too
    let ci = if ci != 0 && has_sig(text, 0, sig, false, known).is_some() { 0 } else { ci };
    let min = minimise_text(text, |t| has_sig(t, ci, sig, false, known).is_some());
    let ci = if ci != 0 && has_sig(&min, 0, sig, false, known).is_some() { 0 } else { ci };
    let detail = has_sig(&min, ci, sig, true, known)?;
    Some(Violation {
        signature: sig.to_string(),
        witness: json!({"text": min, "cfg": CFGS[ci]}),
        detail: format!("{detail} (cfg {}; first seen in {origin})", CFGS[ci]),
    })
}

pub fn replay(w: &Value) -> Option<Violation> {
    let text = w["text"].as_str()?;
    let ci = CFGS.iter().position(|c| Some(*c) == w["cfg"].as_str())?;
    let known = known_codes();
    let mut u = 0;
    match eval(text, ci, true, &known, &mut u) {
        Ok(Some(bad)) => bad.into_iter().next().map(|(s, d)| Violation { signature: s, witness: w.clone(), detail: d }),
        _ => None,
    }
}

/// Last step of the minimiser. One defect in error recovery shows up under thousands of different
/// token soups whose character-level minima all differ; every raw case is therefore finally reduced
/// to the least (shortest, then lexicographically first) locally-minimal witness that fails with the
/// same signature under the same configuration. Deterministic: the set of local minima is, and the
/// least element of a set does not depend on the order in which worker threads find its members.
fn record(extra: &Extra, v: Violation) {
    let key = format!("{}|{}", v.signature, v.witness["cfg"].as_str().unwrap_or(""));
    let rank = |x: &Violation| {
        let t = x.witness["text"].as_str().unwrap_or("");
        (t.len(), t.to_string())
    };
    let mut g = extra.best.lock().unwrap();
    match g.get_mut(&key) {
        None => {
            g.insert(key, (v, 1));
        }
        Some(e) => {
            e.1 += 1;
            if rank(&v) < rank(&e.0) {
                e.0 = v;
            }
        }
    }
}

struct Extra {
    best: std::sync::Mutex<std::collections::BTreeMap<String, (Violation, u64)>>,
    panics: std::sync::atomic::AtomicU64,
    not_reproduced: std::sync::atomic::AtomicU64,
    panic_sample: std::sync::Mutex<Option<Value>>,
}

/// std files with `@meta` / `@diagnostic` neutralised (same length), so that their
/// truncations are diagnosed like user files instead of being silenced wholesale
fn std_texts(max_len: usize) -> Vec<(String, String)> {
    std_files()
        .into_iter()
        .filter(|(_, t)| t.len() <= max_len)
        .map(|(n, t)| (n, t.replace("@meta", " meta").replace("@diagnostic", " diagnostic")))
        .collect()
}

fn token_ends(text: &str) -> Vec<usize> {
    use emmylua_parser::{LuaParser, ParserConfig};
    let tree = LuaParser::parse(text, ParserConfig::default());
    let mut v: Vec<usize> = Vec::new();
    for el in tree.get_red_root().descendants_with_tokens() {
        if let rowan::NodeOrToken::Token(t) = el {
            let e = u32::from(t.text_range().end()) as usize;
            if text.is_char_boundary(e) {
                v.push(e);
            }
        }
    }
    v.sort();
    v.dedup();
    v
}

pub fn run(args: &Args) -> ! {
    if let Some(w) = args.replay_witness() {
        finish_replay(replay(&w["witness"]).or_else(|| replay(&w)), "C21");
    }
    let dl = args.deadline();
    let mut rep = Report::new("C21", "exploration");
    let known = known_codes();
    let (k1, k2) = args.tier.pick((3, 2), (4, 3));
    let k1 = args.extra_usize("k1").unwrap_or(k1);
    let k2 = args.extra_usize("k2").unwrap_or(k2);
    let max_std = args.extra_usize("maxstd").unwrap_or(args.tier.pick(4500, 1 << 20));
    let extra = Extra { best: Default::default(), panics: 0.into(), not_reproduced: 0.into(), panic_sample: std::sync::Mutex::new(None) };
    let mut all = Stats::default();

    // phase order: small words first (both configurations), then truncations, then the largest word level
    let mut done1: Option<usize> = None;
    let mut done2: Option<usize> = None;
    let words = |sigma: &'static [&'static str], kmin: usize, kmax: usize, name: &'static str, all: &mut Stats| -> Option<usize> {
        let mut completed = None;
        for k in kmin..=kmax {
            let mut ok_all = true;
            for ci in 0..CFGS.len() {
                let (st, d) = par_words(sigma.len(), k, k, args.threads, &dl, |w, st| {
                    let text = word_text(sigma, w);
                    if w.len() >= 2 && w[0] == 23 {
                        st.sample(|| json!({"phase": name, "cfg": CFGS[ci], "text": text}));
                    }
                    check_text(&text, ci, st, &known, name, &extra);
                });
                all.merge(st);
                ok_all &= d == Some(k);
            }
            if ok_all {
                completed = Some(k);
            } else {
                break;
            }
        }
        completed
    };
    let k1a = k1.min(2);
    let d = words(SIGMA1, 0, k1a, "Σ1", &mut all);
    if d == Some(k1a) {
        done1 = d;
    }
    let d = words(SIGMA2, 1, k2, "Σ2", &mut all);
    done2 = d.or(done2);

    // literal families: the syntax-error checker has its own scanner for string escapes (one message
    // template per escape kind) and numerals; every escape body / numeral over the characters its branches
    // test, as the only literal of a statement
    const ESC: &[&str] = &["0", "2", "5", "9", "x", "u", "{", "}", "z", "q", "a", "F", " "];
    const NUM: &[&str] = &["0", "1", "9", "x", "e", "p", ".", "_", "f", "+", "u", "l", "i"];
    let klit = args.tier.pick(3, 4);
    let mut done_lit = true;
    for (fam, sigma, pre, post) in [("escape", ESC, "local s = \"\\", "\"\n"), ("numeral", NUM, "local n = ", "\n")] {
        for ci in 0..CFGS.len() {
            let (st, d) = par_words(sigma.len(), 1, klit, args.threads, &dl, |w, st| {
                let text = format!("{pre}{}{post}", word_text(sigma, w));
                if w.len() == 2 && w[0] == 1 && w[1] == 2 {
                    st.sample(|| json!({"phase": format!("literal:{fam}"), "cfg": CFGS[ci], "text": text}));
                }
                check_text(&text, ci, st, &known, "literal", &extra);
            });
            all.merge(st);
            done_lit &= d == Some(klit);
        }
    }

    // truncations of std files at every token end
    let stds = std_texts(max_std);
    let mut jobs: Vec<(usize, usize)> = Vec::new();
    for (fi, (_, t)) in stds.iter().enumerate() {
        for e in token_ends(t) {
            jobs.push((fi, e));
        }
    }
    let mut done3 = true;
    for ci in 0..CFGS.len() {
        let (st, ok) = par_range(jobs.len() as u64, args.threads, &dl, |i, st| {
            let (fi, e) = jobs[i as usize];
            let text = &stds[fi].1[..e];
            if i % 1500 == 11 {
                st.sample(|| json!({"phase": "std-truncation", "file": stds[fi].0, "cut_at_byte": e, "cfg": CFGS[ci]}));
            }
            check_text(text, ci, st, &known, "std-truncation", &extra);
        });
        all.merge(st);
        done3 &= ok;
    }
    if done1 == Some(k1a) && k1 > k1a {
        let d = words(SIGMA1, k1a + 1, k1, "Σ1", &mut all);
        done1 = d.or(done1);
    }

    for (_, (v, n)) in std::mem::take(&mut *extra.best.lock().unwrap()) {
        all.violations.insert(format!("{}:{}", v.signature, v.witness), (v, n));
    }

    rep.rule = format!(
        "every word of Σ1^≤{k1} (|Σ1|={}) and Σ2^≤{k2} (|Σ2|={}), every string literal `\"\\<body>\"` with an escape body of ≤{klit} characters over {ESC:?} and every numeral of ≤{klit} characters over {NUM:?} (each as the only literal of a statement), and every truncation at every token end ({} cuts) of the {} bundled std files of ≤{max_std} bytes (`@meta`/`@diagnostic` replaced by ` meta`/` diagnostic`, same length, so the cuts are diagnosed like user files), each diagnosed as a main-workspace file with the std library loaded, under {{default configuration, every diagnostic code enabled}}. Oracle per diagnostic: start and end are positions of the document (under either the \\n-only or the LSP line model, any character unit), start ≤ end, code is a DiagnosticCode name, severity is one of the four LSP severities, message has no `%{{` / `{{}}` (judged only when the source contains no `%{{` / `{{`); per file: every parse error of the file's syntax tree has a syntax-error/doc-syntax-error diagnostic at the translated range (undecided when the text contains @diagnostic/@meta); no two diagnostics equal in every field. non-trivial = text longer than one byte.",
        SIGMA1.len(),
        SIGMA2.len(),
        jobs.len(),
        stds.len()
    );
    rep.exhaustive = done1 == Some(k1) && done2 == Some(k2) && done3 && done_lit;
    rep.bounds = json!({"sigma1_k_target": k1, "sigma1_k_completed": done1, "sigma2_k_target": k2, "sigma2_k_completed": done2,
        "literal_families_k": klit, "literal_families_completed": done_lit, "std_files": stds.len(), "std_truncations": jobs.len(), "std_truncations_completed": done3, "configs": CFGS,
        "wall_cap_s": args.wall_cap_s, "wall_cap_hit": dl.was_hit()});
    rep.assumptions = vec![
        "the translated range of a parse error is taken from the document's own offset→position conversion (C22/C23 judge that conversion)".into(),
        "a panic while diagnosing is counted as undecided here (C12 judges crashes); the first one is kept in extra.panic_sample".into(),
        "one analysis per worker thread is reused; every violation is minimised and re-confirmed in a fresh analysis".into(),
    ];
    rep.set("panics", json!(extra.panics.load(std::sync::atomic::Ordering::Relaxed)));
    rep.set("panic_sample", extra.panic_sample.lock().unwrap().clone().unwrap_or(Value::Null));
    rep.set("not_reproduced_in_fresh_analysis", json!(extra.not_reproduced.load(std::sync::atomic::Ordering::Relaxed)));
    rep.finish(args, all)
}
