//! C20 — configuration controls which diagnostics are reported and how.
//!
//! Space: a bank of small programs (each tagged, at run time, with the codes it triggers when every
//! code is enabled) × configurations at deviation ≤ d from the default over the knobs
//! {disable ∋ c, enables ∋ c, severity[c] = s, globals ∋ g, globalsRegex ∋ r, diagnostics.enable = false}
//! × file-level line {none, `---@diagnostic enable: c`, `---@diagnostic disable: c`}
//! × placement {main, meta file, library root, std root}.
//! Oracle: the statement as a decision table (see `judge`).
use crate::common::*;
use emmylua_code_analysis::{DiagnosticCode, DiagnosticSeveritySetting, Emmyrc};
use serde_json::{Value, json};
use std::collections::{BTreeMap, BTreeSet};
use std::str::FromStr;
use vcore::*;

/// (name, program). Names of undefined globals are chosen so the globals / globalsRegex knobs bite.
pub const BANK: &[(&str, &str)] = &[
    ("undefined-global", "print(gfoo)\nprint(name_x)\n"),
    ("unused-local", "local u = 1\n"),
    ("unused-function", "local function uf() end\n"),
    ("redefined-local", "local a = 1\nlocal a = 2\nprint(a)\n"),
    ("deprecated", "---@deprecated\nfunction Old1() end\nOld1()\n"),
    ("type-not-found", "---@type Nope6\nlocal t = nil\nprint(t)\n"),
    ("param-type-mismatch", "---@param a string\nlocal function f(a) return a end\nf(1)\n"),
    ("missing-parameter", "---@param a string\n---@param b string\nlocal function f(a, b) return a .. b end\nf('x')\n"),
    ("redundant-parameter", "local function f(a) return a end\nf(1, 2)\n"),
    ("unreachable-code", "local function f()\n  do return 1 end\n  print(2)\nend\nf()\n"),
    ("access-invisible", "---@class C11\n---@field private p integer\nlocal C11 = {}\nreturn C11\n"),
    ("access-invisible-use", "---@class C11b\n---@field private p integer\n\n---@type C11b\nlocal o\nprint(o.p)\n"),
    ("discard-returns", "---@nodiscard\n---@return integer\nlocal function f() return 1 end\nf()\n"),
    ("undefined-field", "---@class C13\n---@field a integer\n\n---@type C13\nlocal o\nprint(o.zz)\n"),
    ("local-const-reassign", "local c <const> = 1\nc = 2\n"),
    ("iter-variable-reassign", "for i = 1, 2 do i = 3 end\n"),
    ("duplicate-type", "---@alias A16 string\n---@alias A16 number\n"),
    ("duplicate-class", "---@enum E16\nlocal E16 = { a = 1 }\n---@enum E16\nlocal E16b = { a = 1 }\nprint(E16, E16b)\n"),
    ("need-check-nil", "---@type string?\nlocal s\nprint(s:len())\n"),
    ("await-in-sync", "---@async\nlocal function af() end\nlocal function g() af() end\ng()\n"),
    ("annotation-usage-error", "---@field x integer\nlocal x = 1\nprint(x)\n"),
    ("return-type-mismatch", "---@return string\nlocal function f() return 1 end\nf()\n"),
    ("missing-return-value", "---@return integer, integer\nlocal function f() return 1 end\nf()\n"),
    ("redundant-return-value", "---@return integer\nlocal function f() return 1, 2 end\nf()\n"),
    ("missing-return", "---@return integer\nlocal function f() end\nf()\n"),
    ("undefined-doc-param", "---@param zz integer\nlocal function f(a) return a end\nf(1)\n"),
    ("duplicate-doc-field", "---@class C26\n---@field a integer\n---@field a integer\n"),
    ("unknown-doc-tag", "---@foo bar\nlocal x = 1\nprint(x)\n"),
    ("missing-fields", "---@class C28\n---@field a integer\n---@field b integer\n\n---@type C28\nlocal o = { a = 1 }\nprint(o)\n"),
    ("inject-field", "---@class C29\n---@field a integer\n\n---@type C29\nlocal o\no.newf = 1\n"),
    ("circle-doc-class", "---@class A30: B30\n---@class B30: A30\n"),
    ("incomplete-signature-doc", "---@param a integer\nfunction G31(a, b) return a, b end\n"),
    ("missing-global-doc", "function G31b(a) return a end\n"),
    ("assign-type-mismatch", "---@type string\nlocal s = 1\nprint(s)\n"),
    ("require", "local a = require('nomod')\nlocal b = require('nomod')\nprint(a, b)\n"),
    ("non-literal-assert", "local x = 1\nassert(x == 1, 'a' .. x)\n"),
    ("unbalanced-assignments", "local x, y = 1\nprint(x, y)\n"),
    ("unnecessary-assert", "assert(true)\n"),
    ("unnecessary-if", "if true then print(1) end\n"),
    ("duplicate-set-field", "---@class C38\n---@field a fun()\nlocal T = {}\nfunction T.a() end\nfunction T.a() end\nreturn T\n"),
    ("duplicate-index", "local t = { b = 1, b = 2 }\nprint(t)\n"),
    ("generic-constraint", "---@class Comp40\n---@class GA40\n\n---@generic T: Comp40\n---@param name `T`\n---@return T\nlocal function new(name) return name end\nnew('GA40')\n"),
    ("cast-type-mismatch", "---@type string|boolean\nlocal v\n\n---@cast v table\nprint(v)\n"),
    ("enum-value-mismatch", "---@enum St42\nlocal St42 = { A = 'a', B = 'b' }\n\n---@type St42\nlocal s\nif s == 'zzz' then print(1) end\n"),
    ("preferred-local-alias", "local gsub = string.gsub\nprint(gsub)\nprint(string.gsub('a', 'a', 'b'))\n"),
    ("call-non-callable", "local n = 1\nn()\n"),
    ("syntax-error", "local = 1\n"),
    ("doc-syntax-error", "---@type <\nlocal z = 1\nprint(z)\n"),
    ("global-in-non-module", "local function f()\n  G47 = 1\nend\nf()\n"),
    ("invert-if", "local function f(a)\n  if a then\n    print(1)\n    print(2)\n    print(3)\n    print(4)\n  else\n    return\n  end\nend\nf(1)\n"),
    ("readonly", "---@class C49\n---@field a integer\n\n---@type C49\n---@readonly\nlocal ro = { a = 1 }\nro.a = 2\n"),
    ("redefined-label", "::l1::\n::l1::\n"),
    ("self-method", "local M = {}\nfunction M:m() return self end\nfunction M.s() return self end\nreturn M\n"),
];

pub const SEVERITIES: [(&str, u8); 4] = [("error", 1), ("warning", 2), ("information", 3), ("hint", 4)];
/// (regex text, reference matcher written by hand; None = not a valid regex, nothing is judged)
pub const REGEXES: [&str; 5] = ["^g", ".*", "^zz_unrelated$", "_x$", "("];
fn regex_matches(idx: usize, name: &str) -> Option<bool> {
    match idx {
        0 => Some(name.starts_with('g')),
        1 => Some(true),
        2 => Some(name == "zz_unrelated"),
        3 => Some(name.ends_with("_x")),
        _ => None,
    }
}

#[derive(Clone, Debug, PartialEq, Eq, PartialOrd, Ord)]
pub enum Knob {
    EnableFalse,
    Disable(String),
    Enables(String),
    Severity(String, usize),
    Globals(String),
    Regex(usize),
}

impl Knob {
    fn name(&self) -> String {
        match self {
            Knob::EnableFalse => "enable=false".into(),
            Knob::Disable(c) => format!("disable:{c}"),
            Knob::Enables(c) => format!("enables:{c}"),
            Knob::Severity(c, s) => format!("severity:{c}={}", SEVERITIES[*s].0),
            Knob::Globals(g) => format!("globals:{g}"),
            Knob::Regex(i) => format!("globalsRegex:{}", REGEXES[*i]),
        }
    }
    fn parse(s: &str) -> Option<Knob> {
        if s == "enable=false" {
            return Some(Knob::EnableFalse);
        }
        let (k, v) = s.split_once(':')?;
        Some(match k {
            "disable" => Knob::Disable(v.to_string()),
            "enables" => Knob::Enables(v.to_string()),
            "severity" => {
                let (c, sv) = v.split_once('=')?;
                Knob::Severity(c.to_string(), SEVERITIES.iter().position(|x| x.0 == sv)?)
            }
            "globals" => Knob::Globals(v.to_string()),
            "globalsRegex" => Knob::Regex(REGEXES.iter().position(|x| *x == v)?),
            _ => return None,
        })
    }
    fn code(&self) -> Option<&str> {
        match self {
            Knob::Disable(c) | Knob::Enables(c) | Knob::Severity(c, _) => Some(c),
            _ => None,
        }
    }
}

fn code_of(name: &str) -> DiagnosticCode {
    DiagnosticCode::from_str(name).unwrap_or(DiagnosticCode::None)
}

pub fn all_code_names() -> Vec<String> {
    DiagnosticCode::all().into_iter().filter(|c| *c != DiagnosticCode::None).map(|c| c.get_name().to_string()).collect()
}

fn sev_setting(i: usize) -> DiagnosticSeveritySetting {
    match i {
        0 => DiagnosticSeveritySetting::Error,
        1 => DiagnosticSeveritySetting::Warning,
        2 => DiagnosticSeveritySetting::Information,
        _ => DiagnosticSeveritySetting::Hint,
    }
}

/// the configuration under test
pub fn build_config(knobs: &[Knob]) -> Emmyrc {
    let mut rc = Emmyrc::default();
    for k in knobs {
        match k {
            Knob::EnableFalse => rc.diagnostics.enable = false,
            Knob::Disable(c) => rc.diagnostics.disable.push(code_of(c)),
            Knob::Enables(c) => rc.diagnostics.enables.push(code_of(c)),
            Knob::Severity(c, s) => {
                rc.diagnostics.severity.insert(code_of(c), sev_setting(*s));
            }
            Knob::Globals(g) => rc.diagnostics.globals.push(g.clone()),
            Knob::Regex(i) => rc.diagnostics.globals_regex.push(REGEXES[*i].to_string()),
        }
    }
    rc
}

/// the reference configuration: every code enabled, nothing disabled, default severities,
/// but the same globals / globalsRegex as the configuration under test
pub fn reference_config(knobs: &[Knob]) -> Emmyrc {
    let mut rc = Emmyrc::default();
    rc.diagnostics.enables = DiagnosticCode::all().into_iter().filter(|c| *c != DiagnosticCode::None).collect();
    for k in knobs {
        match k {
            Knob::Globals(g) => rc.diagnostics.globals.push(g.clone()),
            Knob::Regex(i) => rc.diagnostics.globals_regex.push(REGEXES[*i].to_string()),
            _ => {}
        }
    }
    rc
}

#[derive(Clone, Copy, PartialEq, Eq, Debug)]
pub enum Fl {
    None,
    Enable,
    Disable,
}
pub const FLS: [(Fl, &str); 3] = [(Fl::None, "none"), (Fl::Enable, "enable"), (Fl::Disable, "disable")];
#[derive(Clone, Copy, PartialEq, Eq, Debug)]
pub enum Pl {
    Main,
    Meta,
    Library,
    Std,
}
pub const PLS: [(Pl, &str); 4] = [(Pl::Main, "main"), (Pl::Meta, "meta"), (Pl::Library, "library"), (Pl::Std, "std")];

/// program text: [`---@meta`] [file-level line or its plain twin] snippet
fn program(snippet: &str, fl: Fl, code: &str, meta: bool, plain: bool) -> String {
    let mut s = String::new();
    if meta {
        s.push_str("---@meta\n");
    }
    let line = match fl {
        Fl::None => None,
        Fl::Enable => Some(format!("---@diagnostic enable: {code}")),
        Fl::Disable => Some(format!("---@diagnostic disable: {code}")),
    };
    if let Some(l) = line {
        if plain {
            s.push_str("--  ");
            s.push_str(&l[4..]);
        } else {
            s.push_str(&l);
        }
        s.push('\n');
    }
    s.push_str(snippet);
    s
}

/// diagnostics without severity, for comparison with the reference run
fn strip(v: &[D]) -> Vec<(u32, u32, u32, u32, String, String)> {
    let mut o: Vec<_> = v.iter().map(|d| (d.sl, d.sc, d.el, d.ec, d.code.clone(), d.msg.clone())).collect();
    o.sort();
    o
}

pub enum Verdict {
    Ok(Vec<&'static str>),
    Undecided(&'static str),
    Bad(String, String),
}

/// the decision table
pub fn judge(text: &str, pl: Pl, fl: Fl, fl_code: &str, knobs: &[Knob], obs: &Option<Vec<D>>, reference: &[D]) -> Verdict {
    let empty = obs.as_ref().is_none_or(|v| v.is_empty());
    let first = || obs.as_ref().and_then(|v| v.first()).map(|d| d.short()).unwrap_or_default();
    if knobs.contains(&Knob::EnableFalse) {
        return if empty { Verdict::Ok(vec!["silent: diagnostics.enable=false"]) } else { Verdict::Bad("reported-with-enable-false".into(), format!("diagnostics.enable=false but {} is reported", first())) };
    }
    match pl {
        Pl::Library => return if empty { Verdict::Ok(vec!["silent: library file"]) } else { Verdict::Bad("reported-in-library".into(), format!("library file reports {}", first())) },
        Pl::Std => return if empty { Verdict::Ok(vec!["silent: std file"]) } else { Verdict::Bad("reported-in-std".into(), format!("std file reports {}", first())) },
        Pl::Meta => {
            if fl == Fl::Enable {
                return Verdict::Undecided("meta file that also has ---@diagnostic enable");
            }
            return if empty { Verdict::Ok(vec!["silent: meta file"]) } else { Verdict::Bad("reported-in-meta".into(), format!("meta file reports {}", first())) };
        }
        Pl::Main => {}
    }
    let Some(obs) = obs else { return Verdict::Undecided("no diagnostics list for a main file") };
    let mut classes: Vec<&'static str> = Vec::new();
    let disabled: BTreeSet<&str> = knobs.iter().filter_map(|k| if let Knob::Disable(c) = k { Some(c.as_str()) } else { None }).collect();
    let enabled: BTreeSet<&str> = knobs.iter().filter_map(|k| if let Knob::Enables(c) = k { Some(c.as_str()) } else { None }).collect();
    let of = |v: &[D], c: &str| -> Vec<D> { v.iter().filter(|d| d.code == c).cloned().collect() };
    let mut bad: Vec<(String, String)> = Vec::new();
    for c in disabled.iter().chain(enabled.iter()).copied().collect::<BTreeSet<&str>>() {
        let o = of(obs, c);
        let r = of(reference, c);
        if disabled.contains(c) {
            if fl == Fl::Enable && fl_code == c {
                // "… unless the file enables it": then it is reported as if enabled
                if strip(&o) != strip(&r) {
                    bad.push(("file-enable-does-not-override-disable".into(), format!("{c} is in diagnostics.disable and the file says ---@diagnostic enable: {c}; expected the {} diagnostic(s) of the all-enabled run, got {}", r.len(), o.len())));
                } else {
                    classes.push(if r.is_empty() { "disable+file-enable: code not triggered" } else { "disable+file-enable: reported" });
                }
            } else if !o.is_empty() {
                bad.push(("disabled-code-reported".into(), format!("{c} is in diagnostics.disable (no file-level enable) but {} is reported", o[0].short())));
            } else {
                classes.push(if r.is_empty() { "disable: code not triggered anyway" } else { "disable: code silenced" });
            }
        } else if fl == Fl::Disable && fl_code == c {
            classes.push("enables + file-level disable (left open)");
        } else if strip(&o) != strip(&r) {
            bad.push(("enabled-code-differs-from-all-enabled-run".into(), format!("{c} is in diagnostics.enables; the all-enabled run has {} diagnostic(s) of that code, this run {}", r.len(), o.len())));
        } else {
            classes.push(if r.is_empty() { "enables: code not triggered" } else { "enables: reported" });
        }
    }
    // severity
    let sev: BTreeMap<&str, u8> = knobs.iter().filter_map(|k| if let Knob::Severity(c, s) = k { Some((c.as_str(), SEVERITIES[*s].1)) } else { None }).collect();
    for d in obs {
        if d.sev.is_none() {
            bad.push(("no-severity".into(), format!("{} has no severity", d.short())));
        }
        if let Some(want) = sev.get(d.code.as_str()) {
            if d.sev != Some(*want) {
                bad.push(("configured-severity-not-used".into(), format!("{} has severity {:?}, configured {}", d.short(), d.sev, want)));
            } else {
                classes.push("severity: override applied");
            }
        }
    }
    // globals
    let gl: Vec<&str> = knobs.iter().filter_map(|k| if let Knob::Globals(g) = k { Some(g.as_str()) } else { None }).collect();
    let rx: Vec<usize> = knobs.iter().filter_map(|k| if let Knob::Regex(i) = k { Some(*i) } else { None }).collect();
    if !gl.is_empty() || !rx.is_empty() {
        let lines: Vec<&str> = text.split('\n').collect();
        for d in obs.iter().filter(|d| d.code == "undefined-global") {
            // the name is the text under the range (single line, ASCII bank)
            let name = lines.get(d.sl as usize).and_then(|l| l.get(d.sc as usize..d.ec as usize)).unwrap_or("");
            if d.sl != d.el || name.is_empty() {
                continue;
            }
            if gl.contains(&name) {
                bad.push(("listed-global-reported".into(), format!("`{name}` is in diagnostics.globals but {} is reported", d.short())));
            }
            for i in &rx {
                if regex_matches(*i, name) == Some(true) {
                    bad.push(("regex-global-reported".into(), format!("`{name}` matches globalsRegex {:?} but {} is reported", REGEXES[*i], d.short())));
                }
            }
        }
        let silenced = reference.iter().filter(|d| d.code == "undefined-global").count();
        let _ = silenced;
        classes.push("globals/regex knob: listed names absent");
    }
    if classes.is_empty() {
        classes.push("main file, no rule of the statement applies");
    }
    bad.sort();
    match bad.into_iter().next() {
        Some((s, d)) => Verdict::Bad(s, d),
        None => Verdict::Ok(classes),
    }
}

#[derive(Clone, Debug)]
pub struct Case {
    pub snippet: usize,
    pub pl: Pl,
    pub fl: Fl,
    pub fl_code: String,
    pub knobs: Vec<Knob>,
}

impl Case {
    pub fn witness(&self) -> Value {
        json!({
            "snippet": BANK[self.snippet].0,
            "place": PLS.iter().find(|p| p.0 == self.pl).unwrap().1,
            "file_level": FLS.iter().find(|p| p.0 == self.fl).unwrap().1,
            "file_level_code": if self.fl == Fl::None { "" } else { self.fl_code.as_str() },
            "config": self.knobs.iter().map(|k| k.name()).collect::<Vec<_>>(),
        })
    }
    pub fn from_witness(w: &Value) -> Option<Case> {
        Some(Case {
            snippet: BANK.iter().position(|b| Some(b.0) == w["snippet"].as_str())?,
            pl: PLS.iter().find(|p| Some(p.1) == w["place"].as_str())?.0,
            fl: FLS.iter().find(|p| Some(p.1) == w["file_level"].as_str())?.0,
            fl_code: w["file_level_code"].as_str()?.to_string(),
            knobs: w["config"].as_array()?.iter().map(|k| k.as_str().and_then(Knob::parse)).collect::<Option<Vec<_>>>()?,
        })
    }
}

fn observe(ws: &mut Ws, pl: Pl, text: &str) -> Option<Vec<D>> {
    let place = match pl {
        Pl::Main | Pl::Meta => Place::Main,
        Pl::Library => Place::Library,
        Pl::Std => Place::Std,
    };
    let (_, r) = ws.diagnose_at(place, text);
    let out = r.map(|v| flat_sorted(&v));
    if place != Place::Main {
        ws.remove_at(place);
    }
    out
}

/// run one case completely (reference run + run under test) on `ws`
pub fn run_case(ws: &mut Ws, case: &Case) -> Verdict {
    let snippet = BANK[case.snippet].1;
    ws.set_config(reference_config(&case.knobs));
    ws.remove_at(Place::Library);
    ws.remove_at(Place::Std);
    let rtext = program(snippet, case.fl, &case.fl_code, false, true);
    let reference = observe(ws, Pl::Main, &rtext).unwrap_or_default();
    ws.set_config(build_config(&case.knobs));
    let text = program(snippet, case.fl, &case.fl_code, case.pl == Pl::Meta, false);
    let obs = observe(ws, case.pl, &text);
    judge(&text, case.pl, case.fl, &case.fl_code, &case.knobs, &obs, &reference)
}

fn signature_of(case: &Case, fresh: bool) -> Option<(String, String)> {
    let r = if fresh { with_fresh_ws(|ws| run_case(ws, case)) } else { with_ws(|ws| run_case(ws, case)) };
    match r {
        Ok(Verdict::Bad(s, d)) => Some((s, d)),
        _ => None,
    }
}

/// reset knobs / file-level line / placement to default, then move to the first snippet and code of
/// the bank that fails the same way
pub fn minimise(case: &Case, sig: &str, tags: &[Vec<String>]) -> Case {
    let same = |c: &Case| signature_of(c, false).is_some_and(|(s, _)| s == sig);
    let mut cur = case.clone();
    loop {
        let mut progressed = false;
        let mut i = 0;
        while i < cur.knobs.len() {
            let mut cand = cur.clone();
            cand.knobs.remove(i);
            if same(&cand) {
                cur = cand;
                progressed = true;
            } else {
                i += 1;
            }
        }
        if cur.fl != Fl::None {
            let mut cand = cur.clone();
            cand.fl = Fl::None;
            if same(&cand) {
                cur = cand;
                progressed = true;
            }
        }
        if cur.pl != Pl::Main {
            let mut cand = cur.clone();
            cand.pl = Pl::Main;
            if same(&cand) {
                cur = cand;
                progressed = true;
            }
        }
        if !progressed {
            break;
        }
    }
    // canonical snippet / code: the first (snippet, code) pair in bank order that fails the same way
    let cur_code: Option<String> = cur.knobs.iter().find_map(|k| k.code().map(|c| c.to_string()));
    'outer: for s in 0..=cur.snippet {
        let mut codes: Vec<Option<String>> = vec![None];
        if cur_code.is_some() {
            codes = tags[s].iter().map(|c| Some(c.clone())).collect();
        }
        for c in codes {
            let mut cand = cur.clone();
            cand.snippet = s;
            if let (Some(old), Some(new)) = (&cur_code, &c) {
                for k in cand.knobs.iter_mut() {
                    match k {
                        Knob::Disable(x) | Knob::Enables(x) | Knob::Severity(x, _) if x == old => *x = new.clone(),
                        _ => {}
                    }
                }
                if cand.fl_code == *old {
                    cand.fl_code = new.clone();
                }
            }
            if s == cur.snippet && c == cur_code {
                break 'outer;
            }
            if same(&cand) {
                cur = cand;
                break 'outer;
            }
        }
    }
    if cur.fl == Fl::None {
        cur.fl_code = String::new();
    }
    cur
}

pub fn replay(w: &Value) -> Option<Violation> {
    let case = Case::from_witness(w)?;
    let (sig, detail) = signature_of(&case, true)?;
    Some(Violation { signature: sig, witness: w.clone(), detail })
}

/// codes each snippet triggers when everything is enabled (main placement)
fn tag_bank() -> Vec<Vec<String>> {
    let r = with_fresh_ws(|ws| {
        ws.set_config(reference_config(&[]));
        BANK.iter()
            .map(|(_, text)| {
                let d = ws.diagnose(text).unwrap_or_default();
                let set: BTreeSet<String> = flat_sorted(&d).into_iter().map(|d| d.code).collect();
                set.into_iter().collect::<Vec<_>>()
            })
            .collect::<Vec<_>>()
    });
    r.unwrap_or_else(|e| die(&format!("tagging the program bank panicked: {e}")))
}

/// sanity of the placements themselves (not the property): the library / std files must be classified so
fn placement_selfcheck() {
    let ok = with_fresh_ws(|ws| {
        let (l, _) = ws.diagnose_at(Place::Library, "print(1)\n");
        let (s, _) = ws.diagnose_at(Place::Std, "print(1)\n");
        let (m, _) = ws.diagnose_at(Place::Main, "print(1)\n");
        let db = ws.analysis.compilation.get_db();
        let wid = |id: Option<emmylua_code_analysis::FileId>| id.and_then(|i| db.get_module_index().get_workspace_id(i));
        let (l, s, m) = (wid(l), wid(s), wid(m));
        let good = m.is_some_and(|w| w.is_main())
            && s == Some(emmylua_code_analysis::WorkspaceId::STD)
            && l.is_some_and(|w| !w.is_main() && w != emmylua_code_analysis::WorkspaceId::STD);
        (good, format!("main={m:?} library={l:?} std={s:?}"))
    });
    match ok {
        Ok((true, _)) => {}
        Ok((false, d)) => die(&format!("placement self-check failed: {d}")),
        Err(e) => die(&format!("placement self-check panicked: {e}")),
    }
}

pub fn run(args: &Args) -> ! {
    if let Some(w) = args.replay_witness() {
        finish_replay(replay(&w["witness"]).or_else(|| replay(&w)), "C20");
    }
    let dl = args.deadline();
    let mut rep = Report::new("C20", "exploration");
    placement_selfcheck();
    let tags = tag_bank();
    let bank_codes: BTreeSet<String> = tags.iter().flatten().cloned().collect();
    if args.extra.contains_key("showbank") {
        for (i, t) in tags.iter().enumerate() {
            eprintln!("{:28} {:?}", BANK[i].0, t);
        }
        eprintln!("{} codes: {:?}", bank_codes.len(), bank_codes);
    }
    if bank_codes.len() < 25 {
        die(&format!("program bank triggers only {} codes (<25): {:?}", bank_codes.len(), bank_codes));
    }
    let dev = args.extra_usize("dev").unwrap_or(args.tier.pick(1, 2));

    // single knobs
    let mut singles: Vec<Knob> = vec![Knob::EnableFalse];
    for c in all_code_names() {
        singles.push(Knob::Disable(c.clone()));
        singles.push(Knob::Enables(c.clone()));
        for s in 0..SEVERITIES.len() {
            singles.push(Knob::Severity(c.clone(), s));
        }
    }
    for g in ["gfoo", "name_x", "nomod", "zz_unrelated", "self", "G47"] {
        singles.push(Knob::Globals(g.to_string()));
    }
    for i in 0..REGEXES.len() {
        singles.push(Knob::Regex(i));
    }
    // configurations by deviation; pairs ordered: same code first, then code × non-code, then the rest
    let mut levels: Vec<Vec<Vec<Knob>>> = vec![vec![vec![]], singles.iter().map(|k| vec![k.clone()]).collect()];
    if dev >= 2 {
        let mut same = Vec::new();
        let mut mixed = Vec::new();
        let mut rest = Vec::new();
        for i in 0..singles.len() {
            for j in i + 1..singles.len() {
                let (a, b) = (&singles[i], &singles[j]);
                // two values of the same map key / the same list entry are not two deviations
                if let (Knob::Severity(c1, _), Knob::Severity(c2, _)) = (a, b) {
                    if c1 == c2 {
                        continue;
                    }
                }
                let pair = vec![a.clone(), b.clone()];
                match (a.code(), b.code()) {
                    (Some(x), Some(y)) if x == y => same.push(pair),
                    (Some(_), Some(_)) => rest.push(pair),
                    _ => mixed.push(pair),
                }
            }
        }
        levels.push(same);
        levels.push(mixed);
        levels.push(rest);
    } else {
        // quick tier: two knobs of ONE code (disable×severity, disable×enables, enables×severity) are the
        // precedence cases of the statement; they are run against the snippets that trigger that code only.
        let mut same = Vec::new();
        for i in 0..singles.len() {
            for j in i + 1..singles.len() {
                let (a, b) = (&singles[i], &singles[j]);
                if let (Knob::Severity(..), Knob::Severity(..)) = (a, b) {
                    continue;
                }
                if let (Some(x), Some(y)) = (a.code(), b.code()) {
                    if x == y {
                        same.push(vec![a.clone(), b.clone()]);
                    }
                }
            }
        }
        levels.push(same);
    }
    let focused_level = if dev >= 2 { usize::MAX } else { 2 };
    let level_names = ["deviation 0", "deviation 1", if dev >= 2 { "deviation 2: two knobs of one code" } else { "deviation 2: two knobs of one code × the snippets triggering that code" }, "deviation 2: code knob × non-code knob", "deviation 2: knobs of two codes"];

    let mut all = Stats::default();
    let mut completed: Vec<&str> = Vec::new();
    let mut n_cfg = 0u64;
    let not_reproduced = std::sync::atomic::AtomicU64::new(0);
    let panics = std::sync::atomic::AtomicU64::new(0);
    for (li, cfgs) in levels.iter().enumerate() {
        let (st, ok) = par_range(cfgs.len() as u64, args.threads, &dl, |i, st| {
            let knobs = &cfgs[i as usize];
            let cfg_code: Option<String> = knobs.iter().find_map(|k| k.code().map(|c| c.to_string()));
            // reference runs for every snippet × file-level line, then the runs under test
            let r = with_ws(|ws| {
                ws.remove_at(Place::Library);
                ws.remove_at(Place::Std);
                let mut out: Vec<(Case, Verdict)> = Vec::new();
                let fl_code_of = |s: usize| -> String { cfg_code.clone().unwrap_or_else(|| tags[s].first().cloned().unwrap_or_else(|| "unused".to_string())) };
                ws.set_config(reference_config(knobs));
                let mut refs: Vec<Vec<Vec<D>>> = Vec::new();
                let skip = |s: usize| li == focused_level && !cfg_code.as_ref().is_some_and(|c| tags[s].contains(c));
                for (s, (_, snippet)) in BANK.iter().enumerate() {
                    if skip(s) {
                        refs.push(Vec::new());
                        continue;
                    }
                    let code = fl_code_of(s);
                    refs.push(FLS.iter().map(|(fl, _)| observe(ws, Pl::Main, &program(snippet, *fl, &code, false, true)).unwrap_or_default()).collect());
                }
                ws.set_config(build_config(knobs));
                for (s, (_, snippet)) in BANK.iter().enumerate() {
                    if skip(s) {
                        continue;
                    }
                    let code = fl_code_of(s);
                    for (fi, (fl, _)) in FLS.iter().enumerate() {
                        for (pl, _) in PLS.iter() {
                            let text = program(snippet, *fl, &code, *pl == Pl::Meta, false);
                            let obs = observe(ws, *pl, &text);
                            let v = judge(&text, *pl, *fl, &code, knobs, &obs, &refs[s][fi]);
                            out.push((Case { snippet: s, pl: *pl, fl: *fl, fl_code: code.clone(), knobs: knobs.clone() }, v));
                        }
                    }
                }
                out
            });
            let out = match r {
                Ok(o) => o,
                Err(_) => {
                    panics.fetch_add(1, std::sync::atomic::Ordering::Relaxed);
                    st.undecided += 1;
                    st.outcome("panic (undecided here; C12)");
                    return;
                }
            };
            for (case, v) in out {
                match v {
                    Verdict::Undecided(why) => {
                        st.undecided += 1;
                        st.outcome(&format!("undecided: {why}"));
                    }
                    Verdict::Ok(classes) => {
                        let nontrivial = classes.iter().any(|c| !c.contains("not triggered") && !c.contains("no rule"));
                        st.eval(nontrivial);
                        let mut cs = classes.clone();
                        cs.sort();
                        cs.dedup();
                        for c in cs {
                            st.outcome(c);
                        }
                        if nontrivial && (i + case.snippet as u64) % 211 == 0 {
                            st.sample(|| json!({"case": case.witness(), "verdict": classes}));
                        }
                    }
                    Verdict::Bad(sig, _) => {
                        st.eval(true);
                        st.outcome(&format!("VIOLATION {sig}"));
                        let min = minimise(&case, &sig, &tags);
                        match signature_of(&min, true) {
                            Some((s2, detail)) if s2 == sig => st.violation(Violation { signature: sig, witness: min.witness(), detail }),
                            _ => {
                                not_reproduced.fetch_add(1, std::sync::atomic::Ordering::Relaxed);
                                st.undecided += 1;
                                st.outcome("not reproduced in a fresh analysis (not reported)");
                            }
                        }
                    }
                }
            }
        });
        all.merge(st);
        if ok {
            completed.push(level_names[li]);
            n_cfg += cfgs.len() as u64;
        } else {
            break;
        }
    }
    rep.rule = format!(
        "program bank of {} snippets triggering {} distinct codes when every code is enabled × every configuration at deviation ≤{dev} from the default (quick: plus every pair of knobs of one code, against the snippets triggering that code) over {{diagnostics.enable=false; disable∋c, enables∋c, severity[c]=s for each of the {} codes and 4 severities; globals∋g for 6 names; globalsRegex∋r for 5 patterns}} × file-level line {{none, ---@diagnostic enable: c, ---@diagnostic disable: c}} (c = the configuration's code, else the snippet's first code) × placement {{main, meta, library root, std root}}. Decision table: enable=false ⇒ nothing; library/std/meta ⇒ nothing (meta with file-level enable: undecided); main: c∈disable without file-level enable ⇒ no c; c∈disable with file-level enable:c ⇒ exactly the c-diagnostics of the reference run; c∈enables, c∉disable, no file-level disable:c ⇒ exactly the c-diagnostics of the reference run; severity[c]=s ⇒ every c-diagnostic has severity s, and every diagnostic has a severity; a name in globals / matching globalsRegex (hand-written matcher) is never under an undefined-global diagnostic. Reference run = same text with the file-level line as a plain comment of equal length, every code enabled, same globals/regex. non-trivial = a rule applied to a code the snippet really triggers or to a silent placement.",
        BANK.len(),
        bank_codes.len(),
        all_code_names().len()
    );
    rep.exhaustive = completed.len() == levels.len();
    rep.bounds = json!({"deviation_target": dev, "levels_completed": completed, "configurations_completed": n_cfg,
        "bank_snippets": BANK.len(), "bank_codes": bank_codes.len(), "single_knobs": singles.len(),
        "wall_cap_s": args.wall_cap_s, "wall_cap_hit": dl.was_hit()});
    rep.assumptions = vec![
        "cases the statement leaves open are not judged: meta file with file-level enable; code in enables with a file-level disable; default-enabled codes under no knob".into(),
        "a file-level `enable: c` for a code in diagnostics.disable is read as: c is then reported as in the all-enabled run".into(),
        "library and std placements are virtual paths under the registered roots (self-checked against the module index at start)".into(),
        "one analysis per worker thread is reused; every violation is minimised and re-confirmed in a fresh analysis".into(),
    ];
    rep.set("bank_codes", json!(bank_codes));
    rep.set("panics", json!(panics.load(std::sync::atomic::Ordering::Relaxed)));
    rep.set("not_reproduced_in_fresh_analysis", json!(not_reproduced.load(std::sync::atomic::Ordering::Relaxed)));
    rep.finish(args, all)
}
