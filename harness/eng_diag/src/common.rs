//! Shared pieces of the diagnostic engine: alphabets (copied from eng_parser), a reusable
//! per-thread analysis with the std library loaded, and a flat, comparable form of a diagnostic.
use emmylua_code_analysis::{EmmyLuaAnalysis, Emmyrc, FileId, WorkspaceFolder, file_path_to_uri, get_best_resources_dir};
use lsp_types::{Diagnostic, NumberOrString, Uri};
use serde_json::{Value, json};
use std::cell::RefCell;
use std::path::PathBuf;
use std::sync::Arc;
use tokio_util::sync::CancellationToken;

/// Σ₁: one fragment per lexer/parser shortcut visible in the code (same as eng_parser::common::SIGMA1).
pub const SIGMA1: &[&str] = &[
    // names / keywords
    "a", "local ", "function ", "end ", "if ", "then ", "else ", "for ", "in ", "do ", "while ", "repeat ", "until ",
    "return ", "goto ", "global ", "not ", "nil",
    // operators, brackets, separators
    "=", "==", "~=", "<", ">", "+", "-", "..", "...", ".", ":", "::", ",", ";", "(", ")", "{", "}", "[", "]", "#", "//", "/*", "*/",
    "?", "|", "@", "!", "`", "$",
    // literals
    "1", "0x", "1e", "\"", "'", "[[", "]]", "[=[", "\\",
    // comments and docs
    "--", "---@", "---|", "--[[", "--region", "--endregion", "---@class ", "---@type ", "---@param ", "#!",
    // trivia and unusual characters
    "\n", "\r", " ", "\t", "\0", "\u{feff}", "é", "中", "😀",
];

/// Σ₂: statement- and annotation-sized fragments (same as eng_parser::common::SIGMA2).
pub const SIGMA2: &[&str] = &[
    "local t = {", "function f(", "local function f(a, b)\n", "return function()\n", "if a then\n", "elseif b then\n", "else\n",
    "end\n", "for i = 1, 2 do\n", "for k, v in pairs(t) do\n", "while a do\n", "repeat\n", "until a\n", "::l::\n", "goto l\n",
    "a.b:c(1)[2] = 3\n", "x = 1 + 2 * -3 ^ 4 .. 's'\n", "}\n", ")\n", "[1] = 2,", "x = y;", "f{...}\n", "f'x'\n",
    "---@class A : B\n", "---@field x integer?\n", "---@param x fun(a: string): T[]\n", "---@alias X\n", "---| 'a' # d\n",
    "---@type table<string, {x: 1, y?: A}>\n", "---@generic T : A\n", "---@return T ... desc\n", "---@overload fun(...): A | B\n",
    "---```lua\n", "---```\n", "--- text *x* `y`\n", "---@cast a +?\n", "---@diagnostic disable-next-line: x\n", "---@enum (key) E\n",
    "---@operator add(A): B\n", "--[[ c ]] ", "--region r\n", "--endregion\n", "local x <const> = 1\n", "\0", "\r\n",
];

pub fn word_text(sigma: &[&str], w: &[usize]) -> String {
    let mut s = String::new();
    for &i in w {
        s.push_str(sigma[i]);
    }
    s
}

/// the bundled std library sources (read from the working tree at run time)
pub fn std_files() -> Vec<(String, String)> {
    let root = vcore::repo_root().join("crates/emmylua_code_analysis/resources/std");
    let mut out = Vec::new();
    fn walk(p: &std::path::Path, out: &mut Vec<(String, String)>) {
        let Ok(rd) = std::fs::read_dir(p) else { return };
        let mut es: Vec<_> = rd.flatten().map(|e| e.path()).collect();
        es.sort();
        for e in es {
            if e.is_dir() {
                walk(&e, out);
            } else if e.extension().is_some_and(|x| x == "lua") {
                if let Ok(t) = std::fs::read_to_string(&e) {
                    out.push((e.file_name().unwrap().to_string_lossy().to_string(), t));
                }
            }
        }
    }
    walk(&root, &mut out);
    out
}

// ---------------------------------------------------------------- flat diagnostics

/// A diagnostic reduced to the fields the properties talk about, totally ordered.
#[derive(Clone, Debug, PartialEq, Eq, PartialOrd, Ord, Hash)]
pub struct D {
    pub sl: u32,
    pub sc: u32,
    pub el: u32,
    pub ec: u32,
    pub code: String,
    pub sev: Option<u8>,
    pub msg: String,
}

pub fn sev_num(s: lsp_types::DiagnosticSeverity) -> u8 {
    if s == lsp_types::DiagnosticSeverity::ERROR {
        1
    } else if s == lsp_types::DiagnosticSeverity::WARNING {
        2
    } else if s == lsp_types::DiagnosticSeverity::INFORMATION {
        3
    } else if s == lsp_types::DiagnosticSeverity::HINT {
        4
    } else {
        0
    }
}

pub fn flat(d: &Diagnostic) -> D {
    D {
        sl: d.range.start.line,
        sc: d.range.start.character,
        el: d.range.end.line,
        ec: d.range.end.character,
        code: match &d.code {
            Some(NumberOrString::String(s)) => s.clone(),
            Some(NumberOrString::Number(n)) => format!("#{n}"),
            None => "<no code>".to_string(),
        },
        sev: d.severity.map(sev_num),
        msg: d.message.clone(),
    }
}

impl D {
    pub fn json(&self) -> Value {
        json!({"range": [self.sl, self.sc, self.el, self.ec], "code": self.code, "severity": self.sev, "message": self.msg})
    }
    pub fn short(&self) -> String {
        format!("{}@{}:{}-{}:{}", self.code, self.sl, self.sc, self.el, self.ec)
    }
}

pub fn flat_sorted(v: &[Diagnostic]) -> Vec<D> {
    let mut o: Vec<D> = v.iter().map(flat).collect();
    o.sort();
    o
}

// ---------------------------------------------------------------- workspace

#[derive(Clone, Copy, PartialEq, Eq, Debug)]
pub enum Place {
    Main,
    Library,
    Std,
}

/// One analysis with the std library loaded, a main workspace root and a library root.
/// All roots are virtual paths below the `--work` directory (nothing is written there).
pub struct Ws {
    pub analysis: EmmyLuaAnalysis,
    pub main_uri: Uri,
    pub lib_uri: Uri,
    pub std_uri: Uri,
}

static WORK: std::sync::OnceLock<PathBuf> = std::sync::OnceLock::new();

/// Set once from `--work`; the roots below it are virtual (the engine never creates files).
pub fn set_work_root(p: PathBuf) {
    let _ = WORK.set(p);
}
pub fn work_root() -> PathBuf {
    WORK.get().cloned().unwrap_or_else(|| PathBuf::from("/nonexistent/eng_diag"))
}

impl Ws {
    pub fn new() -> Ws {
        let mut analysis = EmmyLuaAnalysis::new();
        analysis.init_std_lib(None);
        let base = work_root();
        let main_root = base.join("main");
        let lib_root = base.join("lib");
        analysis.add_main_workspace(main_root.clone());
        analysis.add_library_workspace(&WorkspaceFolder::new(lib_root.clone(), true));
        let std_root = get_best_resources_dir().join("std");
        let uri = |p: PathBuf| file_path_to_uri(&p).unwrap_or_else(|| vcore::die("cannot build file uri"));
        Ws {
            analysis,
            main_uri: uri(main_root.join("case.lua")),
            lib_uri: uri(lib_root.join("case.lua")),
            std_uri: uri(std_root.join("zz_case.lua")),
        }
    }

    pub fn set_config(&mut self, rc: Emmyrc) {
        self.analysis.update_config(Arc::new(rc));
    }

    fn uri(&self, p: Place) -> Uri {
        match p {
            Place::Main => self.main_uri.clone(),
            Place::Library => self.lib_uri.clone(),
            Place::Std => self.std_uri.clone(),
        }
    }

    /// (re)place the case file, diagnose it. `None` = diagnose_file returned None.
    pub fn diagnose_at(&mut self, place: Place, text: &str) -> (Option<FileId>, Option<Vec<Diagnostic>>) {
        let uri = self.uri(place);
        let id = self.analysis.update_file_by_uri(&uri, Some(text.to_string()));
        let r = id.and_then(|id| self.analysis.diagnose_file(id, CancellationToken::new()));
        (id, r)
    }

    pub fn remove_at(&mut self, place: Place) {
        let uri = self.uri(place);
        self.analysis.remove_file_by_uri(&uri);
    }

    pub fn diagnose(&mut self, text: &str) -> Option<Vec<Diagnostic>> {
        self.diagnose_at(Place::Main, text).1
    }
}

thread_local! {
    static WS: RefCell<Option<Ws>> = const { RefCell::new(None) };
}

/// Run `f` with this thread's reusable workspace. If `f` panics the workspace is discarded
/// (its state may be inconsistent) and the panic text is returned.
pub fn with_ws<R>(f: impl FnOnce(&mut Ws) -> R) -> Result<R, String> {
    WS.with(|cell| {
        let mut slot = cell.borrow_mut();
        if slot.is_none() {
            *slot = Some(Ws::new());
        }
        let ws = slot.as_mut().unwrap();
        match vcore::catch(|| f(ws)) {
            Ok(r) => Ok(r),
            Err(e) => {
                *slot = None;
                Err(e)
            }
        }
    })
}

/// Same, in a brand-new workspace (used to confirm a violating case independently of history).
pub fn with_fresh_ws<R>(f: impl FnOnce(&mut Ws) -> R) -> Result<R, String> {
    vcore::catch(|| {
        let mut ws = Ws::new();
        f(&mut ws)
    })
}
