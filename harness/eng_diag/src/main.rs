mod c19;
mod c20;
mod c21;
mod common;

fn main() {
    let args = vcore::parse_args();
    let work = args.extra.get("work").cloned().unwrap_or_else(|| "/nonexistent/eng_diag".to_string());
    let work = std::path::Path::new(&work);
    let work = if work.is_absolute() { work.to_path_buf() } else { std::env::current_dir().unwrap_or_default().join(work) };
    common::set_work_root(work.join("eng_diag_virtual"));
    emmylua_code_analysis::set_locale("en");
    match args.prop.as_str() {
        "C19" => c19::run(&args),
        "C20" => c20::run(&args),
        "C21" => c21::run(&args),
        "PROBE" => {
            // developer aid: print the diagnostics of --text (\n escapes) under default / --full 1
            let text = args.extra.get("text").cloned().unwrap_or_default();
            let text = text.replace("\\n", "\n").replace("\\0", "\0").replace("\\r", "\r");
            let mut ws = common::Ws::new();
            if args.extra.get("full").is_some() {
                ws.set_config(c21::full_config());
            }
            let t0 = std::time::Instant::now();
            let r = ws.diagnose(&text);
            println!("{:?}", t0.elapsed());
            match r {
                None => println!("None"),
                Some(v) => {
                    for d in common::flat_sorted(&v) {
                        println!("{}", d.json());
                    }
                }
            }
        }
        p => vcore::die(&format!("eng_diag does not serve {p}")),
    }
}
