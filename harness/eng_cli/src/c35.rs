//! C35 — the JSON documentation export is complete and reproducible (seam permutation).
//!
//! Workspaces on disk = every placement of 9 declarations (absent / main workspace / library root; the
//! split class additionally "one half in each"). Each is loaded through the crate's own `load_workspace`
//! and exported through `json_generator::export` (hook H6). The three exported lists take their order
//! from hash collections; the order seams `doc_export.{types,globals,modules}` let the engine dictate
//! that order, and EVERY permutation of every list (full product over the three sites) is exported and
//! compared byte for byte. The real `emmylua_doc_cli` binary is run on the same tree in fresh processes;
//! its output must be one of the outputs reachable through the seams (that shows the seams own the
//! nondeterminism; it is a sampled, supplementary step).
use crate::util::*;
use emmylua_code_analysis::{EmmyLuaAnalysis, Emmyrc, WorkspaceFolder, build_workspace_folders, verif_hooks};
use std::sync::Arc;
use serde_json::{Value, json};
use std::collections::{BTreeMap, BTreeSet, HashMap};
use std::path::{Path, PathBuf};
use std::process::Command;
use std::sync::Mutex;
use std::time::Duration;
use vcore::*;

/// number of declarations
pub const ND: usize = 9;
/// index of the configuration digit in a placement
const CFG: usize = ND;
pub const DECLS: [&str; ND] = ["class", "split", "enum", "alias", "gval", "gtab", "modt", "modv", "modd"];
const PLACE: [&str; 4] = ["absent", "main", "lib", "straddle"];
pub const SITES: [&str; 3] = ["doc_export.types", "doc_export.globals", "doc_export.modules"];

/// (file, content) of declaration d; the split class has two files
fn decl_files(d: usize) -> Vec<(&'static str, &'static str)> {
    match d {
        0 => vec![("cls.lua", "---@class VCls\n---@field x integer\nlocal VCls = {}\n\n---@param n integer\n---@return string\nfunction VCls:name(n) return tostring(n) end\n")],
        1 => vec![
            ("spa.lua", "---@class (partial) VSplit\n---@field a integer\nlocal VSplitA = {}\n"),
            ("spb.lua", "---@class (partial) VSplit\n---@field b string\nlocal VSplitB = {}\n"),
        ],
        2 => vec![("enu.lua", "---@enum VEnum\nlocal VEnum = {\n    A = 1,\n    B = 2,\n}\n")],
        3 => vec![("ali.lua", "---@alias VAlias string|integer\n")],
        4 => vec![("gval.lua", "--- a global value\nVGlobalValue = 42\n")],
        5 => vec![("gtab.lua", "--- a global table\nVGlobalTable = { k = 1, s = \"x\" }\n")],
        6 => vec![("modt.lua", "local M = {}\nM.answer = 42\nfunction M.f(a) return a end\nreturn M\n")],
        7 => vec![("modv.lua", "return 42\n")],
        // a second file with the module name of `modt.lua`: two modules of one name, told apart by their file only
        _ => vec![("modt/init.lua", "return { dup = true }\n")],
    }
}

/// list ("types" | "globals" | "modules"), exported name, expected "type" tag
fn decl_entry(d: usize) -> (&'static str, &'static str, Option<&'static str>) {
    match d {
        0 => ("types", "VCls", Some("class")),
        1 => ("types", "VSplit", Some("class")),
        2 => ("types", "VEnum", Some("enum")),
        3 => ("types", "VAlias", Some("alias")),
        4 => ("globals", "VGlobalValue", Some("field")),
        5 => ("globals", "VGlobalTable", Some("table")),
        6 => ("modules", "modt", None),
        7 => ("modules", "modv", None),
        _ => ("modules", "modt", None),
    }
}

/// placement of the ND declarations + which `.emmyrc.json` the workspace carries (index CFG: 0 plain, 1 rich)
pub type Placement = [u8; ND + 1];

pub fn radices() -> Vec<usize> {
    (0..=ND).map(|d| if d == 1 { 4 } else if d == CFG { 2 } else { 3 }).collect()
}

fn placement_json(p: &Placement) -> Value {
    let mut m = serde_json::Map::new();
    for d in 0..ND {
        if p[d] != 0 {
            m.insert(DECLS[d].to_string(), json!(PLACE[p[d] as usize]));
        }
    }
    Value::Object(m)
}

fn witness_json(p: &Placement) -> Value {
    let mut w = json!({"decls": placement_json(p)});
    if p[CFG] == 1 {
        w["config"] = json!("rich");
    }
    w
}

fn placement_from_json(w: &Value) -> Option<Placement> {
    let mut p = [0u8; ND + 1];
    if w["config"].as_str() == Some("rich") {
        p[CFG] = 1;
    }
    for (k, val) in w["decls"].as_object()? {
        let d = DECLS.iter().position(|x| x == k)?;
        p[d] = PLACE.iter().position(|x| Some(*x) == val.as_str())? as u8;
    }
    Some(p)
}

struct Ws {
    /// files were written to disk (real `load_workspace`, std library loaded) or exist only in memory
    on_disk: bool,
    files: Vec<(PathBuf, String)>,
    rc: Value,
    main: PathBuf,
    /// module names of all main-workspace files (a file without `return` may or may not be listed)
    main_modules: BTreeSet<String>,
}

fn make_workspace(dir: &Path, p: &Placement, on_disk: bool) -> Ws {
    let main = dir.join("main");
    let lib = dir.join("lib");
    if on_disk {
        let _ = std::fs::remove_dir_all(dir);
        std::fs::create_dir_all(&main).unwrap_or_else(|e| die(&format!("mkdir {main:?}: {e}")));
        std::fs::create_dir_all(&lib).unwrap_or_else(|e| die(&format!("mkdir {lib:?}: {e}")));
    }
    let mut texts: Vec<(PathBuf, String)> = Vec::new();
    let mut main_modules = BTreeSet::new();
    for d in 0..ND {
        let files = decl_files(d);
        for (fi, (name, content)) in files.iter().enumerate() {
            let root = match p[d] {
                0 => continue,
                1 => &main,
                2 => &lib,
                _ => {
                    if fi == 0 {
                        &main
                    } else {
                        &lib
                    }
                }
            };
            if on_disk {
                write_file(&root.join(name), content);
            }
            texts.push((root.join(name), content.to_string()));
            if root == &main {
                main_modules.insert(name.trim_end_matches(".lua").trim_end_matches("/init").to_string());
            }
        }
    }
    let mut rc = json!({"workspace": {"library": [lib.to_string_lossy()]}});
    if p[CFG] == 1 {
        // a configuration that fills the two hash maps inside Emmyrc (the export embeds the configuration)
        rc["diagnostics"] = json!({"severity": {
            "unused": "warning", "undefined-global": "warning", "type-not-found": "hint", "missing-return": "error",
            "redefined-local": "information", "deprecated": "warning", "unreachable-code": "warning", "duplicate-type": "error"}});
        rc["runtime"] = json!({"special": {
            "my_require": "require", "my_type": "type", "my_assert": "assert", "my_error": "error", "my_setmetatable": "setmetatable", "my_none": "none"}});
    }
    if on_disk {
        write_file(&main.join(".emmyrc.json"), &serde_json::to_string_pretty(&rc).unwrap());
    }
    // main-workspace files first, each root in name order (the order a directory walk of a fresh tree gives)
    texts.sort_by_key(|(f, _)| (!f.starts_with(&main), f.clone()));
    Ws { on_disk, files: texts, rc, main, main_modules }
}

/// On disk: the crate's own `load_workspace` (reads `.emmyrc.json`, walks the tree, loads the std library).
/// In memory: the same registration calls `load_workspace` makes — configuration, workspace roots from
/// `build_workspace_folders`, `update_files_by_path` — with the file texts handed over directly and WITHOUT
/// the std library (nothing of it may be exported anyway; the on-disk cases keep checking that).
fn load(ws: &Ws) -> EmmyLuaAnalysis {
    if ws.on_disk {
        return emmylua_doc_cli::verif_api::load_workspace(ws.main.clone(), vec![ws.main.clone()], None, None, None)
            .unwrap_or_else(|| die("load_workspace returned None"));
    }
    let emmyrc: Emmyrc = serde_json::from_value(ws.rc.clone()).unwrap_or_else(|e| die(&format!("emmyrc: {e}")));
    // `pre_process_emmyrc` is skipped: the library path is already absolute and has no variables, and the
    // pre-processor starts a `luarocks` process on every call (the on-disk cross-check compares the result)
    let mut a = EmmyLuaAnalysis::new();
    a.update_config(Arc::new(emmyrc));
    let folders = build_workspace_folders(&[WorkspaceFolder::new(ws.main.clone(), false)], &a.emmyrc);
    for w in &folders {
        if w.is_library {
            a.add_library_workspace(w);
        } else {
            a.add_main_workspace(w.root.clone());
        }
    }
    a.update_files_by_path(ws.files.iter().map(|(f, t)| (f.clone(), Some(t.clone()))).collect());
    a
}

/// the files of an on-disk workspace in the order the crate's own directory walk registers them
fn collect_like_disk(ws: &Ws) -> Vec<(PathBuf, String)> {
    let emmyrc: Emmyrc = serde_json::from_value(ws.rc.clone()).unwrap_or_else(|e| die(&format!("emmyrc: {e}")));
    let folders = build_workspace_folders(&[WorkspaceFolder::new(ws.main.clone(), false)], &emmyrc);
    emmylua_code_analysis::collect_workspace_files(&folders, &emmyrc, None, None)
        .into_iter()
        .map(|f| f.into_tuple())
        .filter_map(|(p, t)| t.map(|t| (p, t)))
        .collect()
}

fn export(a: &EmmyLuaAnalysis) -> String {
    let data = emmylua_doc_cli::verif_api::export(a.compilation.get_db());
    serde_json::to_string_pretty(&data).unwrap_or_else(|e| die(&format!("export does not serialise: {e}")))
}

fn site_static(site: &str) -> &'static str {
    SITES.iter().copied().find(|s| *s == site).unwrap_or_else(|| die(&format!("unknown seam {site}")))
}

/// names of one exported list, in output order
fn list_names(doc: &Value, list: &str) -> Vec<(String, Option<String>)> {
    doc[list]
        .as_array()
        .map(|a| a.iter().map(|e| (e["name"].as_str().unwrap_or("?").to_string(), e["type"].as_str().map(String::from))).collect())
        .unwrap_or_default()
}

/// Ω1: every main-workspace declaration exactly once in its list, nothing else (library, std) listed
fn completeness(doc: &Value, p: &Placement, ws: &Ws) -> Vec<(String, String)> {
    let mut bad = Vec::new();
    for list in ["types", "globals", "modules"] {
        if !doc[list].is_array() {
            bad.push((format!("malformed:{list}"), format!("output has no array `{list}`")));
            continue;
        }
        let names = list_names(doc, list);
        let mut count: BTreeMap<&str, usize> = BTreeMap::new();
        for (n, _) in &names {
            *count.entry(n.as_str()).or_insert(0) += 1;
        }
        // name -> (first declaration, kind tag, number of main-workspace declarations of that name: two files
        // of one module name are two modules, each listed once)
        let mut required: BTreeMap<&str, (usize, Option<&str>, usize)> = BTreeMap::new();
        for d in 0..ND {
            let (l, name, tag) = decl_entry(d);
            if l == list && (p[d] == 1 || p[d] == 3) {
                required.entry(name).or_insert((d, tag, 0)).2 += 1;
            }
        }
        for (name, (d, tag, want)) in &required {
            match count.get(name).copied().unwrap_or(0) {
                0 => bad.push((format!("missing:{}", DECLS[*d]), format!("`{name}` is declared in the main workspace but `{list}` does not list it"))),
                n if n == *want && n > 1 => {
                    // same-name modules: the entries must be distinct (one per file)
                    let files: BTreeSet<String> = doc[list].as_array().map(|a| a.iter().filter(|e| e["name"].as_str() == Some(*name)).map(|e| e["file"].to_string()).collect()).unwrap_or_default();
                    if files.len() != n {
                        bad.push((format!("duplicate:{}", DECLS[*d]), format!("`{name}` is declared by {n} files but the {n} entries of `{list}` name {} distinct files", files.len())));
                    }
                }
                n if n < *want => bad.push((format!("missing:{}", DECLS[*d]), format!("`{name}` is declared by {want} main-workspace files but `{list}` lists it {n} times"))),
                1 => {
                    if let Some(tag) = tag {
                        let got = names.iter().find(|(n, _)| n == name).and_then(|(_, t)| t.clone());
                        if got.as_deref() != Some(*tag) {
                            bad.push((format!("wrong-kind:{}", DECLS[*d]), format!("`{name}` is listed as {got:?}, declared as {tag}")));
                        }
                    }
                }
                n => bad.push((format!("duplicate:{}", DECLS[*d]), format!("`{name}` is listed {n} times in `{list}`"))),
            }
        }
        for (n, c) in &count {
            if required.contains_key(n) {
                continue;
            }
            // a main-workspace file without a return statement may legitimately be listed as a module (once)
            if list == "modules" && ws.main_modules.contains(*n) {
                if *c > 1 {
                    bad.push((format!("duplicate-module:{n}"), format!("module `{n}` is listed {c} times")));
                }
                continue;
            }
            let from_lib = (0..ND).any(|d| decl_entry(d).0 == list && decl_entry(d).1 == *n && p[d] == 2);
            let origin = if from_lib { "library" } else { "foreign" };
            bad.push((format!("leak:{origin}:{list}"), format!("`{list}` lists `{n}`, which is not declared in the main workspace")));
        }
    }
    bad
}

/// parsed document with the three lists sorted by name: what is left once the seams are factored out
fn canon_doc(s: &str) -> Option<Value> {
    let mut v: Value = serde_json::from_str(s).ok()?;
    for list in ["types", "globals", "modules"] {
        if let Some(a) = v[list].as_array_mut() {
            a.sort_by_key(|e| (e["name"].as_str().unwrap_or("").to_string(), e.to_string()));
        }
    }
    Some(v)
}

/// path of the first difference between two documents; list elements are named, not numbered
fn diff_path(a: &Value, b: &Value, path: &str) -> Option<String> {
    if a == b {
        return None;
    }
    match (a, b) {
        (Value::Object(x), Value::Object(y)) => {
            let keys: BTreeSet<&String> = x.keys().chain(y.keys()).collect();
            for k in keys {
                match (x.get(k), y.get(k)) {
                    (Some(p), Some(q)) => {
                        if let Some(d) = diff_path(p, q, &format!("{path}.{k}")) {
                            return Some(d);
                        }
                    }
                    _ => return Some(format!("{path}.{k}(presence)")),
                }
            }
            Some(path.to_string())
        }
        (Value::Array(x), Value::Array(y)) => {
            if x.len() != y.len() {
                return Some(format!("{path}(length)"));
            }
            let mut xs: Vec<String> = x.iter().map(|e| e.to_string()).collect();
            let mut ys: Vec<String> = y.iter().map(|e| e.to_string()).collect();
            xs.sort();
            ys.sort();
            if xs == ys {
                return Some(format!("{path}(order)"));
            }
            for (i, (p, q)) in x.iter().zip(y.iter()).enumerate() {
                let label = p["name"].as_str().map(String::from).unwrap_or_else(|| i.to_string());
                if let Some(d) = diff_path(p, q, &format!("{path}.{label}")) {
                    return Some(d);
                }
            }
            Some(path.to_string())
        }
        _ => Some(path.to_string()),
    }
}

/// signature + detail for two exports of one tree that differ although the list orders are accounted for
fn unowned(a: &str, b: &str, what: &str) -> (String, String) {
    let at = a.bytes().zip(b.bytes()).take_while(|(x, y)| x == y).count();
    let ctx = |s: &str| {
        let mut lo = at.saturating_sub(30).min(s.len());
        while !s.is_char_boundary(lo) {
            lo -= 1;
        }
        clip(&s[lo..].replace('\n', " ").split_whitespace().collect::<Vec<_>>().join(" "), 90)
    };
    let path = match (canon_doc(a), canon_doc(b)) {
        (Some(x), Some(y)) => diff_path(&x, &y, "").map(|p| p.trim_start_matches('.').to_string()).unwrap_or_else(|| "object-key-order".into()),
        _ => "unparseable".into(),
    };
    // the workspace location is not part of the identity of a finding
    (format!("unowned-nondeterminism:{path}"), format!("{what}: `{path}` differs — …{}… vs …{}…", ctx(a), ctx(b)))
}

fn factorial(n: usize) -> usize {
    (1..=n).product::<usize>().max(1)
}

#[derive(Default)]
struct CaseOut {
    violations: Vec<(String, String)>,
    exports: u64,
    states: u64,
    lens: [usize; 3],
    bin_runs: u64,
    bin_ok: u64,
    bin_distinct: usize,
    outcome: String,
    skipped_sites: Vec<String>,
    /// on-disk cases: Some(detail) when the in-memory load (no std library) exports something else
    mem_mismatch: Option<String>,
    mem_checked: bool,
}

struct Opts<'a> {
    binary: Option<&'a Path>,
    bin_runs: usize,
    max_perm_len: usize,
    /// extra in-process loads compared with the first one (fresh hasher instances)
    reloads: usize,
    /// files on disk + the crate's `load_workspace` + std library (needed for the binary), or in memory
    on_disk: bool,
}

/// the whole check of one workspace
fn check_case(dir: &Path, p: &Placement, o: &Opts) -> CaseOut {
    let mut out = CaseOut::default();
    let ws = make_workspace(dir, p, o.on_disk || o.binary.is_some());
    verif_hooks::clear_orders();
    let a1 = load(&ws);
    verif_hooks::clear_orders();
    let _ = emmylua_doc_cli::verif_api::take_seam_lengths();
    let out0 = export(&a1);
    out.exports += 1;
    let seen = emmylua_doc_cli::verif_api::take_seam_lengths();
    let mut lens = [0usize; 3];
    for (si, s) in SITES.iter().enumerate() {
        match seen.iter().filter(|(n, _)| n == s).count() {
            1 => lens[si] = seen.iter().find(|(n, _)| n == s).unwrap().1,
            n => die(&format!("seam {s} was passed {n} times by one export (expected once): hook H6 missing or changed")),
        }
    }
    out.lens = lens;
    let doc0: Value = serde_json::from_str(&out0).unwrap_or_else(|e| die(&format!("export is not JSON: {e}")));
    out.violations.extend(completeness(&doc0, p, &ws));

    // Ω2 (deciding step): bytes identical under every order of every list
    let mut reachable: BTreeSet<String> = BTreeSet::new();
    reachable.insert(out0.clone());
    let perms: Vec<Vec<Vec<usize>>> = lens
        .iter()
        .enumerate()
        .map(|(si, &k)| {
            if k <= o.max_perm_len {
                permutations(k)
            } else {
                out.skipped_sites.push(SITES[si].to_string());
                vec![(0..k).collect()]
            }
        })
        .collect();
    let mut site_differs = [false; 3];
    let mut combo_differs = false;
    let total: usize = perms.iter().map(|v| v.len()).product();
    let mut idx = vec![0usize; 3];
    for n in 0..total {
        let mut r = n;
        for s in (0..3).rev() {
            idx[s] = r % perms[s].len();
            r /= perms[s].len();
        }
        if idx.iter().all(|&i| i == 0) {
            continue; // identity everywhere = out0
        }
        verif_hooks::clear_orders();
        for s in 0..3 {
            if idx[s] != 0 {
                verif_hooks::install_order(site_static(SITES[s]), perms[s][idx[s]].clone());
            }
        }
        let outn = export(&a1);
        out.exports += 1;
        if outn != out0 {
            let moved: Vec<usize> = (0..3).filter(|&s| idx[s] != 0).collect();
            if moved.len() == 1 {
                site_differs[moved[0]] = true;
            } else {
                combo_differs = true;
            }
            // a permuted output must still be complete
            if reachable.len() < 4096 {
                reachable.insert(outn);
            }
        }
    }
    verif_hooks::clear_orders();
    let _ = emmylua_doc_cli::verif_api::take_seam_lengths();
    out.states = total as u64;
    for s in 0..3 {
        if site_differs[s] {
            out.violations.push((
                format!("order-dependent:{}", SITES[s]),
                format!("the export bytes change with the iteration order of the hash collection behind `{}` ({} entries, {} orders tried)", SITES[s], lens[s], factorial(lens[s])),
            ));
        }
    }
    if combo_differs && !site_differs.iter().any(|b| *b) {
        out.violations.push(("order-dependent:combination".into(), "the export bytes change only when two lists are reordered together".into()));
    }

    // fresh hasher instances, in-process: a second load must give the same bytes once the seams are pinned
    let canon = |a: &EmmyLuaAnalysis, base: &str| -> String {
        let doc: Value = serde_json::from_str(base).unwrap_or(Value::Null);
        verif_hooks::clear_orders();
        for (si, list) in ["types", "globals", "modules"].iter().enumerate() {
            let names = list_names(&doc, list);
            if names.len() != lens[si] {
                continue; // the seam vector is not the output list (an entry was dropped later); leave it
            }
            // entries of one name (two files of one module name) are told apart by their whole content
            let whole: Vec<String> = doc[*list].as_array().map(|a| a.iter().map(|e| e.to_string()).collect()).unwrap_or_default();
            let mut order: Vec<usize> = (0..names.len()).collect();
            order.sort_by(|&x, &y| names[x].cmp(&names[y]).then_with(|| whole[x].cmp(&whole[y])).then(x.cmp(&y)));
            verif_hooks::install_order(site_static(SITES[si]), order);
        }
        let s = export(a);
        verif_hooks::clear_orders();
        s
    };
    let c1 = canon(&a1, &out0);
    out.exports += 1;
    let mut unowned_found = false;
    // when the bytes depend on a list order, outputs of different loads cannot be lined up by pinning the seams
    // (the lists are partly sorted after the seam): the order dependence is the finding, the comparisons below
    // would only restate it
    let order_dependent = site_differs.iter().any(|b| *b) || combo_differs;
    for _ in 0..(if order_dependent { 0 } else { o.reloads }) {
        let a2 = load(&ws);
        verif_hooks::clear_orders();
        let out0b = export(&a2);
        let c2 = canon(&a2, &out0b);
        out.exports += 2;
        if c1 != c2 {
            out.violations.push(unowned(&c1, &c2, "two loads of the same tree in one process, list orders pinned"));
            unowned_found = true;
            break;
        }
    }

    // on-disk cases validate the in-memory shortcut of the exhaustive phase: same tree, no std library,
    // texts handed over directly — must export the same bytes once the list orders are pinned
    if ws.on_disk && !order_dependent {
        // same files in the same registration order as the directory walk of `load_workspace`
        let mut wm = make_workspace(dir, p, false);
        wm.files = collect_like_disk(&wm);
        let am = load(&wm);
        verif_hooks::clear_orders();
        let om = export(&am);
        let cm = canon(&am, &om);
        out.exports += 2;
        out.mem_checked = true;
        if cm != c1 {
            out.mem_mismatch = Some(unowned(&c1, &cm, "on-disk load with std library vs in-memory load without").1);
        }
    }

    // the real binary, fresh processes (sampled, supplementary)
    let mut outcome = format!("types={} globals={} modules={}", lens[0], lens[1], lens[2]);
    if let Some(bin) = o.binary {
        let mut outs: Vec<String> = Vec::new();
        for r in 0..o.bin_runs {
            let dest = dir.join(format!("out{r}")).join("doc.json");
            let mut cmd = Command::new(bin);
            cmd.arg(&ws.main).args(["--output-format", "json", "--output"]).arg(&dest).current_dir(dir);
            let pr = run_proc(&mut cmd, Duration::from_secs(120));
            out.bin_runs += 1;
            if pr.code != Some(0) {
                out.violations.push(("binary-failed".into(), format!("emmylua_doc_cli exits with {:?} (signal {:?}, timeout {}): {}", pr.code, pr.signal, pr.timed_out, clip(&lossy(&pr.stderr), 300))));
                continue;
            }
            match std::fs::read_to_string(&dest) {
                Ok(s) => outs.push(s),
                Err(e) => out.violations.push(("binary-no-output".into(), format!("emmylua_doc_cli wrote no {dest:?}: {e}"))),
            }
        }
        let distinct: BTreeSet<&String> = outs.iter().collect();
        out.bin_distinct = distinct.len();
        for s in &distinct {
            if reachable.contains(*s) {
                out.bin_ok += outs.iter().filter(|x| x == s).count() as u64;
            } else if out.skipped_sites.is_empty() && !unowned_found && !order_dependent {
                // not reachable by permuting the lists: something else differs (or in-process ≠ binary)
                out.violations.push(unowned(&out0, s, "real binary in a fresh process vs in-process export"));
                unowned_found = true;
            }
        }
        if distinct.len() > 1 {
            outcome.push_str(" fresh-processes-differ");
        } else {
            outcome.push_str(" fresh-processes-agree");
        }
    }
    if reachable.len() > 1 {
        outcome.push_str(" order-visible");
    }
    out.outcome = outcome;
    out.violations.sort();
    out.violations.dedup_by(|a, b| a.0 == b.0);
    out
}

/// canonical smallest workspace for a signature (tried first so that one root cause = one witness)
fn canonical_for(sig: &str) -> Vec<Placement> {
    let mut p = [0u8; ND + 1];
    match sig {
        "order-dependent:doc_export.types" => {
            p[0] = 1;
            p[2] = 1;
        }
        "order-dependent:doc_export.globals" => {
            p[4] = 1;
            p[5] = 1;
        }
        "order-dependent:doc_export.modules" => {
            p[6] = 1;
            p[7] = 1;
        }
        s if s.starts_with("unowned-nondeterminism:") => {
            // hash-order effects outside the seams are found by sampling; look for them in the smallest
            // workspaces first, with many reloads: the empty one (plain, rich config), then each single declaration
            let mut v = vec![[0u8; ND + 1]];
            let mut rich = [0u8; ND + 1];
            rich[CFG] = 1;
            v.push(rich);
            for d in 0..ND {
                let mut q = [0u8; ND + 1];
                q[d] = 1;
                v.push(q);
                if d == 1 {
                    q[d] = 3;
                    v.push(q);
                }
            }
            return v;
        }
        _ => return vec![],
    }
    vec![p]
}

fn fails_with(dir: &Path, p: &Placement, sig: &str, o: &Opts) -> Option<String> {
    let sampled = sig.starts_with("unowned-nondeterminism:");
    let with_bin = sig.starts_with("binary");
    let o2 = Opts { binary: if with_bin { o.binary } else { None }, bin_runs: o.bin_runs, max_perm_len: o.max_perm_len, reloads: if sampled { 12 } else { 0 }, on_disk: with_bin };
    check_case(dir, p, &o2).violations.into_iter().find(|(s, _)| s == sig).map(|(_, d)| d)
}

type Cache = Mutex<HashMap<String, Option<(Placement, String)>>>;

fn minimise(dir: &Path, p: &Placement, sig: &str, o: &Opts, cache: &Cache) -> (Placement, String) {
    let cands = canonical_for(sig);
    if !cands.is_empty() {
        let known = cache.lock().unwrap().get(sig).cloned();
        let res = match known {
            Some(r) => r,
            None => {
                let r = cands.iter().find_map(|c| fails_with(dir, c, sig, o).map(|d| (*c, d)));
                cache.lock().unwrap().insert(sig.to_string(), r.clone());
                r
            }
        };
        if let Some(r) = res {
            return r;
        }
    }
    let mut cur = *p;
    let mut detail = String::new();
    // drop declarations and the rich configuration, then move library placements into the main workspace
    for d in (0..=ND).rev() {
        if cur[d] == 0 {
            continue;
        }
        let mut cand = cur;
        cand[d] = 0;
        if let Some(dt) = fails_with(dir, &cand, sig, o) {
            cur = cand;
            detail = dt;
        }
    }
    for d in 0..ND {
        if cur[d] > 1 {
            let mut cand = cur;
            cand[d] = 1;
            if let Some(dt) = fails_with(dir, &cand, sig, o) {
                cur = cand;
                detail = dt;
            }
        }
    }
    if detail.is_empty() {
        detail = fails_with(dir, &cur, sig, o).unwrap_or_default();
    }
    (cur, detail)
}

pub fn replay(args: &Args, w: &Value, sig_hint: Option<&str>) -> Option<Violation> {
    let base = work_dir(args, "c35");
    let p = placement_from_json(w).unwrap_or_else(|| die("C35 replay: witness has no decls"));
    let bin = real_bin("emmylua_doc_cli");
    let o = Opts { binary: Some(&bin), bin_runs: 3, max_perm_len: 6, reloads: 12, on_disk: true };
    let r = check_case(&base.join("replay"), &p, &o);
    let _ = std::fs::remove_dir_all(&base);
    let v = match sig_hint {
        Some(s) => r.violations.into_iter().find(|(x, _)| x == s),
        None => r.violations.into_iter().next(),
    };
    v.map(|(s, d)| Violation { signature: s, witness: w.clone(), detail: d })
}

pub fn run(args: &Args) -> ! {
    if let Some(w) = args.replay_witness() {
        let wit = if w.get("witness").is_some() { w["witness"].clone() } else { w.clone() };
        let sig = w["signature"].as_str().map(String::from);
        finish_replay(replay(args, &wit, sig.as_deref()), "C35");
    }
    let dl = args.deadline();
    let base = work_dir(args, "c35");
    let bin = real_bin("emmylua_doc_cli");
    let mut rep = Report::new("C35", "model_checking");
    let rad = radices();
    let total = mixed_total(&rad);
    let thorough = args.tier == Tier::Thorough;
    // bound = number of declarations present, iterated upward
    let mut by_size: Vec<Vec<u64>> = vec![Vec::new(); ND + 1];
    let mut buf = Vec::new();
    for i in 0..total {
        decode_mixed(i, &rad, &mut buf);
        by_size[buf[..ND].iter().filter(|&&x| x != 0).count()].push(i);
    }
    let decode = |i: u64| -> Placement {
        let mut dg = Vec::new();
        decode_mixed(i, &rad, &mut dg);
        let mut p = [0u8; ND + 1];
        for d in 0..=ND {
            p[d] = dg[d] as u8;
        }
        p
    };
    let max_size = args.extra_usize("decls").unwrap_or(ND).min(ND);
    let cache: Cache = Mutex::new(HashMap::new());
    let counters: Mutex<(u64, u64, u64, u64, u64, [usize; 3])> = Mutex::new((0, 0, 0, 0, 0, [0; 3]));
    let mem_checks: Mutex<(u64, Vec<String>)> = Mutex::new((0, Vec::new()));
    let mut all = Stats::default();

    let run_case = |p: &Placement, o: &Opts, dir: &Path, st: &mut Stats, sample: bool, label: &str| {
        let r = match catch(|| check_case(dir, p, o)) {
            Ok(r) => r,
            Err(msg) => {
                verif_hooks::clear_orders();
                st.eval(true);
                st.outcome("panic");
                st.violation(Violation { signature: format!("panic:{}", panic_site(&msg)), witness: witness_json(p), detail: msg });
                return;
            }
        };
        let nontrivial = p[..ND].iter().any(|&x| x != 0);
        st.evaluations += r.states.max(1);
        st.nontrivial += if nontrivial { r.states.max(1) } else { 0 };
        st.outcome(&format!("{label}: {}", r.outcome));
        {
            let mut c = counters.lock().unwrap();
            c.0 += r.states;
            c.1 += r.exports;
            c.2 += r.bin_runs;
            c.3 += r.bin_ok;
            c.4 += 1;
            for s in 0..3 {
                c.5[s] = c.5[s].max(r.lens[s]);
            }
        }
        if r.mem_checked {
            let mut m = mem_checks.lock().unwrap();
            m.0 += 1;
            if let Some(d) = &r.mem_mismatch {
                m.1.push(format!("{}: {d}", witness_json(p)));
            }
        }
        if sample {
            st.sample(|| json!({"phase": label, "case": witness_json(p), "list_lengths": {"types": r.lens[0], "globals": r.lens[1], "modules": r.lens[2]}, "orders_exported": r.states, "binary_runs": r.bin_runs, "outcome": r.outcome}));
        }
        for (sig, _detail) in &r.violations {
            // minimisation re-runs the case in memory (cheap); process-level signatures re-run the binary
            let om = Opts { binary: o.binary, bin_runs: o.bin_runs, max_perm_len: o.max_perm_len, reloads: o.reloads, on_disk: false };
            let (mp, md) = minimise(dir, p, sig, &om, &cache);
            st.violation(Violation { signature: sig.clone(), witness: witness_json(&mp), detail: md });
        }
    };

    // ---- phase 1 (deciding, in-process, in memory): every workspace × every seam order, bound iterated upward.
    // Quick tier: the core (≤ 2 declarations) first, then the process-level samples, then bounds 3..8.
    let mut completed: Option<usize> = None;
    let mut workspaces_done = 0u64;
    let mut phase1 = |from: usize, to: usize, all: &mut Stats, completed: &mut Option<usize>| {
        for size in from..=to {
            if size > 0 && *completed != Some(size - 1) {
                return;
            }
            let ids = &by_size[size];
            let (st, ok) = par_range(ids.len() as u64, args.threads, &dl, |n, st| {
                let p = decode(ids[n as usize]);
                let dir = base.join("mem");
                let o = Opts { binary: None, bin_runs: 0, max_perm_len: 6, reloads: 2, on_disk: false };
                run_case(&p, &o, &dir, st, n % 997 == 0, "in-memory");
            });
            all.merge(st);
            if !ok {
                return;
            }
            *completed = Some(size);
            workspaces_done += ids.len() as u64;
        }
    };
    let core = if thorough { max_size } else { max_size.min(2) };
    phase1(0, core, &mut all, &mut completed);

    // ---- phase 2 (process level, on disk, std library loaded; sampled, supplementary)
    // quick: a fixed set of 6 workspaces × 2 fresh processes; thorough: every workspace × 3, bound upward
    let mk = |v: [u8; ND + 1]| -> Placement { v };
    let fixed: Vec<Placement> = vec![
        mk([0, 0, 0, 0, 0, 0, 0, 0, 0, 0]),
        mk([1, 1, 1, 1, 1, 1, 1, 1, 1, 0]),
        mk([1, 1, 1, 1, 1, 1, 1, 1, 1, 1]),
        mk([2, 2, 2, 2, 2, 2, 2, 2, 2, 0]),
        mk([1, 3, 2, 1, 2, 1, 1, 2, 1, 0]),
        mk([1, 0, 1, 0, 0, 0, 0, 0, 0, 0]),
        mk([0, 0, 0, 0, 0, 0, 1, 0, 1, 0]),
    ];
    let mut proc_done = 0u64;
    let mut proc_target = 0u64;
    let mut proc_complete = true;
    if completed.is_some() {
        let groups: Vec<Vec<Placement>> = if thorough {
            (0..=max_size)
                .map(|sz| by_size[sz].iter().map(|&i| decode(i)).filter(|p| p[CFG] == 0 || sz <= 1 || sz == ND).collect())
                .collect()
        } else {
            vec![fixed.clone()]
        };
        let runs = if thorough { 3 } else { 2 };
        for g in &groups {
            proc_target += g.len() as u64;
        }
        for g in &groups {
            let (st, ok) = par_range(g.len() as u64, args.threads, &dl, |n, st| {
                let p = g[n as usize];
                let dir = base.join(format!("d{}", thread_slot()));
                let o = Opts { binary: Some(&bin), bin_runs: runs, max_perm_len: 6, reloads: 1, on_disk: true };
                run_case(&p, &o, &dir, st, thorough && n % 211 == 0 || !thorough, "on-disk+binary");
            });
            let n_done = st.outcomes.values().sum::<u64>();
            all.merge(st);
            proc_done += n_done;
            if !ok {
                proc_complete = false;
                break;
            }
        }
    } else {
        proc_complete = false;
    }
    if core < max_size {
        phase1(core + 1, max_size, &mut all, &mut completed);
    }
    drop(phase1);
    let c = counters.into_inner().unwrap();
    let mem = mem_checks.into_inner().unwrap();
    if let Some(first) = mem.1.first() {
        rep.machinery_error = Some(format!("C35: the in-memory load used by the exhaustive phase does not export what the on-disk load exports ({} of {} cases), e.g. {first}", mem.1.len(), mem.0));
    }
    rep.exhaustive = completed == Some(max_size) && max_size == ND && proc_complete;
    rep.rule = "every declaration placed in the main workspace occurs exactly once (with its kind) in its list (types/globals/modules) and nothing declared only in the library root or the std library occurs; the exported bytes are identical for every iteration order of the three hash collections the lists are built from, for further loads in the same process with those orders pinned, and the real binary's output in fresh processes is one of the outputs reachable through the seams".into();
    rep.bounds = json!({
        "declarations": DECLS,
        "placements": "absent | main | lib (split class also: one half each)",
        "configurations": "plain and rich .emmyrc.json (8 severity overrides, 6 special symbols) for every workspace",
        "workspaces_total": total,
        "bound": "number of declarations present, iterated 0..9",
        "largest_bound_completed": completed,
        "core_bound": "≤ 2 declarations (every placement, both configurations, every seam order) runs before anything else",
        "core_complete": completed.is_some_and(|c| c >= 2.min(max_size)),
        "workspaces_completed": workspaces_done,
        "seam_orders": "full product of all k! orders of the three sites, every workspace",
        "max_list_lengths_seen": {"types": c.5[0], "globals": c.5[1], "modules": c.5[2]},
        "process_level": if thorough { "every workspace on disk through the crate's load_workspace (std library loaded) + 3 fresh processes of the real binary (rich configuration for ≤ 1 or all 9 declarations)" } else { "sampled: a fixed set of 7 workspaces (empty; all in main, plain and rich configuration; all in the library; mixed with the split class straddling; class+enum; two modules of one name) on disk through the crate's load_workspace (std library loaded) + 2 fresh processes of the real binary each" },
        "process_level_workspaces_completed": proc_done,
        "process_level_workspaces_targeted": proc_target,
    });
    rep.assumptions = vec![
        "the exhaustive phase builds each workspace in memory with the registration calls of the crate's load_workspace (configuration, build_workspace_folders, add_main/library_workspace, update_files_by_path) but without reading the disk and without the std library; every on-disk case re-checks that this gives the same bytes as load_workspace with the std library (a mismatch is a machinery error), and the on-disk cases are the ones that show std-library declarations are not exported".into(),
        "the order of each exported list is decided only at the three seams; this is checked, not assumed: further in-process loads (fresh hasher instances) and the fresh-process outputs must be reachable with the seams pinned/permuted, otherwise `unowned-nondeterminism` is reported".into(),
        "the reload and fresh-process comparisons sample hash seeds; the deciding step is the exhaustive permutation of the seams".into(),
        "a main-workspace file without a return statement is allowed but not required to be listed as a module (the statement does not say)".into(),
    ];
    rep.set("states", json!(c.0));
    rep.set("transitions", json!(c.1));
    rep.set("traces_validated_against_impl", json!(c.3));
    rep.set("binary_runs", json!(c.2));
    rep.set("workspaces", json!(c.4));
    rep.set("in_memory_vs_on_disk_checks", json!({"cases": mem.0, "mismatches": mem.1.len()}));
    let _ = std::fs::remove_dir_all(&base);
    rep.finish(args, all)
}
