//! Shared helpers: scratch directories under `--work`, real-binary location, subprocess with
//! timeout, capture of this process's stdout (for the in-process `output_result` runs).
use std::io::Write;
use std::path::{Path, PathBuf};
use std::process::{Command, Stdio};
use std::sync::atomic::{AtomicUsize, Ordering};
use std::time::Duration;

/// scratch root: `<--work>/<sub>`; scratch is never created outside `--work`
pub fn work_dir(args: &vcore::Args, sub: &str) -> PathBuf {
    let Some(w) = args.extra.get("work") else { vcore::die("eng_cli needs --work <scratch dir>") };
    let p = PathBuf::from(w).join(sub);
    let _ = std::fs::remove_dir_all(&p);
    if let Err(e) = std::fs::create_dir_all(&p) {
        vcore::die(&format!("cannot create scratch {p:?}: {e}"));
    }
    p.canonicalize().unwrap_or(p)
}

/// the real binaries are built into the same target directory as the engine
pub fn real_bin(name: &str) -> PathBuf {
    let exe = std::env::current_exe().unwrap_or_else(|e| vcore::die(&format!("current_exe: {e}")));
    let p = exe.parent().map(|d| d.join(name)).unwrap_or_else(|| PathBuf::from(name));
    if !p.is_file() {
        vcore::die(&format!("real binary {p:?} not built (registry \"build\" must list its package)"));
    }
    p
}

static NEXT_SLOT: AtomicUsize = AtomicUsize::new(0);
thread_local! { static SLOT: usize = NEXT_SLOT.fetch_add(1, Ordering::Relaxed); }
/// small dense index of the calling thread (for per-thread scratch directories)
pub fn thread_slot() -> usize {
    SLOT.with(|s| *s)
}

pub struct ProcOut {
    /// exit code, None when killed by a signal or timed out
    pub code: Option<i32>,
    pub signal: Option<i32>,
    pub timed_out: bool,
    pub stdout: Vec<u8>,
    pub stderr: Vec<u8>,
}

/// Run to completion with a wall-clock budget. The budget is enforced inside the child (`alarm`
/// survives `exec`): SIGALRM ends it, which is reported as `timed_out`. No helper threads, no polling.
pub fn run_proc(cmd: &mut Command, timeout: Duration) -> ProcOut {
    use std::os::unix::process::{CommandExt, ExitStatusExt};
    cmd.stdin(Stdio::null());
    let secs = timeout.as_secs().max(1) as libc::c_uint;
    unsafe {
        cmd.pre_exec(move || {
            libc::alarm(secs);
            Ok(())
        });
    }
    let o = match cmd.output() {
        Ok(o) => o,
        Err(e) => vcore::die(&format!("cannot run {:?}: {e}", cmd.get_program())),
    };
    let timed_out = o.status.signal() == Some(libc::SIGALRM);
    ProcOut { code: if timed_out { None } else { o.status.code() }, signal: o.status.signal(), timed_out, stdout: o.stdout, stderr: o.stderr }
}

/// Redirects fd 1 of this process into a file while alive. Only one may exist at a time and no
/// other thread may print meanwhile (the C36 in-process phase is single-threaded for that reason).
pub struct StdoutCapture {
    saved: i32,
    path: PathBuf,
}
impl StdoutCapture {
    pub fn start(path: &Path) -> StdoutCapture {
        let _ = std::io::stdout().flush();
        let f = std::fs::File::create(path).unwrap_or_else(|e| vcore::die(&format!("capture file {path:?}: {e}")));
        use std::os::fd::AsRawFd;
        let saved = unsafe { libc::dup(1) };
        if saved < 0 || unsafe { libc::dup2(f.as_raw_fd(), 1) } < 0 {
            vcore::die("cannot redirect stdout");
        }
        StdoutCapture { saved, path: path.to_path_buf() }
    }
    pub fn finish(self) -> Vec<u8> {
        let _ = std::io::stdout().flush();
        unsafe {
            libc::dup2(self.saved, 1);
            libc::close(self.saved);
        }
        let out = std::fs::read(&self.path).unwrap_or_default();
        std::mem::forget(self);
        out
    }
}
impl Drop for StdoutCapture {
    fn drop(&mut self) {
        let _ = std::io::stdout().flush();
        unsafe {
            libc::dup2(self.saved, 1);
            libc::close(self.saved);
        }
    }
}

pub fn write_file(p: &Path, content: &str) {
    if let Some(d) = p.parent() {
        let _ = std::fs::create_dir_all(d);
    }
    if let Err(e) = std::fs::write(p, content) {
        vcore::die(&format!("cannot write scratch file {p:?}: {e}"));
    }
}

pub fn lossy(b: &[u8]) -> String {
    String::from_utf8_lossy(b).to_string()
}

pub fn clip(s: &str, n: usize) -> String {
    if s.len() <= n {
        s.to_string()
    } else {
        let mut e = n;
        while !s.is_char_boundary(e) {
            e -= 1;
        }
        format!("{}…", &s[..e])
    }
}
