//! Shared helpers: scratch directories under `--work`, real-binary location, subprocess with
//! timeout, capture of this process's stdout (for the in-process `output_result` runs).
use std::io::Write;
use std::path::{Path, PathBuf};
use std::process::{Command, Stdio};
use std::sync::atomic::{AtomicUsize, Ordering};
use std::time::Duration;

/// scratch root: `<--work>/<sub>`; scratch is never created outside `--work`
pub fn work_dir(args: &vcore::Args, sub: &str) -> PathBuf {
    let Some(w) = args.extra.get("work") else { vcore::die("eng_cli needs --work <scratch dir>") };
    let p = PathBuf::from(w).join(sub);
    let _ = std::fs::remove_dir_all(&p);
    if let Err(e) = std::fs::create_dir_all(&p) {
        vcore::die(&format!("cannot create scratch {p:?}: {e}"));
    }
    p.canonicalize().unwrap_or(p)
}

/// the real binaries are built into the same target directory as the engine
pub fn real_bin(name: &str) -> PathBuf {
    let exe = std::env::current_exe().unwrap_or_else(|e| vcore::die(&format!("current_exe: {e}")));
    let p = exe.parent().map(|d| d.join(name)).unwrap_or_else(|| PathBuf::from(name));
    if !p.is_file() {
        vcore::die(&format!("real binary {p:?} not built (registry \"build\" must list its package)"));
    }
    p
}

static NEXT_SLOT: AtomicUsize = AtomicUsize::new(0);
thread_local! { static SLOT: usize = NEXT_SLOT.fetch_add(1, Ordering::Relaxed); }
/// small dense index of the calling thread (for per-thread scratch directories)
pub fn thread_slot() -> usize {
    SLOT.with(|s| *s)
}

pub struct ProcOut {
    /// exit code, None when killed by a signal or timed out
    pub code: Option<i32>,
    pub signal: Option<i32>,
    pub timed_out: bool,
    pub stdout: Vec<u8>,
    pub stderr: Vec<u8>,
}

/// children currently running: (pid, kill-after instant); a single watchdog thread enforces the budgets
static RUNNING: std::sync::Mutex<Vec<(u32, std::time::Instant)>> = std::sync::Mutex::new(Vec::new());
static TIMED_OUT: std::sync::Mutex<Vec<u32>> = std::sync::Mutex::new(Vec::new());
static WATCHDOG: std::sync::Once = std::sync::Once::new();

/// Run to completion with a wall-clock budget. No `pre_exec`, so std can use the cheap `posix_spawn` path;
/// the budget is enforced by one watchdog thread that kills overdue children (reported as `timed_out`).
pub fn run_proc(cmd: &mut Command, timeout: Duration) -> ProcOut {
    use std::os::unix::process::ExitStatusExt;
    WATCHDOG.call_once(|| {
        std::thread::spawn(|| loop {
            std::thread::sleep(Duration::from_millis(250));
            let now = std::time::Instant::now();
            let due: Vec<u32> = RUNNING.lock().unwrap().iter().filter(|(_, t)| *t <= now).map(|(p, _)| *p).collect();
            for p in due {
                TIMED_OUT.lock().unwrap().push(p);
                unsafe {
                    libc::kill(p as i32, libc::SIGKILL);
                }
                RUNNING.lock().unwrap().retain(|(q, _)| *q != p);
            }
        });
    });
    cmd.stdin(Stdio::null()).stdout(Stdio::piped()).stderr(Stdio::piped());
    let child = match cmd.spawn() {
        Ok(c) => c,
        Err(e) => vcore::die(&format!("cannot run {:?}: {e}", cmd.get_program())),
    };
    let pid = child.id();
    RUNNING.lock().unwrap().push((pid, std::time::Instant::now() + timeout));
    let o = child.wait_with_output();
    RUNNING.lock().unwrap().retain(|(q, _)| *q != pid);
    let o = match o {
        Ok(o) => o,
        Err(e) => vcore::die(&format!("wait for {:?}: {e}", cmd.get_program())),
    };
    let timed_out = {
        let mut t = TIMED_OUT.lock().unwrap();
        let hit = t.contains(&pid);
        t.retain(|q| *q != pid);
        hit
    };
    ProcOut { code: if timed_out { None } else { o.status.code() }, signal: o.status.signal(), timed_out, stdout: o.stdout, stderr: o.stderr }
}

/// Redirects fd 1 of this process into a file while alive. Only one may exist at a time and no
/// other thread may print meanwhile (the C36 in-process phase is single-threaded for that reason).
pub struct StdoutCapture {
    saved: i32,
    path: PathBuf,
}
impl StdoutCapture {
    pub fn start(path: &Path) -> StdoutCapture {
        let _ = std::io::stdout().flush();
        let f = std::fs::File::create(path).unwrap_or_else(|e| vcore::die(&format!("capture file {path:?}: {e}")));
        use std::os::fd::AsRawFd;
        let saved = unsafe { libc::dup(1) };
        if saved < 0 || unsafe { libc::dup2(f.as_raw_fd(), 1) } < 0 {
            vcore::die("cannot redirect stdout");
        }
        StdoutCapture { saved, path: path.to_path_buf() }
    }
    pub fn finish(self) -> Vec<u8> {
        let _ = std::io::stdout().flush();
        unsafe {
            libc::dup2(self.saved, 1);
            libc::close(self.saved);
        }
        let out = std::fs::read(&self.path).unwrap_or_default();
        std::mem::forget(self);
        out
    }
}
impl Drop for StdoutCapture {
    fn drop(&mut self) {
        let _ = std::io::stdout().flush();
        unsafe {
            libc::dup2(self.saved, 1);
            libc::close(self.saved);
        }
    }
}

/// A long-lived redirection of fd 1 into one scratch file: `begin()` empties it, `take()` returns what was
/// printed since. Far fewer system calls per observation than a `StdoutCapture` each time.
pub struct StdoutTap {
    saved: i32,
    fd: i32,
}
impl StdoutTap {
    pub fn install(path: &Path) -> StdoutTap {
        let _ = std::io::stdout().flush();
        let c = std::ffi::CString::new(path.to_string_lossy().as_bytes()).unwrap();
        let fd = unsafe { libc::open(c.as_ptr(), libc::O_RDWR | libc::O_CREAT | libc::O_TRUNC | libc::O_CLOEXEC, 0o644) };
        let saved = unsafe { libc::dup(1) };
        if fd < 0 || saved < 0 || unsafe { libc::dup2(fd, 1) } < 0 {
            vcore::die("cannot redirect stdout");
        }
        StdoutTap { saved, fd }
    }
    pub fn begin(&self) {
        let _ = std::io::stdout().flush();
        unsafe {
            libc::ftruncate(self.fd, 0);
            libc::lseek(self.fd, 0, libc::SEEK_SET);
        }
    }
    pub fn take(&self) -> Vec<u8> {
        let _ = std::io::stdout().flush();
        let len = unsafe { libc::lseek(self.fd, 0, libc::SEEK_CUR) };
        let mut buf = vec![0u8; len.max(0) as usize];
        let mut got = 0usize;
        while got < buf.len() {
            let n = unsafe { libc::pread(self.fd, buf[got..].as_mut_ptr() as *mut libc::c_void, buf.len() - got, got as libc::off_t) };
            if n <= 0 {
                break;
            }
            got += n as usize;
        }
        buf.truncate(got);
        buf
    }
}
impl Drop for StdoutTap {
    fn drop(&mut self) {
        let _ = std::io::stdout().flush();
        unsafe {
            libc::dup2(self.saved, 1);
            libc::close(self.saved);
            libc::close(self.fd);
        }
    }
}

pub fn write_file(p: &Path, content: &str) {
    if let Some(d) = p.parent() {
        let _ = std::fs::create_dir_all(d);
    }
    if let Err(e) = std::fs::write(p, content) {
        vcore::die(&format!("cannot write scratch file {p:?}: {e}"));
    }
}

pub fn lossy(b: &[u8]) -> String {
    String::from_utf8_lossy(b).to_string()
}

pub fn clip(s: &str, n: usize) -> String {
    if s.len() <= n {
        s.to_string()
    } else {
        let mut e = n;
        while !s.is_char_boundary(e) {
            e -= 1;
        }
        format!("{}…", &s[..e])
    }
}
