//! C39 — `luafmt --write` never leaves a truncated file (family D: fault enumeration on the real binary).
//!
//! The real `luafmt` (built from the working tree into the harness target) is run as a process over a
//! scratch tree under the LD_PRELOAD shim `shims/faultfs.c`. For every workload (every sequence of
//! 1..L distinct files of a 4-file bank, in every order) the fault-free syscall history H is recorded;
//! then the run is repeated once for EVERY call of H × EVERY fault of the menu, and the invariant is
//! checked on the tree afterwards. Thorough tier adds fault sequences (write error at i, kill at j > i).
use crate::util::*;
use serde_json::{Value, json};
use std::collections::BTreeMap;
use std::path::{Path, PathBuf};
use std::process::Command;
use std::sync::Mutex;
use std::time::Duration;
use vcore::*;

const SHIM_SRC: &str = include_str!("../../../shims/faultfs.c");

/// file bank: three files that need reformatting, one that is already formatted
const BANK: [(&str, &str); 4] = [
    ("A", "local x=1\nlocal   y  =  {1,2,\n3}\nreturn x,y\n"),
    ("B", "function f(a,b) return a+b end\nlocal t={a=1,b=2}\nprint(f(t.a,t.b))\n"),
    ("C", "if x then y=1 else y=2 end\n-- trailing comment\nwhile  y<10 do y=y+1 end\n"),
    ("D", "local a = 1\n"),
];

const ERROR_KINDS: [&str; 4] = ["enospc", "enospc-sticky", "efbig", "eio"];
const KIND_ORDER: [&str; 8] = ["kill-after", "kill-before", "short-kill", "enospc", "enospc-sticky", "efbig", "eio", "short-ok"];

#[derive(Clone, Debug)]
pub struct Call {
    pub idx: usize,
    pub op: String,
    pub path: String,
    pub detail: String,
    #[allow(dead_code)]
    pub ret: String,
    /// 1-based occurrence of (op, path) in the history: a position that survives unrelated calls
    pub occurrence: usize,
}

#[derive(Clone, Debug, PartialEq, Eq, PartialOrd, Ord)]
pub struct Fault {
    pub at: usize,
    pub kind: String,
    pub arg: usize,
}

struct Env {
    luafmt: PathBuf,
    shim: PathBuf,
    base: PathBuf,
}

fn build_shim(dir: &Path) -> PathBuf {
    let src = dir.join("faultfs.c");
    write_file(&src, SHIM_SRC);
    let so = dir.join("faultfs.so");
    let mut last = String::new();
    for cc in ["gcc", "cc", "clang"] {
        let r = Command::new(cc).args(["-shared", "-fPIC", "-O1", "-o"]).arg(&so).arg(&src).arg("-ldl").output();
        match r {
            Ok(o) if o.status.success() && so.is_file() => return so,
            Ok(o) => last = format!("{cc}: {}", lossy(&o.stderr)),
            Err(e) => last = format!("{cc}: {e}"),
        }
    }
    die(&format!("cannot compile the fault shim: {last}"))
}

fn file_name(i: usize) -> String {
    format!("f{}.lua", i + 1)
}

/// Parse the shim's log. Paths that are not workload files (temporary files, whose names may embed a
/// process id or random characters) are renamed `<tmp1>`, `<tmp2>`, … in order of first appearance, so
/// that histories and witnesses are comparable between runs.
fn parse_log(text: &str, n_files: usize) -> Vec<Call> {
    let mut seen: BTreeMap<(String, String), usize> = BTreeMap::new();
    let mut tmp: Vec<String> = Vec::new();
    let mut canon = |p: &str| -> String {
        if p == "." || p == "<outside>" || (0..n_files).any(|i| file_name(i) == p) {
            return p.to_string();
        }
        let k = match tmp.iter().position(|t| t == p) {
            Some(k) => k,
            None => {
                tmp.push(p.to_string());
                tmp.len() - 1
            }
        };
        format!("<tmp{}>", k + 1)
    };
    let mut out = Vec::new();
    for line in text.lines() {
        let p: Vec<&str> = line.split('\t').collect();
        if p.len() < 5 {
            continue;
        }
        let Ok(idx) = p[0].parse::<usize>() else { continue };
        let path = canon(p[2]);
        let detail = match p[3].strip_prefix("to=") {
            Some(t) => format!("to={}", canon(t)),
            None => p[3].to_string(),
        };
        let e = seen.entry((p[1].to_string(), path.clone())).or_insert(0);
        *e += 1;
        out.push(Call { idx, op: p[1].into(), path, detail, ret: p[4].into(), occurrence: *e });
    }
    out
}

struct RunResult {
    out: ProcOut,
    files: Vec<Option<Vec<u8>>>,
    extra: Vec<String>,
    log: Vec<Call>,
}

fn run_once(env: &Env, workload: &[usize], faults: &[Fault]) -> RunResult {
    let dir = env.base.join(format!("t{}", thread_slot()));
    let tree = dir.join("tree");
    let _ = std::fs::remove_dir_all(&tree);
    let mut paths = Vec::new();
    for (i, &b) in workload.iter().enumerate() {
        let p = tree.join(file_name(i));
        write_file(&p, BANK[b].1);
        paths.push(p);
    }
    let log = dir.join("log");
    let _ = std::fs::remove_file(&log);
    let mut cmd = Command::new(&env.luafmt);
    cmd.arg("--write").args(&paths).current_dir(&dir);
    cmd.env("LD_PRELOAD", &env.shim).env("FAULTFS_ROOT", &tree).env("FAULTFS_LOG", &log);
    for (n, f) in faults.iter().enumerate().take(2) {
        let sfx = if n == 0 { "" } else { "2" };
        cmd.env(format!("FAULTFS_AT{sfx}"), f.at.to_string())
            .env(format!("FAULTFS_KIND{sfx}"), &f.kind)
            .env(format!("FAULTFS_ARG{sfx}"), f.arg.to_string());
    }
    let out = run_proc(&mut cmd, Duration::from_secs(30));
    let files = paths.iter().map(|p| std::fs::read(p).ok()).collect();
    let mut extra = Vec::new();
    if let Ok(rd) = std::fs::read_dir(&tree) {
        for e in rd.flatten() {
            let n = e.file_name().to_string_lossy().to_string();
            if !(0..workload.len()).any(|i| file_name(i) == n) {
                extra.push(n);
            }
        }
    }
    extra.sort();
    let log = parse_log(&std::fs::read_to_string(&log).unwrap_or_default(), workload.len());
    RunResult { out, files, extra, log }
}

/// reference run: fault-free under the shim
struct Reference {
    history: Vec<Call>,
    formatted: Vec<Vec<u8>>,
}

fn reference(env: &Env, workload: &[usize]) -> Result<Reference, String> {
    let r = run_once(env, workload, &[]);
    if r.out.code != Some(0) {
        return Err(format!("fault-free run exits with {:?} (signal {:?}): {}", r.out.code, r.out.signal, clip(&lossy(&r.out.stderr), 300)));
    }
    let mut formatted = Vec::new();
    for (i, f) in r.files.iter().enumerate() {
        let Some(f) = f else { return Err(format!("{} missing after the fault-free run", file_name(i))) };
        let orig = BANK[workload[i]].1.as_bytes();
        let needs = BANK[workload[i]].0 != "D";
        if needs == (f.as_slice() == orig) {
            return Err(format!("bank file {} {} by the fault-free run", BANK[workload[i]].0, if needs { "was not changed" } else { "was changed" }));
        }
        formatted.push(f.clone());
    }
    let wrote = r.log.iter().any(|c| c.op == "write");
    if workload.iter().any(|&b| BANK[b].0 != "D") && !wrote {
        return Err("the shim saw no write call on the scratch tree (not interposed?)".into());
    }
    Ok(Reference { history: r.log, formatted })
}

fn menu(c: &Call) -> Vec<(String, usize)> {
    let mut m: Vec<(String, usize)> = vec![("kill-before".into(), 0), ("kill-after".into(), 0)];
    for k in ERROR_KINDS {
        m.push((k.into(), 0));
    }
    if c.op == "write" {
        let len: usize = c.detail.strip_prefix("len=").and_then(|s| s.parse().ok()).unwrap_or(0);
        let mut js = vec![0usize, 1, len / 2, len.saturating_sub(1)];
        js.retain(|&j| j < len);
        js.dedup();
        for &j in &js {
            m.push(("short-kill".into(), j));
        }
        let mut js = vec![0usize, 1, len / 2];
        js.retain(|&j| j < len);
        js.dedup();
        for &j in &js {
            m.push(("short-ok".into(), j));
        }
    }
    m
}

fn classify(content: &Option<Vec<u8>>, orig: &[u8], formatted: &[u8]) -> &'static str {
    match content {
        None => "missing",
        Some(c) if c.as_slice() == orig => "original",
        Some(c) if c.as_slice() == formatted => "formatted",
        Some(c) if c.is_empty() => "empty",
        Some(c) if formatted.starts_with(c) => "prefix-of-formatted",
        Some(c) if orig.starts_with(c) => "prefix-of-original",
        Some(_) => "other-content",
    }
}

/// does an error on this call count as a *write* error for "write error ⇒ non-zero exit"?
fn write_path_call(c: &Call) -> bool {
    match c.op.as_str() {
        "write" | "fsync" | "rename" | "ftruncate" | "link" => true,
        "open" => c.detail != "r",
        _ => false,
    }
}

struct Judged {
    signature: Option<&'static str>,
    detail: String,
    outcome: String,
    undecided: bool,
}

fn judge(workload: &[usize], refr: &Reference, hist_call: &Call, fault: &Fault, r: &RunResult) -> Judged {
    let classes: Vec<&str> =
        (0..workload.len()).map(|i| classify(&r.files[i], BANK[workload[i]].1.as_bytes(), &refr.formatted[i])).collect();
    let exit = if r.out.timed_out {
        "timeout".to_string()
    } else if let Some(s) = r.out.signal {
        format!("sig{s}")
    } else {
        format!("exit{}", r.out.code.unwrap_or(-1))
    };
    let mut cls_sorted: Vec<&str> = classes.clone();
    cls_sorted.sort();
    cls_sorted.dedup();
    let leftover = if r.extra.is_empty() { "" } else { "+leftover-temp" };
    let opd = if hist_call.op == "open" { format!("open({})", hist_call.detail) } else { hist_call.op.clone() };
    let outcome = format!("{}@{}: {} {}{}", fault.kind, opd, cls_sorted.join("/"), exit, leftover);
    let reached = r.log.iter().any(|c| c.idx == fault.at);
    let bad: Vec<String> =
        classes.iter().enumerate().filter(|(_, c)| **c != "original" && **c != "formatted").map(|(i, c)| format!("{} is {}", file_name(i), c)).collect();
    let mut j = Judged { signature: None, detail: String::new(), outcome, undecided: false };
    if r.out.timed_out {
        j.signature = Some("hang");
        j.detail = "luafmt did not finish within 30 s after the fault".into();
        return j;
    }
    if !bad.is_empty() {
        j.signature = Some("damaged");
        j.detail = format!(
            "after {} at call {} ({} {} {}): {} — neither the original nor the complete formatted content ({})",
            fault.kind,
            fault.at,
            hist_call.op,
            hist_call.path,
            hist_call.detail,
            bad.join(", "),
            exit
        );
        return j;
    }
    let is_error = ERROR_KINDS.contains(&fault.kind.as_str());
    if is_error && reached && r.out.code == Some(0) {
        if write_path_call(hist_call) {
            j.signature = Some("write-error-exit-zero");
            j.detail = format!(
                "{} injected at call {} ({} {} {}) but luafmt exits 0",
                fault.kind, fault.at, hist_call.op, hist_call.path, hist_call.detail
            );
        } else {
            // an error on close/unlink/chmod/read-only open: the statement does not say what the exit status must be
            j.undecided = true;
        }
    }
    j
}

#[derive(Clone)]
struct Raw {
    signature: &'static str,
    workload: Vec<usize>,
    call: Call,
    faults: Vec<Fault>,
    second: Option<Call>,
    detail: String,
}

fn kind_rank(k: &str) -> usize {
    KIND_ORDER.iter().position(|x| *x == k).unwrap_or(99)
}

fn witness_of(r: &Raw) -> Value {
    let letters: Vec<&str> = r.workload.iter().map(|&b| BANK[b].0).collect();
    let f = &r.faults[0];
    let mut w = json!({
        "workload": letters,
        "fault": {"op": r.call.op, "path": r.call.path, "occurrence": r.call.occurrence, "kind": f.kind, "arg": f.arg},
    });
    if let (Some(c2), Some(f2)) = (&r.second, r.faults.get(1)) {
        w["then"] = json!({"op": c2.op, "path": c2.path, "occurrence": c2.occurrence, "kind": f2.kind, "arg": f2.arg});
    }
    w
}

fn find_call<'a>(h: &'a [Call], w: &Value) -> Option<&'a Call> {
    let op = w["op"].as_str()?;
    let path = w["path"].as_str()?;
    let occ = w["occurrence"].as_u64()? as usize;
    h.iter().find(|c| c.op == op && c.path == path && c.occurrence == occ)
}

fn setup(args: &Args) -> Env {
    let base = work_dir(args, "c39");
    Env { luafmt: real_bin("luafmt"), shim: build_shim(&base), base }
}

fn replay_witness(env: &Env, w: &Value) -> Result<Option<Violation>, String> {
    let letters: Vec<String> = w["workload"].as_array().ok_or("witness has no workload")?.iter().filter_map(|v| v.as_str().map(String::from)).collect();
    let workload: Vec<usize> = letters.iter().filter_map(|l| BANK.iter().position(|b| b.0 == l)).collect();
    if workload.is_empty() || workload.len() != letters.len() {
        return Err("bad workload in witness".into());
    }
    let refr = reference(env, &workload)?;
    let Some(c1) = find_call(&refr.history, &w["fault"]) else {
        // the call the witness names no longer exists in the fault-free history: nothing to inject
        return Ok(None);
    };
    let f1 = Fault { at: c1.idx, kind: w["fault"]["kind"].as_str().unwrap_or("").to_string(), arg: w["fault"]["arg"].as_u64().unwrap_or(0) as usize };
    let mut faults = vec![f1.clone()];
    let two = w.get("then").is_some_and(|t| t.is_object());
    if two {
        let r1 = run_once(env, &workload, &faults);
        let Some(c2) = find_call(&r1.log, &w["then"]) else { return Ok(None) };
        faults.push(Fault { at: c2.idx, kind: w["then"]["kind"].as_str().unwrap_or("").to_string(), arg: w["then"]["arg"].as_u64().unwrap_or(0) as usize });
    }
    let r = run_once(env, &workload, &faults);
    let mut j = judge(&workload, &refr, c1, &f1, &r);
    if two && j.signature == Some("write-error-exit-zero") {
        j.signature = None; // the exit-status rule does not apply to a run that was killed afterwards
    }
    Ok(j.signature.map(|s| Violation { signature: format!("{s}@{}", c1.op), witness: w.clone(), detail: j.detail }))
}

pub fn run(args: &Args) -> ! {
    let env = setup(args);
    if let Some(w) = args.replay_witness() {
        let wit = if w.get("witness").is_some() { w["witness"].clone() } else { w.clone() };
        match replay_witness(&env, &wit) {
            Ok(v) => {
                let _ = std::fs::remove_dir_all(&env.base);
                finish_replay(v, "C39")
            }
            Err(e) => die(&format!("C39 replay: {e}")),
        }
    }
    let dl = args.deadline();
    let mut rep = Report::new("C39", "fault_enumeration");
    let thorough = args.tier == Tier::Thorough;
    let max_len = args.extra_usize("files").unwrap_or(args.tier.pick(2, 4)).min(BANK.len());

    // workloads: every sequence of 1..=max_len distinct bank files that contains a file needing reformatting
    let mut workloads: Vec<Vec<usize>> = Vec::new();
    for n in 1..=max_len {
        fn rec(cur: &mut Vec<usize>, n: usize, out: &mut Vec<Vec<usize>>) {
            if cur.len() == n {
                if cur.iter().any(|&b| BANK[b].0 != "D") {
                    out.push(cur.clone());
                }
                return;
            }
            for b in 0..BANK.len() {
                if !cur.contains(&b) {
                    cur.push(b);
                    rec(cur, n, out);
                    cur.pop();
                }
            }
        }
        rec(&mut Vec::new(), n, &mut workloads);
    }
    // the core: every 1-file workload, one 2-file workload of two files that need reformatting and one that
    // starts with the already formatted file
    let core_ws: Vec<Vec<usize>> = vec![vec![0], vec![1], vec![2], vec![0, 1], vec![3, 0]].into_iter().filter(|w| w.len() <= max_len).collect();
    let is_core_fault = |c: &Call, k: &str, a: usize| -> bool {
        match k {
            "kill-before" | "kill-after" | "enospc" | "eio" => true,
            "short-kill" => {
                let len: usize = c.detail.strip_prefix("len=").and_then(|s| s.parse().ok()).unwrap_or(0);
                a == len / 2
            }
            _ => false,
        }
    };

    let mut all = Stats::default();
    let raws: Mutex<Vec<Raw>> = Mutex::new(Vec::new());
    let mut history_calls = 0u64;
    let mut injected = 0u64;
    let mut max_hist = 0usize;
    let mut sample_hist: Option<Value> = None;
    let mut refs: BTreeMap<Vec<usize>, Reference> = BTreeMap::new();
    let mut phases_done: Vec<String> = Vec::new();

    // phases, in order; each is complete or the run stops there
    // (name, workloads, which faults of the menu, fault sequences?)
    let rest2: Vec<Vec<usize>> = workloads.iter().filter(|w| w.len() <= 2 && !core_ws.contains(w)).cloned().collect();
    let big: Vec<Vec<usize>> = workloads.iter().filter(|w| w.len() > 2).cloned().collect();
    let mut phases: Vec<(&str, Vec<Vec<usize>>, u8)> = vec![
        ("core: 1-file workloads + [A,B] + [D,A] × {kill-before, kill-after, short-kill(len/2), enospc, eio} at every call", core_ws.clone(), 0),
        ("core workloads × rest of the fault menu", core_ws.clone(), 1),
        ("remaining ≤2-file workloads × full fault menu", rest2, 2),
    ];
    if !big.is_empty() {
        phases.push(("3- and 4-file workloads × full fault menu", big, 2));
    }
    if thorough {
        phases.push(("fault sequences on ≤2-file workloads: error at i, then kill at every later call", workloads.iter().filter(|w| w.len() <= 2).cloned().collect(), 3));
    }
    let core_name = phases[0].0.to_string();

    for (name, ws, mode) in &phases {
        // fault-free references (two runs each, in parallel), for workloads not seen yet
        let need: Vec<&Vec<usize>> = ws.iter().filter(|w| !refs.contains_key(*w)).collect();
        let got: Mutex<Vec<(Vec<usize>, Result<Reference, String>)>> = Mutex::new(Vec::new());
        let (_, ok) = par_range(need.len() as u64, args.threads, &dl, |i, _| {
            let w = need[i as usize];
            let r = reference(&env, w).and_then(|r1| {
                let r2 = reference(&env, w)?;
                let key = |r: &Reference| r.history.iter().map(|c| format!("{} {} {}", c.op, c.path, c.detail)).collect::<Vec<_>>();
                if key(&r1) != key(&r2) || r1.formatted != r2.formatted {
                    return Err("the fault-free run is not deterministic (history or result differs between two runs)".to_string());
                }
                Ok(r1)
            });
            got.lock().unwrap().push((w.clone(), r));
        });
        if !ok {
            break;
        }
        for (w, r) in got.into_inner().unwrap() {
            let r = r.unwrap_or_else(|e| die(&format!("C39 reference run: {e}")));
            history_calls += r.history.len() as u64;
            max_hist = max_hist.max(r.history.len());
            if sample_hist.is_none() || w == vec![0] {
                sample_hist = Some(json!(r.history.iter().map(|c| format!("{} {} {} {}", c.idx, c.op, c.path, c.detail)).collect::<Vec<_>>()));
            }
            refs.insert(w, r);
        }

        if *mode <= 2 {
            let mut jobs: Vec<(&Vec<usize>, usize, Fault)> = Vec::new();
            for w in ws {
                let r = &refs[w];
                for (ci, c) in r.history.iter().enumerate() {
                    for (k, a) in menu(c) {
                        let core = is_core_fault(c, &k, a);
                        if (*mode == 0 && core) || (*mode == 1 && !core) || *mode == 2 {
                            jobs.push((w, ci, Fault { at: c.idx, kind: k, arg: a }));
                        }
                    }
                }
            }
            let (st, ok) = par_range(jobs.len() as u64, args.threads, &dl, |i, st| {
                let (w, ci, f) = &jobs[i as usize];
                let refr = &refs[*w];
                let c = &refr.history[*ci];
                let r = run_once(&env, w, std::slice::from_ref(f));
                let j = judge(w, refr, c, f, &r);
                st.eval(true);
                st.outcome(&j.outcome);
                if j.undecided {
                    st.undecided += 1;
                }
                if i % 97 == 0 {
                    st.sample(|| json!({"workload": w.iter().map(|&b| BANK[b].0).collect::<Vec<_>>(), "call": format!("{} {} {} {}", c.idx, c.op, c.path, c.detail), "fault": f.kind, "arg": f.arg, "outcome": j.outcome}));
                }
                if let Some(sig) = j.signature {
                    raws.lock().unwrap().push(Raw { signature: sig, workload: (*w).clone(), call: c.clone(), faults: vec![f.clone()], second: None, detail: j.detail });
                }
            });
            all.merge(st);
            injected += jobs.len() as u64;
            if !ok {
                break;
            }
        } else {
            // fault sequences: a one-shot error at i, then a kill at every later call of the run that follows
            let mut firsts: Vec<(&Vec<usize>, usize, Fault)> = Vec::new();
            for w in ws {
                for (ci, c) in refs[w].history.iter().enumerate() {
                    for k in ["enospc", "efbig", "eio"] {
                        firsts.push((w, ci, Fault { at: c.idx, kind: k.into(), arg: 0 }));
                    }
                }
            }
            let second_jobs: Mutex<Vec<(usize, Call, Fault)>> = Mutex::new(Vec::new());
            let (_, ok) = par_range(firsts.len() as u64, args.threads, &dl, |i, _| {
                let (w, _, f) = &firsts[i as usize];
                let r = run_once(&env, w, std::slice::from_ref(f));
                let mut v = second_jobs.lock().unwrap();
                for c2 in r.log.iter().filter(|c2| c2.idx > f.at) {
                    for k2 in ["kill-before", "kill-after"] {
                        v.push((i as usize, c2.clone(), Fault { at: c2.idx, kind: k2.into(), arg: 0 }));
                    }
                }
            });
            if !ok {
                break;
            }
            let mut sj = second_jobs.into_inner().unwrap();
            sj.sort_by(|a, b| (a.0, a.1.idx, &a.2).cmp(&(b.0, b.1.idx, &b.2)));
            let (st, ok) = par_range(sj.len() as u64, args.threads, &dl, |i, st| {
                let (fi, c2, f2) = &sj[i as usize];
                let (w, ci, f1) = &firsts[*fi];
                let refr = &refs[*w];
                let c1 = &refr.history[*ci];
                let r = run_once(&env, w, &[f1.clone(), f2.clone()]);
                let mut j = judge(w, refr, c1, f1, &r);
                // the exit-status rule does not apply to a run that was killed
                if j.signature == Some("write-error-exit-zero") {
                    j.signature = None;
                }
                st.eval(true);
                st.outcome(&format!("{} then {}@{}", j.outcome, f2.kind, c2.op));
                if let Some(sig) = j.signature {
                    raws.lock().unwrap().push(Raw { signature: sig, workload: (*w).clone(), call: c1.clone(), faults: vec![f1.clone(), f2.clone()], second: Some(c2.clone()), detail: j.detail });
                }
            });
            all.merge(st);
            injected += sj.len() as u64;
            if !ok {
                break;
            }
        }
        phases_done.push(name.to_string());
    }
    let core_complete = phases_done.first() == Some(&core_name);
    let complete = phases_done.len() == phases.len();
    let completed_len = if complete { max_len } else if phases_done.len() >= 3 { 2 } else if core_complete { 1 } else { 0 };
    let pairs = thorough;

    // one witness per (signature, faulted operation): the smallest workload, earliest call, first menu entry
    let mut raws = raws.into_inner().unwrap();
    raws.sort_by(|a, b| {
        let ka = (a.faults.len(), a.workload.len(), a.workload.clone(), a.call.idx, kind_rank(&a.faults[0].kind), a.faults[0].arg, a.second.as_ref().map(|c| c.idx), a.faults.get(1).map(|f| kind_rank(&f.kind)));
        let kb = (b.faults.len(), b.workload.len(), b.workload.clone(), b.call.idx, kind_rank(&b.faults[0].kind), b.faults[0].arg, b.second.as_ref().map(|c| c.idx), b.faults.get(1).map(|f| kind_rank(&f.kind)));
        ka.cmp(&kb)
    });
    let mut groups: BTreeMap<String, (Raw, u64)> = BTreeMap::new();
    for r in raws {
        let key = format!("{}@{}", r.signature, r.call.op);
        groups.entry(key).and_modify(|e| e.1 += 1).or_insert((r, 1));
    }
    for (sig, (raw, n)) in groups {
        let wit = witness_of(&raw);
        // determinism before verdict: the witness must fail again, identically
        match replay_witness(&env, &wit) {
            Ok(Some(v)) if v.signature == sig => {
                all.raw_violating_cases += n;
                all.violations.insert(format!("{}:{}", sig, wit), (Violation { signature: sig, witness: wit, detail: raw.detail }, n));
            }
            other => {
                rep.machinery_error = Some(format!("C39: violation {sig} {wit} did not reproduce on re-execution ({:?})", other.map(|o| o.map(|v| v.signature))));
            }
        }
    }

    rep.exhaustive = complete;
    rep.rule = "after every injected fault each target file holds exactly its original bytes or exactly the bytes the fault-free run produces (never empty, a prefix, or anything else); an injected error on open-for-write/write/fsync/rename/truncate must give a non-zero exit status; luafmt must terminate".into();
    rep.bounds = json!({
        "bank_files": BANK.len(),
        "max_files_per_workload": max_len,
        "largest_workload_size_completed": completed_len,
        "phases_in_order": phases.iter().map(|p| p.0).collect::<Vec<_>>(),
        "phases_completed": phases_done,
        "core_complete": core_complete,
        "workloads": workloads.len(),
        "fault_menu": "kill-before, kill-after, enospc, enospc-sticky, efbig, eio on every call; short-kill j∈{0,1,len/2,len-1} and short-ok j∈{0,1,len/2} on every write",
        "fault_sequences": if pairs { "one-shot error at i, then kill-before/kill-after at every later call (workloads ≤ 2 files)" } else { "single faults (and the sticky disk-full sequence)" },
    });
    rep.assumptions = vec![
        "a crash is modelled as SIGKILL of the process at a libc call boundary; loss of un-synced data at power failure is not modelled".into(),
        "only the libc entry points listed in shims/faultfs.c are interposed; a write path through another entry point (io_uring, mmap, copy_file_range) would not be seen — the engine refuses to run if it sees no write call at all".into(),
        "luafmt runs with its default configuration; files are processed in path order (BTreeSet), so every order = every assignment of bank files to f1..fn".into(),
    ];
    rep.set("history_calls_total", json!(history_calls));
    rep.set("longest_history", json!(max_hist));
    rep.set("faults_injected", json!(injected));
    rep.set("example_fault_free_history", sample_hist.unwrap_or(Value::Null));
    let _ = std::fs::remove_dir_all(&env.base);
    rep.finish(args, all)
}
