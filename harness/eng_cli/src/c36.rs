//! C36 — `emmylua_check` exit status and reports match the diagnostics (arrival-order permutation).
//!
//! Workspaces on disk = subsets (≤ n files) of a snippet bank with known severities, with or without a
//! library root that contains a file with errors. The diagnostics of every main-workspace file are
//! computed once through the crate's own `load_workspace` + `diagnose_file`; then the real
//! `output_result` (hook H5) is fed EVERY arrival order of the result channel under every CLI
//! configuration (severity filter × --warnings-as-errors × format × destination), and the real binary is
//! run on the same tree; exit status and the parsed report are compared with the expected set.
use crate::util::*;
use emmylua_check::{DiagnosticSeverityFilter, OutputDestination, OutputFormat};
use emmylua_code_analysis::{EmmyLuaAnalysis, FileId};
use lsp_types::{Diagnostic, DiagnosticSeverity, NumberOrString};
use serde_json::{Value, json};
use std::collections::BTreeMap;
use std::path::{Path, PathBuf};
use std::process::Command;
use std::sync::Mutex;
use std::time::Duration;
use tokio_util::sync::CancellationToken;
use vcore::*;

/// snippet bank: (file, content, what it is there for)
const BANK: [(&str, &str, &str); 6] = [
    ("e.lua", "print(undefined_global_e)\n", "error"),
    ("w.lua", "---@type NoSuchTypeW\nlocal w = nil\nreturn w\n", "warning"),
    ("i.lua", "local dup = 1\nlocal dup = 2\nreturn dup\n", "information (redefined-local is mapped to information by .emmyrc.json) + hint"),
    ("h.lua", "local unused_h = 1\n", "hint"),
    ("c.lua", "local c = 1\nreturn c\n", "clean"),
    ("m.lua", "---@type NoSuchTypeM\nlocal m = nil\nprint(undefined_global_m, undefined_global_m2)\nlocal unused_m = m\n", "error ×2 + warning + hint in one file"),
];
const LIB_FILE: (&str, &str) = ("libbad.lua", "print(undefined_global_in_library)\n---@type NoSuchTypeLib\nlocal l = = 1\n");

const FILTERS: [Option<DiagnosticSeverityFilter>; 5] =
    [None, Some(DiagnosticSeverityFilter::Error), Some(DiagnosticSeverityFilter::Warn), Some(DiagnosticSeverityFilter::Info), Some(DiagnosticSeverityFilter::Hint)];
const FILTER_NAMES: [&str; 5] = ["none", "error", "warn", "info", "hint"];
/// (format, to a file?)
const OUTS: [(&str, bool); 5] = [("text", false), ("json", false), ("json", true), ("sarif", false), ("sarif", true)];

#[derive(Clone, Copy, PartialEq, Eq, Debug)]
pub struct Cfg {
    filter: usize,
    wae: bool,
    out: usize,
}
const N_CFG: usize = 5 * 2 * 5;
fn cfg(i: usize) -> Cfg {
    Cfg { filter: i % 5, wae: (i / 5) % 2 == 1, out: i / 10 }
}
impl Cfg {
    fn json(self) -> Value {
        json!({"severity": FILTER_NAMES[self.filter], "warnings_as_errors": self.wae, "format": OUTS[self.out].0, "to_file": OUTS[self.out].1})
    }
    fn from_json(v: &Value) -> Option<Cfg> {
        let filter = FILTER_NAMES.iter().position(|f| Some(*f) == v["severity"].as_str())?;
        let out = OUTS.iter().position(|(f, t)| Some(*f) == v["format"].as_str() && Some(*t) == v["to_file"].as_bool())?;
        Some(Cfg { filter, wae: v["warnings_as_errors"].as_bool()?, out })
    }
    fn format(self) -> OutputFormat {
        match OUTS[self.out].0 {
            "text" => OutputFormat::Text,
            "json" => OutputFormat::Json,
            _ => OutputFormat::Sarif,
        }
    }
}

fn allows(f: Option<DiagnosticSeverityFilter>, d: &Diagnostic) -> bool {
    // the statement's filter: "this severity or above"; written out here, not taken from the crate
    let rank = |s: DiagnosticSeverity| {
        if s == DiagnosticSeverity::ERROR {
            1
        } else if s == DiagnosticSeverity::WARNING {
            2
        } else if s == DiagnosticSeverity::INFORMATION {
            3
        } else {
            4
        }
    };
    match (f, d.severity) {
        (None, _) => true,
        (Some(_), None) => false,
        (Some(f), Some(s)) => {
            let limit = match f {
                DiagnosticSeverityFilter::Error => 1,
                DiagnosticSeverityFilter::Warn => 2,
                DiagnosticSeverityFilter::Info => 3,
                DiagnosticSeverityFilter::Hint => 4,
            };
            rank(s) <= limit
        }
    }
}

fn level_name(s: Option<DiagnosticSeverity>) -> &'static str {
    match s {
        Some(DiagnosticSeverity::ERROR) => "error",
        Some(DiagnosticSeverity::WARNING) => "warning",
        Some(DiagnosticSeverity::INFORMATION) => "info",
        Some(DiagnosticSeverity::HINT) => "hint",
        _ => "none",
    }
}

fn code_of(d: &Diagnostic) -> String {
    match &d.code {
        Some(NumberOrString::Number(n)) => n.to_string(),
        Some(NumberOrString::String(s)) => s.clone(),
        None => String::new(),
    }
}

/// one reported/expected diagnostic, in a form all three report formats can be reduced to:
/// (file name, level class, code, message, line0, character0). For SARIF `info` and `hint` are both "note".
type Item = (String, String, String, String, u32, u32);

fn expected_items(files: &[LoadedFile], c: Cfg, sarif: bool) -> Vec<Item> {
    let mut v = Vec::new();
    for f in files {
        for d in f.diags.iter().filter(|d| allows(FILTERS[c.filter], d)) {
            let mut lvl = level_name(d.severity).to_string();
            if sarif && (lvl == "info" || lvl == "hint" || lvl == "none") {
                lvl = "note".into();
            }
            v.push((f.name.clone(), lvl, code_of(d), d.message.clone(), d.range.start.line, d.range.start.character));
        }
    }
    v.sort();
    v
}

fn expected_exit_nonzero(files: &[LoadedFile], c: Cfg) -> bool {
    files.iter().flat_map(|f| f.diags.iter()).filter(|d| allows(FILTERS[c.filter], d)).any(|d| {
        d.severity == Some(DiagnosticSeverity::ERROR) || (c.wae && d.severity == Some(DiagnosticSeverity::WARNING))
    })
}

#[derive(Clone)]
struct LoadedFile {
    name: String,
    id: FileId,
    diags: Vec<Diagnostic>,
}

struct Loaded {
    analysis: std::rc::Rc<EmmyLuaAnalysis>,
    main: PathBuf,
    files: Vec<LoadedFile>,
}
impl Loaded {
    /// The same analysis seen as the workspace that contains only `subset` of the bank: which files are
    /// checked is the only thing `run_check` derives from the workspace, and the bank files do not refer
    /// to each other, so their diagnostics are the same in every subset (re-checked at process level).
    fn restrict(&self, subset: &[usize]) -> Loaded {
        let files = self.files.iter().filter(|f| subset.iter().any(|&b| BANK[b].0 == f.name)).cloned().collect();
        Loaded { analysis: self.analysis.clone(), main: self.main.clone(), files }
    }
}

thread_local! { static TAP: std::cell::RefCell<Option<StdoutTap>> = const { std::cell::RefCell::new(None) }; }

fn make_workspace(dir: &Path, subset: &[usize], lib: bool) -> PathBuf {
    let _ = std::fs::remove_dir_all(dir);
    let main = dir.join("main");
    let libd = dir.join("lib");
    std::fs::create_dir_all(&main).unwrap_or_else(|e| die(&format!("mkdir {main:?}: {e}")));
    std::fs::create_dir_all(&libd).unwrap_or_else(|e| die(&format!("mkdir {libd:?}: {e}")));
    for &b in subset {
        write_file(&main.join(BANK[b].0), BANK[b].1);
    }
    let mut rc = json!({"diagnostics": {"severity": {"redefined-local": "information"}}});
    if lib {
        write_file(&libd.join(LIB_FILE.0), LIB_FILE.1);
        rc["workspace"] = json!({"library": [libd.to_string_lossy()]});
    }
    write_file(&main.join(".emmyrc.json"), &serde_json::to_string_pretty(&rc).unwrap());
    main
}

fn load(rt: &tokio::runtime::Runtime, main: &Path) -> Loaded {
    let main = main.canonicalize().unwrap_or(main.to_path_buf());
    let analysis = rt
        .block_on(emmylua_check::verif_api::load_workspace(main.clone(), vec![main.clone()], None, None))
        .unwrap_or_else(|| die("emmylua_check load_workspace returned None"));
    let db = analysis.compilation.get_db();
    let ids = db.get_module_index().get_main_workspace_file_ids();
    let mut files = Vec::new();
    for id in ids {
        let path = db.get_vfs().get_file_path(&id).cloned().unwrap_or_default();
        let name = path.file_name().map(|n| n.to_string_lossy().to_string()).unwrap_or_default();
        let diags = analysis.diagnose_file(id, CancellationToken::new()).unwrap_or_default();
        files.push(LoadedFile { name, id, diags });
    }
    files.sort_by(|a, b| a.name.cmp(&b.name));
    Loaded { analysis: std::rc::Rc::new(analysis), main, files }
}

// ---------------------------------------------------------------- report parsers

fn parse_json_report(text: &str) -> Result<Vec<Item>, String> {
    if text.trim().is_empty() {
        return Ok(vec![]);
    }
    let v: Value = serde_json::from_str(text).map_err(|e| format!("report is not JSON: {e}"))?;
    let arr = v.as_array().ok_or("JSON report is not an array")?;
    let mut out = Vec::new();
    for entry in arr {
        let file = entry["file"].as_str().ok_or("entry without file")?;
        let name = Path::new(file).file_name().map(|n| n.to_string_lossy().to_string()).unwrap_or_default();
        for d in entry["diagnostics"].as_array().ok_or("entry without diagnostics")? {
            let d: Diagnostic = serde_json::from_value(d.clone()).map_err(|e| format!("not a diagnostic: {e}"))?;
            out.push((name.clone(), level_name(d.severity).to_string(), code_of(&d), d.message.clone(), d.range.start.line, d.range.start.character));
        }
    }
    out.sort();
    Ok(out)
}

fn parse_sarif_report(text: &str) -> Result<Vec<Item>, String> {
    let v: Value = serde_json::from_str(text).map_err(|e| format!("report is not JSON: {e}"))?;
    let runs = v["runs"].as_array().ok_or("SARIF without runs")?;
    let mut out = Vec::new();
    for run in runs {
        for r in run["results"].as_array().ok_or("SARIF run without results")? {
            let locs = r["locations"].as_array().ok_or("result without locations")?;
            if locs.len() != 1 {
                return Err(format!("result with {} locations", locs.len()));
            }
            let pl = &locs[0]["physicalLocation"];
            let uri = pl["artifactLocation"]["uri"].as_str().ok_or("no uri")?;
            let name = uri.rsplit('/').next().unwrap_or("").to_string();
            let line = pl["region"]["startLine"].as_u64().ok_or("no startLine")?;
            let col = pl["region"]["startColumn"].as_u64().ok_or("no startColumn")?;
            out.push((
                name,
                r["level"].as_str().unwrap_or("?").to_string(),
                r["ruleId"].as_str().unwrap_or("").to_string(),
                r["message"]["text"].as_str().unwrap_or("").to_string(),
                (line as u32).wrapping_sub(1),
                (col as u32).wrapping_sub(1),
            ));
        }
    }
    out.sort();
    Ok(out)
}

/// text report: blocks `--- <file> [..]`, per diagnostic `<level>: <message> [<code>]` then `  --> <file>:<line>:<col>`
fn parse_text_report(text: &str) -> Result<Vec<Item>, String> {
    let lines: Vec<&str> = text.lines().collect();
    let mut out = Vec::new();
    let mut current: Option<String> = None;
    for (i, l) in lines.iter().enumerate() {
        if let Some(rest) = l.strip_prefix("--- ") {
            let f = rest.split(" [").next().unwrap_or(rest).trim();
            current = Some(f.to_string());
            continue;
        }
        if let Some(loc) = l.strip_prefix("  --> ") {
            if i == 0 {
                return Err("location line without a header".into());
            }
            let head = lines[i - 1];
            let (level, rest) = head.split_once(": ").ok_or_else(|| format!("unparseable diagnostic header {head:?}"))?;
            let (msg, code) = match rest.rsplit_once(" [") {
                Some((m, c)) if c.ends_with(']') => (m.to_string(), c.trim_end_matches(']').to_string()),
                _ => (rest.to_string(), String::new()),
            };
            let mut it = loc.rsplitn(3, ':');
            let col: u32 = it.next().and_then(|s| s.parse().ok()).ok_or("bad column")?;
            let line: u32 = it.next().and_then(|s| s.parse().ok()).ok_or("bad line")?;
            let file = it.next().ok_or("bad location")?.to_string();
            if current.as_deref() != Some(file.as_str()) {
                return Err(format!("diagnostic for {file} printed under the block of {current:?}"));
            }
            let name = Path::new(&file).file_name().map(|n| n.to_string_lossy().to_string()).unwrap_or_default();
            out.push((name, level.to_string(), code, msg, line.wrapping_sub(1), col.wrapping_sub(1)));
        }
    }
    out.sort();
    Ok(out)
}

fn parse_report(c: Cfg, text: &str) -> Result<Vec<Item>, String> {
    match OUTS[c.out].0 {
        "text" => parse_text_report(text),
        "json" => parse_json_report(text),
        _ => parse_sarif_report(text),
    }
}

fn diff_items(expected: &[Item], got: &[Item]) -> Option<(&'static str, String)> {
    if expected == got {
        return None;
    }
    let mut cnt: BTreeMap<&Item, i64> = BTreeMap::new();
    for e in expected {
        *cnt.entry(e).or_insert(0) += 1;
    }
    for g in got {
        *cnt.entry(g).or_insert(0) -= 1;
    }
    let missing: Vec<&&Item> = cnt.iter().filter(|(_, n)| **n > 0).map(|(k, _)| k).collect();
    let extra: Vec<&&Item> = cnt.iter().filter(|(_, n)| **n < 0).map(|(k, _)| k).collect();
    let sig = if !missing.is_empty() && extra.is_empty() {
        "report-missing"
    } else if missing.is_empty() && !extra.is_empty() {
        "report-extra"
    } else {
        "report-differs"
    };
    Some((sig, format!("expected {} diagnostics, report has {}; missing {:?}; extra {:?}", expected.len(), got.len(), missing.iter().take(3).collect::<Vec<_>>(), extra.iter().take(3).collect::<Vec<_>>())))
}

// ---------------------------------------------------------------- in-process

struct InProc {
    exit: i32,
    report: String,
}

fn run_output_result(rt: &tokio::runtime::Runtime, l: &Loaded, order: &[usize], c: Cfg, scratch: &Path) -> Result<InProc, String> {
    let dest = scratch.join("report.out");
    if OUTS[c.out].1 {
        let _ = std::fs::remove_file(&dest);
    }
    let output = if OUTS[c.out].1 { OutputDestination::File(dest.clone()) } else { OutputDestination::Stdout };
    let (tx, rx) = tokio::sync::mpsc::channel(100);
    for &i in order {
        let f = &l.files[i];
        tx.try_send((f.id, Some(f.diags.clone()))).map_err(|e| format!("channel: {e}"))?;
    }
    drop(tx);
    let tapped = TAP.with(|t| t.borrow().is_some());
    let cap = if tapped {
        TAP.with(|t| t.borrow().as_ref().unwrap().begin());
        None
    } else {
        Some(StdoutCapture::start(&scratch.join("stdout.cap")))
    };
    let db = l.analysis.compilation.get_db();
    let r = catch(|| {
        rt.block_on(emmylua_check::verif_api::output_result(order.len(), db, l.main.clone(), rx, c.format(), output, c.wae, FILTERS[c.filter]))
    });
    let stdout = match cap {
        Some(cap) => lossy(&cap.finish()),
        None => lossy(&TAP.with(|t| t.borrow().as_ref().unwrap().take())),
    };
    let exit = r.map_err(|m| format!("panic:{}", m))?;
    let report = if OUTS[c.out].1 { std::fs::read_to_string(&dest).map_err(|e| format!("no report file: {e}"))? } else { stdout };
    Ok(InProc { exit, report })
}

/// judge one observation (in-process or process) against the expectation
fn judge(files: &[LoadedFile], c: Cfg, nonzero: bool, report: &str) -> Vec<(String, String)> {
    let mut bad = Vec::new();
    let want = expected_exit_nonzero(files, c);
    if nonzero != want {
        bad.push((
            if want { "exit-zero-despite-error".to_string() } else { "exit-nonzero-without-error".to_string() },
            format!("exit status is {} but the filtered diagnostics {} an error{}", if nonzero { "non-zero" } else { "zero" }, if want { "contain" } else { "do not contain" }, if c.wae { " (warnings count as errors)" } else { "" }),
        ));
    }
    let sarif = OUTS[c.out].0 == "sarif";
    let exp = expected_items(files, c, sarif);
    match parse_report(c, report) {
        Ok(got) => {
            if let Some((sig, d)) = diff_items(&exp, &got) {
                bad.push((sig.to_string(), d));
            }
        }
        Err(e) => bad.push(("report-unparseable".into(), format!("{e}; report starts {:?}", clip(report, 200)))),
    }
    bad
}

fn run_binary(bin: &Path, dir: &Path, main: &Path, c: Cfg) -> Result<(bool, String), String> {
    let dest = dir.join(format!("bin-report-{}", thread_slot()));
    let _ = std::fs::remove_file(&dest);
    let mut cmd = Command::new(bin);
    cmd.arg(main).args(["--output-format", OUTS[c.out].0]).current_dir(dir);
    if OUTS[c.out].1 {
        cmd.arg("--output").arg(&dest);
    }
    if c.wae {
        cmd.arg("--warnings-as-errors");
    }
    if c.filter != 0 {
        cmd.args(["--severity", FILTER_NAMES[c.filter]]);
    }
    let pr = run_proc(&mut cmd, Duration::from_secs(120));
    if pr.timed_out {
        return Err("timeout".into());
    }
    let Some(code) = pr.code else { return Err(format!("killed by signal {:?}: {}", pr.signal, clip(&lossy(&pr.stderr), 300))) };
    if code == 101 {
        return Err(format!("panic: {}", clip(&lossy(&pr.stderr), 300)));
    }
    let report = if OUTS[c.out].1 { std::fs::read_to_string(&dest).map_err(|e| format!("no report file: {e}; stderr {}", clip(&lossy(&pr.stderr), 200)))? } else { lossy(&pr.stdout) };
    Ok((code != 0, report))
}

fn ws_json(subset: &[usize], lib: bool) -> Value {
    json!({"files": subset.iter().map(|&b| BANK[b].0).collect::<Vec<_>>(), "library_with_errors": lib})
}

fn ws_from_json(v: &Value) -> Option<(Vec<usize>, bool)> {
    let files = v["files"].as_array()?.iter().map(|f| BANK.iter().position(|b| Some(b.0) == f.as_str())).collect::<Option<Vec<_>>>()?;
    Some((files, v["library_with_errors"].as_bool().unwrap_or(false)))
}

/// failures of one (workspace, config) in-process, over the given arrival orders
fn inproc_failures(rt: &tokio::runtime::Runtime, l: &Loaded, c: Cfg, orders: &[Vec<usize>], scratch: &Path) -> Vec<(String, String, Option<Vec<usize>>)> {
    let mut out = Vec::new();
    for o in orders {
        match run_output_result(rt, l, o, c, scratch) {
            Ok(r) => {
                for (s, d) in judge(&l.files, c, r.exit != 0, &r.report) {
                    out.push((s, d, Some(o.clone())));
                }
            }
            Err(e) => out.push((if e.starts_with("panic:") { format!("panic:{}", panic_site(&e)) } else { "in-process-error".into() }, e, Some(o.clone()))),
        }
    }
    out
}

/// failures of one (workspace, config) with the real binary
fn binary_failures(files: &[LoadedFile], main: &Path, c: Cfg, bin: &Path, dir: &Path) -> Vec<(String, String, Option<Vec<usize>>)> {
    let mut out = Vec::new();
    match run_binary(bin, dir, main, c) {
        Ok((nz, rep)) => {
            for (s, d) in judge(files, c, nz, &rep) {
                out.push((format!("binary:{s}"), d, None));
            }
        }
        Err(e) => out.push(("binary:crash".into(), e, None)),
    }
    out
}

fn witness(subset: &[usize], lib: bool, c: Cfg, order: &Option<Vec<usize>>, names: &[String]) -> Value {
    let mut w = json!({"workspace": ws_json(subset, lib), "config": c.json()});
    if let Some(o) = order {
        w["arrival_order"] = json!(o.iter().map(|&i| names[i].clone()).collect::<Vec<_>>());
    }
    w
}

type MinCache = Mutex<std::collections::HashMap<String, (Value, String)>>;

/// One witness per signature: the first failing case in a fixed order — configuration (default first,
/// then the failing one with knobs reset one at a time), number of files upward, subsets in bank order,
/// without then with the library, arrival orders lexicographically. The result is cached per signature, so
/// every raw case with that signature is counted under the same minimal witness.
fn minimise(rt: &tokio::runtime::Runtime, dir: &Path, subset: &[usize], lib: bool, c: Cfg, sig: &str, bin: &Path, cache: &MinCache, big: Option<&[Loaded]>) -> (Value, String) {
    if let Some(hit) = cache.lock().unwrap().get(sig) {
        return hit.clone();
    }
    let is_bin = sig.starts_with("binary:");
    let try_case = |subset: &[usize], lib: bool, c: Cfg| -> Option<(Value, String)> {
        // in-process signatures are searched on the bank analysis restricted to the candidate's files (cheap);
        // binary signatures need the candidate on disk
        let l = match big {
            Some(b) if !is_bin => {
                let _ = std::fs::create_dir_all(dir.join("min"));
                b[lib as usize].restrict(subset)
            }
            _ => load(rt, &make_workspace(&dir.join("min"), subset, lib)),
        };
        let names: Vec<String> = l.files.iter().map(|f| f.name.clone()).collect();
        // the real binary's arrival order is up to the OS: give a failing case three chances to show
        let f = if is_bin {
            (0..3).flat_map(|_| binary_failures(&l.files, &l.main, c, bin, &dir.join("min"))).collect::<Vec<_>>()
        } else {
            inproc_failures(rt, &l, c, &permutations(names.len()), &dir.join("min"))
        };
        f.into_iter().find(|(s, _, _)| s == sig).map(|(_, d, o)| (witness(subset, lib, c, &o, &names), d))
    };
    // a binary failure usually has an in-process twin that is already minimised: try that case first
    if let Some(twin) = sig.strip_prefix("binary:") {
        let t = cache.lock().unwrap().get(twin).cloned();
        if let Some((w, _)) = t {
            if let (Some((ts, tl)), Some(tc)) = (ws_from_json(&w["workspace"]), Cfg::from_json(&w["config"])) {
                if let Some(hit) = try_case(&ts, tl, tc) {
                    cache.lock().unwrap().insert(sig.to_string(), hit.clone());
                    return hit;
                }
            }
        }
    }
    let mut cfgs = vec![cfg(0)];
    for knobs in [[true, true, false], [true, false, true], [false, true, true], [true, false, false], [false, true, false], [false, false, true], [false, false, false]] {
        let mut k = c;
        if knobs[0] {
            k.filter = 0;
        }
        if knobs[1] {
            k.wae = false;
        }
        if knobs[2] {
            k.out = 0;
        }
        if !cfgs.contains(&k) {
            cfgs.push(k);
        }
    }
    let mut found = None;
    'search: for k in &cfgs {
        for n in 0..=subset.len() {
            for mask in 0u32..(1 << BANK.len()) {
                if mask.count_ones() as usize != n {
                    continue;
                }
                let cand: Vec<usize> = (0..BANK.len()).filter(|b| mask & (1 << b) != 0).collect();
                for l in [false, true] {
                    if l && !lib {
                        continue;
                    }
                    if let Some(hit) = try_case(&cand, l, *k) {
                        found = Some(hit);
                        break 'search;
                    }
                }
            }
        }
    }
    let res = found.unwrap_or_else(|| (witness(subset, lib, c, &None, &[]), "seen once, did not reproduce during minimisation (the real binary's arrival order is not controlled)".into()));
    cache.lock().unwrap().insert(sig.to_string(), res.clone());
    res
}

pub fn replay(args: &Args, w: &Value, sig: Option<&str>) -> Option<Violation> {
    let base = work_dir(args, "c36");
    let rt = tokio::runtime::Builder::new_current_thread().enable_all().build().unwrap();
    let (subset, lib) = ws_from_json(&w["workspace"]).unwrap_or_else(|| die("C36 replay: bad workspace in witness"));
    let c = Cfg::from_json(&w["config"]).unwrap_or_else(|| die("C36 replay: bad config in witness"));
    let main = make_workspace(&base.join("replay"), &subset, lib);
    let l = load(&rt, &main);
    let names: Vec<String> = l.files.iter().map(|f| f.name.clone()).collect();
    let orders: Vec<Vec<usize>> = match w["arrival_order"].as_array() {
        Some(a) => {
            let o: Vec<usize> = a.iter().filter_map(|n| names.iter().position(|x| Some(x.as_str()) == n.as_str())).collect();
            vec![o]
        }
        None => vec![],
    };
    let bin = real_bin("emmylua_check");
    let use_bin = sig.map(|s| s.starts_with("binary:")).unwrap_or(orders.is_empty());
    let dir = base.join("replay");
    let mut f = inproc_failures(&rt, &l, c, &orders, &dir);
    if use_bin {
        f.extend(binary_failures(&l.files, &l.main, c, &bin, &dir));
    }
    let _ = std::fs::remove_dir_all(&base);
    let hit = match sig {
        Some(s) => f.into_iter().find(|(x, _, _)| x == s),
        None => f.into_iter().next(),
    };
    hit.map(|(s, d, _)| Violation { signature: s, witness: w.clone(), detail: d })
}

pub fn run(args: &Args) -> ! {
    if let Some(w) = args.replay_witness() {
        let wit = if w.get("witness").is_some() { w["witness"].clone() } else { w.clone() };
        let sig = w["signature"].as_str().map(String::from);
        finish_replay(replay(args, &wit, sig.as_deref()), "C36");
    }
    let dl = args.deadline();
    let base = work_dir(args, "c36");
    let bin = real_bin("emmylua_check");
    let rt = tokio::runtime::Builder::new_current_thread().enable_all().build().unwrap();
    let mut rep = Report::new("C36", "model_checking");
    let thorough = args.tier == Tier::Thorough;
    let max_files = args.extra_usize("files").unwrap_or(args.tier.pick(3, 4)).min(BANK.len());

    // workspaces: subsets of the bank with ≤ max_files files × library on/off, by size
    let mut workspaces: Vec<(Vec<usize>, bool)> = Vec::new();
    for size in 0..=max_files {
        for mask in 0u32..(1 << BANK.len()) {
            if mask.count_ones() as usize == size {
                let subset: Vec<usize> = (0..BANK.len()).filter(|b| mask & (1 << b) != 0).collect();
                for lib in [false, true] {
                    workspaces.push((subset.clone(), lib));
                }
            }
        }
    }

    let min_cache: MinCache = Mutex::new(std::collections::HashMap::new());
    let mut all = Stats::default();
    let mut states = 0u64;
    let mut transitions = 0u64;
    let mut complete = true;
    let mut seen_exit = [false; 2];
    let mut sev_seen: BTreeMap<String, u64> = BTreeMap::new();
    let mut done_ws = 0usize;

    // ---- phase 1 (deciding, in-process, single-threaded because stdout is captured): every workspace ×
    // every config × every arrival order. The bank is loaded twice through the crate's load_workspace (without
    // and with the library root); a workspace is that analysis restricted to its files.
    let all_files: Vec<usize> = (0..BANK.len()).collect();
    let big: Vec<Loaded> = [false, true]
        .iter()
        .map(|&lib| {
            let main = make_workspace(&base.join(if lib { "bank-lib" } else { "bank" }), &all_files, lib);
            let l = load(&rt, &main);
            if l.files.len() != BANK.len() {
                let names: Vec<&String> = l.files.iter().map(|f| &f.name).collect();
                all.violation(Violation { signature: "wrong-file-set".into(), witness: json!({"workspace": ws_json(&all_files, lib)}), detail: format!("main-workspace files to check are {names:?}, the workspace has {} files", BANK.len()) });
            }
            l
        })
        .collect();
    for f in &big[0].files {
        for d in &f.diags {
            *sev_seen.entry(format!("{}:{}", f.name, level_name(d.severity))).or_insert(0) += 1;
        }
    }
    let scratch = base.join("inproc");
    let _ = std::fs::create_dir_all(&scratch);
    TAP.with(|t| *t.borrow_mut() = Some(StdoutTap::install(&scratch.join("stdout.tap"))));
    for (wi, (subset, lib)) in workspaces.iter().enumerate() {
        if dl.expired() {
            complete = false;
            break;
        }
        let l = big[*lib as usize].restrict(subset);
        let names: Vec<String> = l.files.iter().map(|f| f.name.clone()).collect();
        let orders = permutations(l.files.len());
        for ci in 0..N_CFG {
            let c = cfg(ci);
            let want = expected_exit_nonzero(&l.files, c);
            seen_exit[want as usize] = true;
            let n_items = expected_items(&l.files, c, false).len();
            for o in &orders {
                states += 1;
                transitions += o.len() as u64;
                all.eval(!o.is_empty());
                let fails = inproc_failures(&rt, &l, c, std::slice::from_ref(o), &scratch);
                all.outcome(&format!("in-process {} exit{} {}", OUTS[c.out].0, want as u8, if n_items == 0 { "empty-report" } else { "non-empty-report" }));
                if states % 1499 == 0 {
                    all.sample(|| json!({"workspace": ws_json(subset, *lib), "config": c.json(), "arrival_order": o.iter().map(|&i| names[i].clone()).collect::<Vec<_>>(), "expected_exit_nonzero": want, "expected_report_entries": n_items, "verdict": if fails.is_empty() { "agrees" } else { "differs" }}));
                }
                for (sig, _d, _ord) in fails {
                    let (w, d) = minimise(&rt, &base, subset, *lib, c, &sig, &bin, &min_cache, Some(&big));
                    all.violation(Violation { signature: sig, witness: w, detail: d });
                }
            }
        }
        done_ws = wi + 1;
    }
    TAP.with(|t| *t.borrow_mut() = None);

    // ---- phase 2 (process level, parallel): the real binary.
    // quick: a fixed set of 6 workspaces × 4 configurations (sampled); thorough: every workspace × every configuration
    let pick = |names: &[&str]| -> Vec<usize> { (0..BANK.len()).filter(|&b| names.contains(&BANK[b].0)).collect() };
    let proc_ws: Vec<(Vec<usize>, bool)> = if thorough {
        workspaces.clone()
    } else {
        vec![
            (vec![], false),
            (pick(&["c.lua"]), false),
            (pick(&["e.lua"]), false),
            (pick(&["w.lua", "h.lua"]), false),
            (pick(&["e.lua", "w.lua", "i.lua"]), true),
            (pick(&["m.lua", "c.lua", "h.lua"]), true),
        ]
        .into_iter()
        .filter(|(s, _)| s.len() <= max_files)
        .collect()
    };
    let cfgs: Vec<Cfg> = if thorough {
        (0..N_CFG).map(cfg).collect()
    } else {
        vec![
            Cfg { filter: 0, wae: false, out: 0 }, // text, default
            Cfg { filter: 2, wae: false, out: 2 }, // json to a file, --severity warn
            Cfg { filter: 0, wae: true, out: 3 },  // sarif on stdout, --warnings-as-errors
            Cfg { filter: 1, wae: true, out: 1 },  // json on stdout, --severity error --warnings-as-errors
        ]
    };
    struct Kept {
        subset: Vec<usize>,
        lib: bool,
        dir: PathBuf,
        main: PathBuf,
        files: Vec<LoadedFile>,
    }
    // each process-level workspace is written to disk and loaded on its own; its diagnostics must be the ones the
    // restricted bank analysis gave (that is what phase 1 relied on)
    let shared: Vec<Vec<LoadedFile>> = proc_ws.iter().map(|(s, lib)| big[*lib as usize].restrict(s).files).collect();
    drop(big);
    let kept: Mutex<Vec<Option<Kept>>> = Mutex::new((0..proc_ws.len()).map(|_| None).collect());
    let drift: Mutex<Vec<String>> = Mutex::new(Vec::new());
    let (_, ok_a) = par_range(proc_ws.len() as u64, args.threads, &dl, |i, _| {
        thread_local! { static RT: tokio::runtime::Runtime = tokio::runtime::Builder::new_current_thread().enable_all().build().unwrap(); }
        let (subset, lib) = &proc_ws[i as usize];
        let dir = base.join(format!("w{i}"));
        let main = make_workspace(&dir, subset, *lib);
        let l = RT.with(|rt| load(rt, &main));
        let key = |fs: &[LoadedFile]| fs.iter().map(|f| (f.name.clone(), serde_json::to_string(&f.diags).unwrap_or_default())).collect::<Vec<_>>();
        if key(&l.files) != key(&shared[i as usize]) {
            drift.lock().unwrap().push(format!("{}", ws_json(subset, *lib)));
        }
        let Loaded { analysis, main, files } = l;
        drop(analysis);
        kept.lock().unwrap()[i as usize] = Some(Kept { subset: subset.clone(), lib: *lib, dir, main, files });
    });
    let kept: Vec<Kept> = kept.into_inner().unwrap().into_iter().flatten().collect();
    let jobs: Vec<(usize, Cfg)> = kept.iter().enumerate().flat_map(|(k, _)| cfgs.iter().map(move |c| (k, *c))).collect();
    let validated = Mutex::new(0u64);
    let ran = Mutex::new(0u64);
    let (st, ok) = par_range(jobs.len() as u64, args.threads, &dl, |i, st| {
        let (k, c) = jobs[i as usize];
        let kw = &kept[k];
        st.eval(!kw.subset.is_empty());
        let fails = binary_failures(&kw.files, &kw.main, c, &bin, &kw.dir);
        let want = expected_exit_nonzero(&kw.files, c);
        st.outcome(&format!("binary {} exit{}", OUTS[c.out].0, want as u8));
        *ran.lock().unwrap() += 1;
        if fails.is_empty() {
            *validated.lock().unwrap() += 1;
        }
        if thorough && i % 173 == 0 || !thorough && i % 5 == 0 {
            st.sample(|| json!({"binary": "emmylua_check", "workspace": ws_json(&kw.subset, kw.lib), "config": c.json(), "expected_exit_nonzero": want, "verdict": if fails.is_empty() { "agrees" } else { "differs" }}));
        }
        if !fails.is_empty() {
            thread_local! { static RT2: tokio::runtime::Runtime = tokio::runtime::Builder::new_current_thread().enable_all().build().unwrap(); }
            RT2.with(|rt| {
                for (sig, _d, _) in fails {
                    let mdir = base.join(format!("t{}", thread_slot()));
                    let (w, d) = minimise(rt, &mdir, &kw.subset, kw.lib, c, &sig, &bin, &min_cache, None);
                    st.violation(Violation { signature: sig, witness: w, detail: d });
                }
            });
        }
    });
    all.merge(st);
    if !ok || !ok_a {
        complete = false;
    }
    if !(seen_exit[0] && seen_exit[1]) {
        rep.machinery_error = Some("C36: the snippet bank no longer produces both exit classes (vacuous exploration)".into());
    }
    let drift = drift.into_inner().unwrap();
    if let Some(d) = drift.first() {
        rep.machinery_error = Some(format!("C36: a workspace loaded on its own has other diagnostics than the bank analysis restricted to its files ({} workspaces, e.g. {d})", drift.len()));
    }

    rep.exhaustive = complete;
    rep.rule = "exit status ≠ 0 ⇔ some diagnostic that passes the severity filter is an error, or a warning under --warnings-as-errors; the parsed text/JSON/SARIF report contains exactly the filtered diagnostics of the main-workspace files (file, level, code, message, start position), each once, each under its own file — for every arrival order of the result channel in-process and for the real binary".into();
    rep.bounds = json!({
        "bank": BANK.iter().map(|b| format!("{}: {}", b.0, b.2)).collect::<Vec<_>>(),
        "max_files_per_workspace": max_files,
        "workspaces": workspaces.len(),
        "workspaces_completed_in_process": done_ws,
        "configs": N_CFG,
        "arrival_orders": "all n! orders, n = number of main-workspace files",
        "process_level_workspaces": kept.len(),
        "process_level_configs": cfgs.len(),
        "process_level": if thorough { "real binary on every workspace × every configuration" } else { "sampled: real binary on a fixed set of 6 workspaces (empty, clean, error, warning+hint, error+warning+information with library, mixed+clean+hint with library) × 4 configurations (text default; json file --severity warn; sarif --warnings-as-errors; json --severity error --warnings-as-errors)" },
    });
    rep.assumptions = vec![
        "the expected diagnostics are computed in-process through the crate's own load_workspace + diagnose_file with the same explicit .emmyrc.json; the check judges how they are filtered, counted and reported, not whether they are right".into(),
        "in-process, a workspace is the analysis of the whole bank (loaded once without and once with the library root) restricted to the workspace's files — the files handed to output_result are the only thing run_check derives from the workspace; every process-level workspace is loaded on its own and must give the same diagnostics (a difference is a machinery error)".into(),
        "the order in which the real binary's tasks deliver results is chosen by the OS; the deciding step for arrival orders is the in-process enumeration".into(),
        "SARIF has one `note` level for information and hint".into(),
    ];
    rep.set("states", json!(states));
    rep.set("transitions", json!(transitions));
    rep.set("traces_validated_against_impl", json!(*validated.lock().unwrap()));
    rep.set("binary_runs", json!(*ran.lock().unwrap()));
    rep.set("binary_runs_targeted", json!(jobs.len()));
    rep.set("bank_severities_seen", json!(sev_seen));
    let _ = std::fs::remove_dir_all(&base);
    rep.finish(args, all)
}
