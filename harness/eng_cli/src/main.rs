//! eng_cli — C35 (doc export: seam permutation), C36 (checker: arrival orders), C39 (luafmt --write:
//! fault enumeration on the real binary).
mod c35;
mod c36;
mod c39;
mod util;

fn main() {
    let args = vcore::parse_args();
    match args.prop.as_str() {
        "C35" => c35::run(&args),
        "C36" => c36::run(&args),
        "C39" => c39::run(&args),
        p => vcore::die(&format!("eng_cli does not serve {p}")),
    }
}
