//! vcore — shared machinery for the bounded-exhaustive engines.
//!
//! Every engine is a binary that is invoked by `/verif/check` as
//! `eng_x --prop Cxx --tier quick|thorough --out <result.json> [--seed N] [--replay <file>]`
//! and writes one *result* JSON (see `Report::finish`). The python driver turns that
//! into the evidence file, the replay artefacts and the VIOLATION / KNOWN-FINDING lines.
use serde_json::{Value, json};
use std::cell::RefCell;
use std::collections::{BTreeMap, HashMap};
use std::path::PathBuf;
use std::sync::Mutex;
use std::sync::atomic::{AtomicBool, AtomicU64, Ordering};
use std::time::{Duration, Instant};

// ---------------------------------------------------------------- args

#[derive(Clone, Copy, PartialEq, Eq, Debug)]
pub enum Tier {
    Quick,
    Thorough,
}
impl Tier {
    pub fn name(self) -> &'static str {
        match self {
            Tier::Quick => "quick",
            Tier::Thorough => "thorough",
        }
    }
    pub fn pick<T>(self, quick: T, thorough: T) -> T {
        match self {
            Tier::Quick => quick,
            Tier::Thorough => thorough,
        }
    }
}

#[derive(Clone, Debug)]
pub struct Args {
    pub prop: String,
    pub tier: Tier,
    pub out: PathBuf,
    pub seed: u64,
    pub replay: Option<PathBuf>,
    pub threads: usize,
    /// wall-clock cap for the exploration itself (seconds); engines stop cleanly and
    /// report the largest bound completed.
    pub wall_cap_s: f64,
    pub extra: HashMap<String, String>,
    pub start: Instant,
}

pub fn parse_args() -> Args {
    let mut a = Args {
        prop: String::new(),
        tier: Tier::Quick,
        out: PathBuf::from("/dev/stdout"),
        seed: 0,
        replay: None,
        threads: std::thread::available_parallelism().map(|n| n.get()).unwrap_or(4),
        wall_cap_s: 0.0,
        extra: HashMap::new(),
        start: Instant::now(),
    };
    let mut it = std::env::args().skip(1);
    while let Some(k) = it.next() {
        let mut val = || it.next().unwrap_or_else(|| die(&format!("missing value for {k}")));
        match k.as_str() {
            "--prop" => a.prop = val(),
            "--tier" => {
                a.tier = match val().as_str() {
                    "quick" => Tier::Quick,
                    "thorough" => Tier::Thorough,
                    t => die(&format!("bad tier {t}")),
                }
            }
            "--out" => a.out = PathBuf::from(val()),
            "--seed" => a.seed = val().parse().unwrap_or(0),
            "--replay" => a.replay = Some(PathBuf::from(val())),
            "--threads" => a.threads = val().parse().unwrap_or(a.threads),
            "--wall" => a.wall_cap_s = val().parse().unwrap_or(0.0),
            other if other.starts_with("--") => {
                let v = val();
                a.extra.insert(other[2..].to_string(), v);
            }
            other => die(&format!("unexpected argument {other}")),
        }
    }
    if a.wall_cap_s <= 0.0 {
        a.wall_cap_s = a.tier.pick(45.0, 900.0);
    }
    a
}

impl Args {
    pub fn deadline(&self) -> Deadline {
        Deadline::new(self.start + Duration::from_secs_f64(self.wall_cap_s))
    }
    pub fn extra_usize(&self, k: &str) -> Option<usize> {
        self.extra.get(k).and_then(|v| v.parse().ok())
    }
    pub fn replay_witness(&self) -> Option<Value> {
        let p = self.replay.as_ref()?;
        let txt = std::fs::read_to_string(p).unwrap_or_else(|e| die(&format!("cannot read replay {p:?}: {e}")));
        let v: Value = serde_json::from_str(&txt).unwrap_or_else(|e| die(&format!("bad replay json: {e}")));
        Some(v)
    }
}

/// machinery exit: never a verdict
pub fn die(msg: &str) -> ! {
    eprintln!("MACHINERY-ERROR: {msg}");
    std::process::exit(2)
}

// ---------------------------------------------------------------- deadline

#[derive(Clone)]
pub struct Deadline {
    at: Instant,
    hit: std::sync::Arc<AtomicBool>,
}
impl Deadline {
    pub fn new(at: Instant) -> Self {
        Deadline { at, hit: std::sync::Arc::new(AtomicBool::new(false)) }
    }
    pub fn after_secs(s: f64) -> Self {
        Self::new(Instant::now() + Duration::from_secs_f64(s))
    }
    pub fn expired(&self) -> bool {
        if self.hit.load(Ordering::Relaxed) {
            return true;
        }
        if Instant::now() >= self.at {
            self.hit.store(true, Ordering::Relaxed);
            return true;
        }
        false
    }
    pub fn was_hit(&self) -> bool {
        self.hit.load(Ordering::Relaxed)
    }
}

// ---------------------------------------------------------------- panics

thread_local! {
    static LAST_PANIC: RefCell<Option<String>> = const { RefCell::new(None) };
    static QUIET: RefCell<bool> = const { RefCell::new(false) };
}
static HOOK: std::sync::Once = std::sync::Once::new();

fn install_hook() {
    HOOK.call_once(|| {
        let prev = std::panic::take_hook();
        std::panic::set_hook(Box::new(move |info| {
            let loc = info.location().map(|l| format!("{}:{}", l.file(), l.line())).unwrap_or_default();
            let msg = if let Some(s) = info.payload().downcast_ref::<&str>() {
                s.to_string()
            } else if let Some(s) = info.payload().downcast_ref::<String>() {
                s.clone()
            } else {
                "<non-string panic>".to_string()
            };
            let quiet = QUIET.with(|q| *q.borrow());
            LAST_PANIC.with(|p| *p.borrow_mut() = Some(format!("{msg} @ {loc}")));
            if !quiet {
                prev(info);
            }
        }));
    });
}

/// Run `f`, turning a panic into `Err("message @ file:line")`. Nothing is printed.
pub fn catch<R>(f: impl FnOnce() -> R) -> Result<R, String> {
    install_hook();
    QUIET.with(|q| *q.borrow_mut() = true);
    LAST_PANIC.with(|p| *p.borrow_mut() = None);
    let r = std::panic::catch_unwind(std::panic::AssertUnwindSafe(f));
    QUIET.with(|q| *q.borrow_mut() = false);
    match r {
        Ok(v) => Ok(v),
        Err(_) => Err(LAST_PANIC.with(|p| p.borrow_mut().take()).unwrap_or_else(|| "panic".into())),
    }
}

/// Strip volatile parts (numbers inside the message) so one panic site = one signature.
pub fn panic_site(msg: &str) -> String {
    match msg.rsplit_once(" @ ") {
        Some((_, loc)) => {
            // keep path relative to the repo
            // (line numbers are dropped: they shift under unrelated edits)
            let loc = loc.rsplit_once("/repo/").map(|(_, r)| r).unwrap_or(loc);
            loc.split(':').next().unwrap_or(loc).to_string()
        }
        None => msg.chars().take(60).collect(),
    }
}

// ---------------------------------------------------------------- stats

#[derive(Clone, Debug)]
pub struct Violation {
    /// short, stable name of *how* it fails (e.g. "drop-after", "panic:lexer.rs:120")
    pub signature: String,
    /// the minimal witness, in the engine's own vocabulary (replayable by the engine)
    pub witness: Value,
    /// human-readable: observed vs expected
    pub detail: String,
}

impl Violation {
    /// `Cxx:<signature>:<witness json>`; top-level witness keys starting with `_` (replay
    /// material such as a concrete schedule) are not part of the identity.
    pub fn fingerprint(&self, prop: &str) -> String {
        format!("{}:{}:{}", prop, self.signature, serde_json::to_string(&Self::identity(&self.witness)).unwrap())
    }
    pub fn identity(w: &Value) -> Value {
        match w {
            Value::Object(o) => Value::Object(o.iter().filter(|(k, _)| !k.starts_with('_')).map(|(k, v)| (k.clone(), v.clone())).collect()),
            x => x.clone(),
        }
    }
}

#[derive(Default, Clone)]
pub struct Stats {
    pub evaluations: u64,
    pub nontrivial: u64,
    pub undecided: u64,
    /// distinct outcome classes observed (reading them guards against vacuous exploration)
    pub outcomes: BTreeMap<String, u64>,
    pub samples: Vec<Value>,
    /// keyed by signature + witness; value = (violation, number of raw cases that reduce to it)
    pub violations: BTreeMap<String, (Violation, u64)>,
    pub raw_violating_cases: u64,
}

pub const MAX_SAMPLES: usize = 12;
pub const MAX_VIOLATIONS: usize = 400;

impl Stats {
    pub fn eval(&mut self, nontrivial: bool) {
        self.evaluations += 1;
        if nontrivial {
            self.nontrivial += 1;
        }
    }
    pub fn outcome(&mut self, class: &str) {
        *self.outcomes.entry(class.to_string()).or_insert(0) += 1;
    }
    pub fn sample(&mut self, v: impl FnOnce() -> Value) {
        if self.samples.len() < MAX_SAMPLES {
            self.samples.push(v());
        }
    }
    pub fn violation(&mut self, v: Violation) {
        self.raw_violating_cases += 1;
        let key = format!("{}:{}", v.signature, Violation::identity(&v.witness));
        if let Some(e) = self.violations.get_mut(&key) {
            e.1 += 1;
        } else if self.violations.len() < MAX_VIOLATIONS {
            self.violations.insert(key, (v, 1));
        }
    }
    pub fn merge(&mut self, o: Stats) {
        self.evaluations += o.evaluations;
        self.nontrivial += o.nontrivial;
        self.undecided += o.undecided;
        self.raw_violating_cases += o.raw_violating_cases;
        for (k, v) in o.outcomes {
            *self.outcomes.entry(k).or_insert(0) += v;
        }
        for s in o.samples {
            if self.samples.len() < MAX_SAMPLES {
                self.samples.push(s);
            }
        }
        for (k, (v, n)) in o.violations {
            if let Some(e) = self.violations.get_mut(&k) {
                e.1 += n;
            } else if self.violations.len() < MAX_VIOLATIONS {
                self.violations.insert(k, (v, n));
            }
        }
    }
}

// ---------------------------------------------------------------- enumeration

/// number of words of length exactly k over an alphabet of `sigma` letters
pub fn pow(sigma: u64, k: u32) -> u64 {
    sigma.checked_pow(k).expect("word space overflows u64")
}

/// Decode `idx` (0 ≤ idx < sigma^k) into the k digits of a word, most significant first.
pub fn decode_word(mut idx: u64, sigma: u64, k: usize, out: &mut Vec<usize>) {
    out.clear();
    out.resize(k, 0);
    for i in (0..k).rev() {
        out[i] = (idx % sigma) as usize;
        idx /= sigma;
    }
}

/// Decode a mixed-radix index: radices[i] choices at position i.
pub fn decode_mixed(mut idx: u64, radices: &[usize], out: &mut Vec<usize>) {
    out.clear();
    out.resize(radices.len(), 0);
    for i in (0..radices.len()).rev() {
        let r = radices[i] as u64;
        out[i] = (idx % r) as usize;
        idx /= r;
    }
}

pub fn mixed_total(radices: &[usize]) -> u64 {
    radices.iter().fold(1u64, |a, &r| a.checked_mul(r as u64).expect("space overflows u64"))
}

/// Run `f(i, &mut stats)` for every i in 0..n on `threads` workers (dynamic chunking).
/// Returns the merged stats and `true` iff every index was processed (deadline not hit).
/// The order in which indices are visited is irrelevant to the result: `f` must be a
/// pure function of `i`.
pub fn par_range<F>(n: u64, threads: usize, deadline: &Deadline, f: F) -> (Stats, bool)
where
    F: Fn(u64, &mut Stats) + Sync,
{
    let next = AtomicU64::new(0);
    let done = AtomicU64::new(0);
    let chunk = (n / (threads as u64 * 64)).clamp(1, 4096);
    let merged = Mutex::new(Stats::default());
    std::thread::scope(|s| {
        for _ in 0..threads.max(1) {
            s.spawn(|| {
                let mut st = Stats::default();
                loop {
                    if deadline.expired() {
                        break;
                    }
                    let lo = next.fetch_add(chunk, Ordering::Relaxed);
                    if lo >= n {
                        break;
                    }
                    let hi = (lo + chunk).min(n);
                    for i in lo..hi {
                        f(i, &mut st);
                    }
                    done.fetch_add(hi - lo, Ordering::Relaxed);
                }
                merged.lock().unwrap().merge(st);
            });
        }
    });
    let complete = done.load(Ordering::Relaxed) == n;
    (merged.into_inner().unwrap(), complete)
}

/// All words of length min_k..=max_k over `sigma` letters, bound iterated upward.
/// Returns merged stats and the largest k fully completed (None if not even min_k).
pub fn par_words<F>(sigma: usize, min_k: usize, max_k: usize, threads: usize, deadline: &Deadline, f: F) -> (Stats, Option<usize>)
where
    F: Fn(&[usize], &mut Stats) + Sync,
{
    let mut all = Stats::default();
    let mut completed = None;
    for k in min_k..=max_k {
        let n = pow(sigma as u64, k as u32);
        let (st, ok) = par_range(n, threads, deadline, |i, st| {
            thread_local! { static BUF: RefCell<Vec<usize>> = const { RefCell::new(Vec::new()) }; }
            BUF.with(|b| {
                let mut b = b.borrow_mut();
                decode_word(i, sigma as u64, k, &mut b);
                f(&b, st);
            })
        });
        all.merge(st);
        if ok {
            completed = Some(k);
        } else {
            break;
        }
    }
    (all, completed)
}

/// all permutations of 0..n in lexicographic order
pub fn permutations(n: usize) -> Vec<Vec<usize>> {
    fn rec(cur: &mut Vec<usize>, used: &mut Vec<bool>, n: usize, out: &mut Vec<Vec<usize>>) {
        if cur.len() == n {
            out.push(cur.clone());
            return;
        }
        for i in 0..n {
            if !used[i] {
                used[i] = true;
                cur.push(i);
                rec(cur, used, n, out);
                cur.pop();
                used[i] = false;
            }
        }
    }
    let mut out = Vec::new();
    rec(&mut Vec::new(), &mut vec![false; n], n, &mut out);
    out
}

/// Greedy one-at-a-time delta minimisation: drop elements while `still_fails` holds.
pub fn minimise_seq<T: Clone>(items: &[T], still_fails: impl Fn(&[T]) -> bool) -> Vec<T> {
    let mut cur: Vec<T> = items.to_vec();
    loop {
        let mut progressed = false;
        let mut i = 0;
        while i < cur.len() {
            let mut cand = cur.clone();
            cand.remove(i);
            if still_fails(&cand) {
                cur = cand;
                progressed = true;
            } else {
                i += 1;
            }
        }
        if !progressed {
            return cur;
        }
    }
}

/// FNV-1a, for deterministic (seed-free) hashing of dumps
pub fn fnv(s: &[u8]) -> u64 {
    let mut h: u64 = 0xcbf29ce484222325;
    for b in s {
        h ^= *b as u64;
        h = h.wrapping_mul(0x100000001b3);
    }
    h
}

// ---------------------------------------------------------------- report

pub struct Report {
    pub prop: String,
    pub level: &'static str,
    pub rule: String,
    pub exhaustive: bool,
    pub bounds: Value,
    pub assumptions: Vec<String>,
    pub extra: serde_json::Map<String, Value>,
    pub machinery_error: Option<String>,
}

impl Report {
    pub fn new(prop: &str, level: &'static str) -> Self {
        Report {
            prop: prop.to_string(),
            level,
            rule: String::new(),
            exhaustive: false,
            bounds: Value::Null,
            assumptions: vec![],
            extra: serde_json::Map::new(),
            machinery_error: None,
        }
    }
    pub fn set(&mut self, k: &str, v: Value) {
        self.extra.insert(k.to_string(), v);
    }

    /// Write the engine result JSON. Exit code of the engine: 0 (result written; the driver
    /// decides about violations), 2 on machinery error.
    pub fn finish(self, args: &Args, stats: Stats) -> ! {
        let violations: Vec<Value> = stats
            .violations
            .values()
            .map(|(v, n)| {
                json!({
                    "fingerprint": v.fingerprint(&self.prop),
                    "signature": v.signature,
                    "witness": v.witness,
                    "detail": v.detail,
                    "raw_cases": n,
                })
            })
            .collect();
        let out = json!({
            "property_id": self.prop,
            "tier": args.tier.name(),
            "seed": args.seed,
            "level": self.level,
            "evaluations": stats.evaluations,
            "distinct_nontrivial": stats.nontrivial,
            "undecided": stats.undecided,
            "rule": self.rule,
            "samples": stats.samples,
            "outcomes": stats.outcomes,
            "exhaustive": self.exhaustive,
            "bounds": self.bounds,
            "assumptions": self.assumptions,
            "extra": Value::Object(self.extra),
            "violations": violations,
            "raw_violating_cases": stats.raw_violating_cases,
            "violations_truncated": stats.violations.len() >= MAX_VIOLATIONS,
            "wall_s": args.start.elapsed().as_secs_f64(),
            "machinery_error": self.machinery_error,
        });
        let txt = serde_json::to_string_pretty(&out).unwrap();
        if let Err(e) = std::fs::write(&args.out, txt) {
            die(&format!("cannot write {:?}: {e}", args.out));
        }
        std::process::exit(if out["machinery_error"].is_null() { 0 } else { 2 })
    }
}

/// Replay mode helper: the engine re-executes one witness and reports whether it still fails.
pub fn finish_replay(reproduced: Option<Violation>, prop: &str) -> ! {
    match reproduced {
        Some(v) => {
            println!("REPLAY-REPRODUCED property={prop} signature={} detail={}", v.signature, v.detail);
            std::process::exit(1)
        }
        None => {
            println!("REPLAY-CLEAN property={prop}");
            std::process::exit(0)
        }
    }
}

/// Character-level delta minimisation of a text: first drop halves/quarters/… (ddmin-style
/// chunks), then single characters, while `still_fails` holds.
pub fn minimise_text(text: &str, still_fails: impl Fn(&str) -> bool) -> String {
    let mut cur: Vec<char> = text.chars().collect();
    let to_s = |v: &[char]| v.iter().collect::<String>();
    let mut chunk = cur.len() / 2;
    while chunk >= 2 {
        let mut i = 0;
        while i + chunk <= cur.len() {
            let mut cand = cur.clone();
            cand.drain(i..i + chunk);
            if still_fails(&to_s(&cand)) {
                cur = cand;
            } else {
                i += chunk;
            }
        }
        chunk /= 2;
    }
    let out = minimise_seq(&cur, |c| still_fails(&to_s(c)));
    to_s(&out)
}

/// Root of the repository under test (env VERIF_REPO, default /repo).
pub fn repo_root() -> PathBuf {
    PathBuf::from(std::env::var("VERIF_REPO").unwrap_or_else(|_| "/repo".to_string()))
}
