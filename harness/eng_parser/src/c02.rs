//! C02 — parsing never crashes or hangs.
//! (a) every word of Σ₁^≤k / Σ₂^≤k × 32 configs under catch_unwind;
//! (b) nesting families × depth ladder on a 2 MiB stack, each family in a subprocess so that
//!     a stack overflow (SIGSEGV/abort) is *observed* instead of killing the harness;
//! (c) size scaling of repeated Σ₂ fragments (time rule of DESIGN §3.6).
use crate::common::*;
use serde_json::{Value, json};
use std::io::{BufRead, BufReader};
use std::process::{Command, Stdio};
use std::time::{Duration, Instant};
use vcore::*;

pub const STACK: usize = 2 * 1024 * 1024; // tokio worker default

/// (name, prefix, open, core, close, config index)
pub fn families() -> Vec<(&'static str, &'static str, &'static str, &'static str, &'static str, usize)> {
    const D: usize = 7; // Lua55/doc/no-ext
    const X: usize = 23; // Lua55/doc/ext
    vec![
        ("paren", "x = ", "(", "1", ")", D),
        ("table", "x = ", "{", "", "}", D),
        ("table-field", "x = ", "{a=", "1", "}", D),
        ("table-index", "x = ", "{[", "1", "]=1}", D),
        ("function", "x = ", "function() return ", "1", " end", D),
        ("if", "", "if a then ", "", " end", D),
        ("if-else", "", "if a then else ", "", " end", D),
        ("elseif-chain", "if a then ", "elseif a then ", "", "", D),
        ("do", "", "do ", "", "end ", D),
        ("while", "", "while a do ", "", "end ", D),
        ("for", "", "for i=1,2 do ", "", "end ", D),
        ("repeat", "", "repeat ", "", "until a ", D),
        ("unary-minus", "x = ", "-", "1", "", D),
        ("unary-not", "x = ", "not ", "a", "", D),
        ("unary-len", "x = ", "#", "a", "", D),
        ("pow-chain", "x = ", "1^", "1", "", D),
        ("concat-chain", "x = ", "a..", "a", "", D),
        ("add-chain", "x = ", "1+", "1", "", D),
        ("and-chain", "x = ", "a and ", "a", "", D),
        ("call-chain", "f", "()", "", "", D),
        ("index-chain", "a", ".b", "", "", D),
        ("method-chain", "a", ":b()", "", "", D),
        ("bracket-index", "x = a", "[a", "", "]", D),
        ("string-call-chain", "f", "'x'", "", "", D),
        ("call-arg", "", "f(", "1", ")", D),
        ("ternary", "x = ", "a ? ", "1", " : 1", X),
        ("unclosed-paren", "x = ", "(", "", "", D),
        ("unclosed-table", "x = ", "{", "", "", D),
        ("unclosed-function", "", "function f() ", "", "", D),
        ("unclosed-if", "", "if a then ", "", "", D),
        ("close-only-paren", "x = 1", ")", "", "", D),
        ("close-only-end", "", "end ", "", "", D),
        ("doc-generic", "---@type ", "A<", "A", ">", D),
        ("doc-paren", "---@type ", "(", "A", ")", D),
        ("doc-fun-ret", "---@type ", "fun(): ", "A", "", D),
        ("doc-fun-param", "---@type ", "fun(a: ", "A", ")", D),
        ("doc-array", "---@type A", "[]", "", "", D),
        ("doc-optional", "---@type A", "?", "", "", D),
        ("doc-union", "---@type ", "A|", "A", "", D),
        ("doc-intersection", "---@type ", "A&", "A", "", D),
        ("doc-tuple", "---@type ", "[", "A", "]", D),
        ("doc-object", "---@type ", "{x: ", "A", "}", D),
        ("doc-keyof", "---@type ", "keyof ", "A", "", D),
        ("doc-conditional", "---@type ", "A extends B and ", "C", " or D", D),
        ("doc-unclosed-generic", "---@type ", "A<", "", "", D),
        ("doc-unclosed-paren", "---@type ", "(", "", "", D),
        ("doc-multiline-union", "---@alias X\n", "---| 'a'\n", "", "", D),
        ("doc-continue", "---@class A\n", "--- text\n", "", "", D),
        ("long-bracket-level", "x = [", "=", "[ ]", "", D),
        ("long-comment", "", "--[[ ", "", " ]]", D),
        ("string-escape", "x = \"", "\\z ", "", "", D),
        ("label", "", "::a:: ", "", "", D),
        ("semicolons", "", ";", "", "", D),
        ("newlines", "", "\n", "", "", D),
    ]
}

pub fn family_text(fam: usize, fam2: Option<usize>, depth: usize) -> (String, usize) {
    let fs = families();
    let (_, pre, open, core, close, c) = fs[fam];
    let mut s = String::with_capacity(depth * 8 + 32);
    match fam2 {
        None => {
            s.push_str(pre);
            for _ in 0..depth {
                s.push_str(open);
            }
            s.push_str(core);
            for _ in 0..depth {
                s.push_str(close);
            }
            (s, c)
        }
        Some(f2) => {
            // alternate A and B, keeping A's prefix; B's core innermost
            let (_, _, open2, core2, close2, c2) = fs[f2];
            s.push_str(pre);
            for i in 0..depth {
                s.push_str(if i % 2 == 0 { open } else { open2 });
            }
            s.push_str(if depth % 2 == 0 { core2 } else { core });
            for i in (0..depth).rev() {
                s.push_str(if i % 2 == 0 { close } else { close2 });
            }
            (s, if c == c2 { c } else { 23 })
        }
    }
}

fn thread_cpu_secs() -> f64 {
    let mut ts = libc::timespec { tv_sec: 0, tv_nsec: 0 };
    unsafe { libc::clock_gettime(libc::CLOCK_THREAD_CPUTIME_ID, &mut ts) };
    ts.tv_sec as f64 + ts.tv_nsec as f64 * 1e-9
}

fn parse_on_small_stack(text: String, c: usize) -> Result<(f64, usize), String> {
    let h = std::thread::Builder::new()
        .stack_size(STACK)
        .spawn(move || {
            catch(|| {
                // CPU time of this thread (immune to preemption by other processes), best of
                // three for inputs large enough for the time rule to apply
                let reps = if text.len() >= 64 * 1024 { 3 } else { 1 };
                let mut best = f64::MAX;
                let mut n = 0;
                for _ in 0..reps {
                    let t0 = thread_cpu_secs();
                    let tree = parse(&text, cfg(c));
                    n = tree.get_errors().len();
                    // the consumers walk and drop the tree on the same stack
                    let _count = tree.get_red_root().descendants_with_tokens().count();
                    drop(tree);
                    best = best.min(thread_cpu_secs() - t0);
                }
                (best, n)
            })
        })
        .map_err(|e| format!("spawn: {e}"))?;
    match h.join() {
        Ok(r) => r,
        Err(_) => Err("thread panicked outside catch".into()),
    }
}

/// child mode: `--child nest <fam> <fam2|-> <d1,d2,...>` prints one line per depth
pub fn child(args: &[String]) -> ! {
    let kind = args[0].as_str();
    match kind {
        "nest" => {
            let fam: usize = args[1].parse().unwrap();
            let fam2: Option<usize> = args[2].parse().ok();
            for d in args[3].split(',') {
                let d: usize = d.parse().unwrap();
                let (text, c) = family_text(fam, fam2, d);
                let len = text.len();
                println!("START {d} {len}");
                match parse_on_small_stack(text, c) {
                    Ok((t, n)) => println!("OK {d} {len} {t:.6} {n}"),
                    Err(p) => println!("PANIC {d} {len} {}", p.replace('\n', " ")),
                }
            }
        }
        "scale" => {
            let fi: usize = args[1].parse().unwrap();
            for sz in args[2].split(',') {
                let sz: usize = sz.parse().unwrap();
                let frag = SIGMA2[fi];
                let text = frag.repeat(sz / frag.len().max(1) + 1);
                let len = text.len();
                println!("START {sz} {len}");
                match parse_on_small_stack(text, 7) {
                    Ok((t, n)) => println!("OK {sz} {len} {t:.6} {n}"),
                    Err(p) => println!("PANIC {sz} {len} {}", p.replace('\n', " ")),
                }
            }
        }
        "text" => {
            // replay of an arbitrary text
            let text = std::fs::read_to_string(&args[1]).unwrap();
            let c: usize = args[2].parse().unwrap();
            println!("START 0 {}", text.len());
            match parse_on_small_stack(text, c) {
                Ok((t, n)) => println!("OK 0 0 {t:.6} {n}"),
                Err(p) => println!("PANIC 0 0 {}", p.replace('\n', " ")),
            }
        }
        _ => die("bad child kind"),
    }
    std::process::exit(0)
}

#[derive(Debug)]
pub enum ChildOutcome {
    Ok { param: usize, len: usize, secs: f64, errors: usize },
    Panic { param: usize, msg: String },
    Died { param: usize, how: String },
    Hang { param: usize },
}

pub fn run_child(child_args: &[String], timeout: Duration) -> Vec<ChildOutcome> {
    let exe = std::env::current_exe().unwrap();
    let mut ch = Command::new(exe)
        .arg("--child")
        .args(child_args)
        .stdout(Stdio::piped())
        .stderr(Stdio::null())
        .spawn()
        .unwrap_or_else(|e| die(&format!("spawn child: {e}")));
    let stdout = ch.stdout.take().unwrap();
    let (tx, rx) = std::sync::mpsc::channel::<String>();
    std::thread::spawn(move || {
        for l in BufReader::new(stdout).lines().map_while(Result::ok) {
            if tx.send(l).is_err() {
                break;
            }
        }
    });
    let mut out = Vec::new();
    let mut started: Option<usize> = None;
    let t0 = Instant::now();
    loop {
        let left = timeout.saturating_sub(t0.elapsed());
        match rx.recv_timeout(left.max(Duration::from_millis(1))) {
            Ok(l) => {
                let p: Vec<&str> = l.splitn(4, ' ').collect();
                match p[0] {
                    "START" => started = p.get(1).and_then(|x| x.parse().ok()),
                    "OK" => {
                        let rest: Vec<&str> = l.split(' ').collect();
                        out.push(ChildOutcome::Ok {
                            param: rest[1].parse().unwrap_or(0),
                            len: rest[2].parse().unwrap_or(0),
                            secs: rest[3].parse().unwrap_or(0.0),
                            errors: rest[4].parse().unwrap_or(0),
                        });
                        started = None;
                    }
                    "PANIC" => {
                        out.push(ChildOutcome::Panic { param: p[1].parse().unwrap_or(0), msg: p.get(3).unwrap_or(&"").to_string() });
                        started = None;
                    }
                    _ => {}
                }
            }
            Err(std::sync::mpsc::RecvTimeoutError::Disconnected) => break,
            Err(std::sync::mpsc::RecvTimeoutError::Timeout) => {
                let _ = ch.kill();
                let _ = ch.wait();
                out.push(ChildOutcome::Hang { param: started.unwrap_or(0) });
                return out;
            }
        }
    }
    let status = ch.wait().unwrap();
    if !status.success() {
        use std::os::unix::process::ExitStatusExt;
        let how = match status.signal() {
            Some(s) => format!("signal {s}"),
            None => format!("exit {:?}", status.code()),
        };
        out.push(ChildOutcome::Died { param: started.unwrap_or(0), how });
    }
    out
}

fn judge(outs: &[ChildOutcome], what: &str, witness: impl Fn(usize) -> Value, st: &mut Stats) {
    let mut prev: Option<(usize, f64)> = None;
    for o in outs {
        st.eval(true);
        match o {
            ChildOutcome::Ok { param, len, secs, errors } => {
                st.outcome(if *errors > 0 { "ok-with-errors" } else { "ok-clean" });
                if *secs > 60.0 {
                    st.violation(Violation { signature: "too-slow".into(), witness: witness(*param), detail: format!("{what}: {len} bytes took {secs:.1}s of CPU time") });
                }
                // No ratio rule: doubling ratios of 10-30x were measured for plainly linear inputs
                // (e.g. "::l::\n" repeated) on a machine running 200 other threads, even with
                // thread CPU time and best-of-three (page-fault and memory-bandwidth time is charged
                // to the thread). Only the absolute bound is judged (DESIGN §9).
                let _ = prev;
                prev = Some((*len, *secs));
            }
            ChildOutcome::Panic { param, msg } => {
                st.outcome("panic");
                st.violation(Violation { signature: format!("panic:{}", panic_site(msg)), witness: witness(*param), detail: format!("{what}: {msg}") });
                break;
            }
            ChildOutcome::Died { param, how } => {
                st.outcome("abort");
                st.violation(Violation { signature: "abort".into(), witness: witness(*param), detail: format!("{what}: process died ({how}) on a 2 MiB stack") });
                break;
            }
            ChildOutcome::Hang { param } => {
                st.outcome("hang");
                st.violation(Violation { signature: "hang".into(), witness: witness(*param), detail: format!("{what}: no result within the budget") });
                break;
            }
        }
    }
}

fn panics(text: &str, c: Cfg) -> Option<String> {
    catch(|| {
        let t = parse(text, c);
        let _ = t.get_errors().len();
    })
    .err()
}

pub fn replay(w: &Value) -> Option<Violation> {
    let mut st = Stats::default();
    if let Some(text) = w["text"].as_str() {
        let c = w["cfg"].as_u64().unwrap_or(7) as usize;
        let dir = std::env::temp_dir().join(format!("verif-c02-{}", std::process::id()));
        std::fs::create_dir_all(&dir).ok();
        let f = dir.join("t.lua");
        std::fs::write(&f, text).ok();
        let outs = run_child(&["text".into(), f.to_string_lossy().to_string(), c.to_string()], Duration::from_secs(60));
        std::fs::remove_dir_all(&dir).ok();
        judge(&outs, "text", |_| w.clone(), &mut st);
    } else if let Some(f) = w["family"].as_str() {
        let fs = families();
        let fi = fs.iter().position(|x| x.0 == f)?;
        let f2 = w["family2"].as_str().and_then(|n| fs.iter().position(|x| x.0 == n));
        let d = w["depth"].as_u64()? as usize;
        let outs = run_child(&["nest".into(), fi.to_string(), f2.map(|x| x.to_string()).unwrap_or("-".into()), d.to_string()], Duration::from_secs(120));
        judge(&outs, f, |_| w.clone(), &mut st);
    } else if let Some(fr) = w["scale_fragment"].as_str() {
        let fi = SIGMA2.iter().position(|x| *x == fr)?;
        let sz = w["size"].as_u64()? as usize;
        let outs = run_child(&["scale".into(), fi.to_string(), format!("{},{}", sz / 2, sz)], Duration::from_secs(120));
        judge(&outs, "scale", |_| w.clone(), &mut st);
    }
    st.violations.into_values().next().map(|(v, _)| v)
}

pub fn run(args: &Args) -> ! {
    if let Some(w) = args.replay_witness() {
        let w = if w.get("witness").is_some() { w["witness"].clone() } else { w };
        finish_replay(replay(&w), "C02");
    }
    let dl = args.deadline();
    let mut rep = Report::new("C02", "exploration");
    let mut all = Stats::default();
    let (k1, k2, max_pow, pairs) = args.tier.pick((3usize, 2usize, 13u32, false), (3, 3, 17, true));

    // (b) nesting families first (they are the part that fails fastest)
    let fs = families();
    let depths: Vec<usize> = (0..=max_pow).map(|p| 1usize << p).collect();
    let depth_arg = depths.iter().map(|d| d.to_string()).collect::<Vec<_>>().join(",");
    let mut jobs: Vec<(usize, Option<usize>)> = (0..fs.len()).map(|i| (i, None)).collect();
    if pairs {
        let nestable: Vec<usize> = (0..fs.len()).filter(|&i| !fs[i].4.is_empty() && !fs[i].0.starts_with("doc") && fs[i].1.starts_with("x = ") || fs[i].0 == "function").collect();
        for &a in &nestable {
            for &b in &nestable {
                if a != b {
                    jobs.push((a, Some(b)));
                }
            }
        }
        let docnest: Vec<usize> = (0..fs.len()).filter(|&i| fs[i].0.starts_with("doc-") && !fs[i].4.is_empty()).collect();
        for &a in &docnest {
            for &b in &docnest {
                if a != b {
                    jobs.push((a, Some(b)));
                }
            }
        }
    }
    let child_budget = Duration::from_secs(args.tier.pick(90, 600));
    let (st, done_b) = par_range(jobs.len() as u64, args.threads, &dl, |i, st| {
        let (a, b) = jobs[i as usize];
        let outs = run_child(&["nest".into(), a.to_string(), b.map(|x| x.to_string()).unwrap_or("-".into()), depth_arg.clone()], child_budget);
        let name = match b {
            None => fs[a].0.to_string(),
            Some(b) => format!("{}+{}", fs[a].0, fs[b].0),
        };
        st.sample(|| json!({"phase": "nesting", "family": name, "depths": depth_arg, "example": family_text(a, b, 3).0}));
        judge(&outs, &name, |d| match b {
            None => json!({"family": fs[a].0, "depth": d}),
            Some(b) => json!({"family": fs[a].0, "family2": fs[b].0, "depth": d}),
        }, st);
    });
    all.merge(st);

    // (c) scaling
    let sizes: Vec<usize> = args.tier.pick(vec![1 << 16, 1 << 17], vec![1 << 16, 1 << 17, 1 << 18, 1 << 19, 1 << 20]);
    let size_arg = sizes.iter().map(|d| d.to_string()).collect::<Vec<_>>().join(",");
    let (st, done_c) = par_range(SIGMA2.len() as u64, args.threads, &dl, |i, st| {
        let outs = run_child(&["scale".into(), i.to_string(), size_arg.clone()], child_budget);
        judge(&outs, &format!("repeat {:?}", SIGMA2[i as usize]), |sz| json!({"scale_fragment": SIGMA2[i as usize], "size": sz}), st);
    });
    all.merge(st);

    // (a) words under catch_unwind
    let word_check = |sigma: &'static [&'static str]| {
        move |w: &[usize], st: &mut Stats| {
            let text = word_text(sigma, w);
            let mut bad = None;
            for ci in 0..N_CFG {
                st.eval(w.len() > 1);
                if let Some(p) = panics(&text, cfg(ci)) {
                    bad.get_or_insert((cfg(ci), p));
                }
            }
            match bad {
                None => st.outcome("returns"),
                Some((c, p)) => {
                    st.outcome("panic");
                    let site = panic_site(&p);
                    let min = minimise_text(&text, |t| panics(t, c).is_some_and(|q| panic_site(&q) == site));
                    st.violation(Violation { signature: format!("panic:{site}"), witness: json!({"text": min, "cfg": c.index()}), detail: p });
                }
            }
        }
    };
    let (st, done1) = par_words(SIGMA1.len(), 0, k1, args.threads, &dl, word_check(SIGMA1));
    all.merge(st);
    let (st, done2) = par_words(SIGMA2.len(), 1, k2, args.threads, &dl, word_check(SIGMA2));
    all.merge(st);

    rep.rule = format!(
        "(a) every word of Σ1^≤{k1} and Σ2^≤{k2} × {N_CFG} configs under catch_unwind; (b) {} nesting families{} × depths 2^0..2^{max_pow}, each parsed+walked+dropped on a {STACK}-byte stack in a subprocess (abort/SIGSEGV observed); (c) each of {} Σ2 fragments repeated to sizes {:?} (time rule: < 60 s of thread CPU time, best of 3, for inputs of ≤ 2 MiB; growth ratios are recorded but not judged). distinct by construction; non-trivial = more than one fragment / any nesting case",
        fs.len(), if pairs { " and alternating pairs" } else { "" }, SIGMA2.len(), sizes
    );
    rep.exhaustive = done_b && done_c && done1 == Some(k1) && done2 == Some(k2);
    rep.bounds = json!({"sigma1_k_completed": done1, "sigma2_k_completed": done2, "nesting_jobs": jobs.len(), "nesting_completed": done_b,
        "max_depth": 1usize << max_pow, "scaling_completed": done_c, "stack_bytes": STACK, "wall_cap_hit": dl.was_hit()});
    rep.assumptions = vec!["stack budget 2 MiB = tokio worker default; the main thread of the CLIs has 8 MiB".into(),
        "time rule uses two orders of magnitude of margin (DESIGN §3.6)".into()];
    rep.finish(args, all)
}
