//! Hand-written recogniser of the reference-manual grammar (lexis §3.1, syntax §9 of the Lua 5.1 … 5.5
//! manuals, plus the documented LuaJIT 2.1 extensions), independent of both the code under test and of
//! `luars` (whose lexer shares ancestry with the repo's lexer). It answers three-valued:
//!   Valid            the text is a syntactically valid chunk of that version
//!   Invalid(class)   the reference rejects it for a *syntactic/lexical* reason (class = stable short name)
//!   Unsure(why)      the manual leaves it open, it depends on build options, or the only problem is a
//!                    context condition the reference reports as a semantic error (break outside a loop,
//!                    label visibility, unknown attribute, …) — never judged.
#[derive(Clone, Copy, PartialEq, Eq, Debug)]
pub enum Ver {
    L51,
    L52,
    L53,
    L54,
    L55,
    Jit,
}
impl Ver {
    pub fn name(self) -> &'static str {
        match self {
            Ver::L51 => "5.1",
            Ver::L52 => "5.2",
            Ver::L53 => "5.3",
            Ver::L54 => "5.4",
            Ver::L55 => "5.5",
            Ver::Jit => "LuaJIT",
        }
    }
    fn ge52(self) -> bool {
        matches!(self, Ver::L52 | Ver::L53 | Ver::L54 | Ver::L55)
    }
    fn ge53(self) -> bool {
        matches!(self, Ver::L53 | Ver::L54 | Ver::L55)
    }
    fn ge54(self) -> bool {
        matches!(self, Ver::L54 | Ver::L55)
    }
}

#[derive(Clone, Copy, PartialEq, Eq, Debug)]
pub enum Verdict {
    Valid,
    Invalid(&'static str),
    Unsure(&'static str),
}

#[derive(Clone, Copy, PartialEq, Eq, Debug)]
pub enum TK {
    Name,
    Kw,
    Num,
    Str,
    Op,
    Eof,
}
#[derive(Clone, Copy, Debug)]
pub struct Tok {
    pub k: TK,
    pub s: usize,
    pub e: usize,
    pub line: u32,
}

type R<T> = Result<T, Verdict>; // Err carries Invalid/Unsure

const KW: &[&str] = &[
    "and", "break", "do", "else", "elseif", "end", "false", "for", "function", "if", "in", "local", "nil", "not", "or", "repeat",
    "return", "then", "true", "until", "while",
];

fn is_space(c: u8) -> bool {
    matches!(c, b' ' | b'\t' | b'\n' | b'\r' | 0x0b | 0x0c)
}
fn is_alpha(c: u8) -> bool {
    c.is_ascii_alphabetic() || c == b'_'
}
fn is_alnum(c: u8) -> bool {
    c.is_ascii_alphanumeric() || c == b'_'
}

/// numeral text → Ok / class of malformation. Manual §3.1: decimal `d+[.d*] | .d+` with optional `[eE][+-]?d+`;
/// hexadecimal `0[xX]` hex mantissa with at least one digit, optional fraction, optional `[pP][+-]?d+`.
pub fn numeral_class(t: &[u8], ver: Ver) -> Verdict {
    let mut t = t;
    let is_hex = t.len() >= 2 && t[0] == b'0' && (t[1] == b'x' || t[1] == b'X');
    if ver == Ver::Jit {
        // LuaJIT: imaginary suffix on any number, LL/ULL on integers
        let low: Vec<u8> = t.iter().map(|c| c.to_ascii_lowercase()).collect();
        if low.ends_with(b"ull") && !(is_hex && false) {
            let body = &t[..t.len() - 3];
            return match int_body(body) {
                true => Verdict::Valid,
                false => Verdict::Unsure("jit-suffix"),
            };
        } else if low.ends_with(b"ll") {
            let body = &t[..t.len() - 2];
            return match int_body(body) {
                true => Verdict::Valid,
                false => Verdict::Unsure("jit-suffix"),
            };
        } else if low.ends_with(b"i") && !(is_hex) {
            t = &t[..t.len() - 1];
            return match numeral_class(t, Ver::L52) {
                Verdict::Valid => Verdict::Valid,
                _ => Verdict::Unsure("jit-suffix"),
            };
        }
        if t.len() >= 2 && t[0] == b'0' && (t[1] == b'b' || t[1] == b'B') {
            return Verdict::Unsure("jit-binary");
        }
    }
    fn int_body(b: &[u8]) -> bool {
        if b.len() > 2 && b[0] == b'0' && (b[1] == b'x' || b[1] == b'X') {
            b[2..].iter().all(|c| c.is_ascii_hexdigit())
        } else {
            !b.is_empty() && b.iter().all(|c| c.is_ascii_digit())
        }
    }
    let (mant, digit_ok, expo): (&[u8], fn(&u8) -> bool, &[u8]) = if is_hex {
        (&t[2..], |c| c.is_ascii_hexdigit(), b"pP")
    } else {
        (t, |c| c.is_ascii_digit(), b"eE")
    };
    let mut i = 0;
    let mut nd = 0;
    while i < mant.len() && digit_ok(&mant[i]) {
        i += 1;
        nd += 1;
    }
    let mut frac = false;
    if i < mant.len() && mant[i] == b'.' {
        frac = true;
        i += 1;
        while i < mant.len() && digit_ok(&mant[i]) {
            i += 1;
            nd += 1;
        }
    }
    if nd == 0 {
        return Verdict::Invalid(if is_hex { "num:hex-no-digits" } else { "num:no-digits" });
    }
    let mut has_exp = false;
    if i < mant.len() && expo.contains(&mant[i]) {
        has_exp = true;
        i += 1;
        if i < mant.len() && (mant[i] == b'+' || mant[i] == b'-') {
            i += 1;
        }
        let s = i;
        while i < mant.len() && mant[i].is_ascii_digit() {
            i += 1;
        }
        if i == s {
            return Verdict::Invalid(if is_hex { "num:hex-exponent-no-digits" } else { "num:exponent-no-digits" });
        }
    }
    if i < mant.len() {
        let c = mant[i];
        return Verdict::Invalid(if c == b'.' {
            "num:second-dot"
        } else if !is_hex && !has_exp && c.is_ascii_hexdigit() {
            "num:hexdigit-in-decimal"
        } else if is_alpha(c) {
            "num:trailing-alpha"
        } else {
            "num:malformed"
        });
    }
    if is_hex && (frac || has_exp) && ver == Ver::L51 {
        return Verdict::Unsure("hexfloat-in-5.1");
    }
    Verdict::Valid
}

pub fn lex(src: &[u8], ver: Ver) -> R<Vec<Tok>> {
    let n = src.len();
    let mut i = 0usize;
    let mut line = 1u32;
    let mut out = Vec::new();
    // first line starting with '#' is skipped by the loader (luaL_loadfile), not by load(); luars/load do not skip.
    // We never generate it; report Unsure if present.
    if n > 0 && src[0] == b'#' {
        return Err(Verdict::Unsure("shebang"));
    }
    macro_rules! push {
        ($k:expr, $s:expr, $e:expr) => {
            out.push(Tok { k: $k, s: $s, e: $e, line })
        };
    }
    // returns Some(level) if a long bracket opens at i (src[i]=='['), else None; does not consume
    fn long_open(src: &[u8], i: usize) -> Result<Option<usize>, ()> {
        let mut j = i + 1;
        let mut lvl = 0;
        while j < src.len() && src[j] == b'=' {
            lvl += 1;
            j += 1;
        }
        if j < src.len() && src[j] == b'[' {
            Ok(Some(lvl))
        } else if lvl == 0 {
            Ok(None)
        } else {
            Err(())
        }
    }
    // skip the body of a long bracket of level lvl starting right after the opening; returns index after close
    fn long_body(src: &[u8], mut j: usize, lvl: usize, line: &mut u32, ver: Ver) -> Result<usize, Verdict> {
        loop {
            if j >= src.len() {
                return Err(Verdict::Invalid("unfinished-long-bracket"));
            }
            match src[j] {
                b']' => {
                    let mut k = j + 1;
                    let mut l = 0;
                    while k < src.len() && src[k] == b'=' {
                        l += 1;
                        k += 1;
                    }
                    if l == lvl && k < src.len() && src[k] == b']' {
                        return Ok(k + 1);
                    }
                    j += 1;
                }
                b'[' if ver == Ver::L51 && lvl == 0 && j + 1 < src.len() && src[j + 1] == b'[' => {
                    return Err(Verdict::Unsure("5.1-nested-long-bracket"));
                }
                b'\n' => {
                    *line += 1;
                    j += 1;
                }
                _ => j += 1,
            }
        }
    }
    while i < n {
        let c = src[i];
        if c == b'\n' {
            line += 1;
            i += 1;
            continue;
        }
        if is_space(c) {
            i += 1;
            continue;
        }
        if c >= 0x80 {
            return Err(Verdict::Unsure("non-ascii"));
        }
        match c {
            b'-' => {
                if i + 1 < n && src[i + 1] == b'-' {
                    i += 2;
                    if i < n && src[i] == b'[' {
                        if let Ok(Some(lvl)) = long_open(src, i) {
                            i = long_body(src, i + lvl + 2, lvl, &mut line, ver)?;
                            continue;
                        }
                    }
                    while i < n && src[i] != b'\n' && src[i] != b'\r' {
                        i += 1;
                    }
                } else {
                    push!(TK::Op, i, i + 1);
                    i += 1;
                }
            }
            b'[' => match long_open(src, i) {
                Ok(Some(lvl)) => {
                    let s = i;
                    i = long_body(src, i + lvl + 2, lvl, &mut line, ver)?;
                    push!(TK::Str, s, i);
                }
                Ok(None) => {
                    push!(TK::Op, i, i + 1);
                    i += 1;
                }
                Err(()) => return Err(Verdict::Invalid("invalid-long-string-delimiter")),
            },
            b'=' | b'<' | b'>' | b'~' | b'/' | b':' => {
                let two = if i + 1 < n { src[i + 1] } else { 0 };
                let len = match (c, two) {
                    (b'=', b'=') | (b'<', b'=') | (b'>', b'=') | (b'~', b'=') => 2,
                    (b'<', b'<') | (b'>', b'>') | (b'/', b'/') if ver.ge53() => 2,
                    (b':', b':') if ver != Ver::L51 => 2,
                    _ => 1,
                };
                if c == b'~' && len == 1 && !ver.ge53() {
                    return Err(Verdict::Invalid("lex:invalid-char"));
                }
                push!(TK::Op, i, i + len);
                i += len;
            }
            b'"' | b'\'' => {
                let s = i;
                i += 1;
                loop {
                    if i >= n {
                        return Err(Verdict::Invalid("unfinished-string"));
                    }
                    let d = src[i];
                    if d == c {
                        i += 1;
                        break;
                    }
                    match d {
                        b'\n' | b'\r' => return Err(Verdict::Invalid("unfinished-string")),
                        b'\\' => {
                            i += 1;
                            if i >= n {
                                return Err(Verdict::Invalid("unfinished-string"));
                            }
                            let e = src[i];
                            match e {
                                b'a' | b'b' | b'f' | b'n' | b'r' | b't' | b'v' | b'\\' | b'"' | b'\'' => i += 1,
                                b'\n' | b'\r' => {
                                    line += 1;
                                    i += 1;
                                    if i < n && (src[i] == b'\n' || src[i] == b'\r') && src[i] != e {
                                        i += 1;
                                    }
                                }
                                b'x' if ver != Ver::L51 => {
                                    for k in 1..=2 {
                                        if i + k >= n || !src[i + k].is_ascii_hexdigit() {
                                            return Err(Verdict::Invalid("escape:hex-digits"));
                                        }
                                    }
                                    i += 3;
                                }
                                b'z' if ver != Ver::L51 => {
                                    i += 1;
                                    while i < n && is_space(src[i]) {
                                        if src[i] == b'\n' {
                                            line += 1;
                                        }
                                        i += 1;
                                    }
                                }
                                b'u' if ver.ge53() || ver == Ver::Jit => {
                                    i += 1;
                                    if i >= n || src[i] != b'{' {
                                        return Err(Verdict::Invalid("escape:utf8-missing-brace"));
                                    }
                                    i += 1;
                                    let mut v: u64 = 0;
                                    let mut nd = 0;
                                    while i < n && src[i].is_ascii_hexdigit() {
                                        v = (v << 4) | (src[i] as char).to_digit(16).unwrap() as u64;
                                        if v > 0x7FFF_FFFF {
                                            return Err(Verdict::Invalid("escape:utf8-too-large"));
                                        }
                                        nd += 1;
                                        i += 1;
                                    }
                                    if nd == 0 {
                                        return Err(Verdict::Invalid("escape:utf8-no-digits"));
                                    }
                                    if i >= n || src[i] != b'}' {
                                        return Err(Verdict::Invalid("escape:utf8-missing-brace"));
                                    }
                                    i += 1;
                                    if v > 0x10FFFF && !ver.ge54() {
                                        return Err(Verdict::Unsure("utf8-range-before-5.4"));
                                    }
                                }
                                b'0'..=b'9' => {
                                    let mut v = 0u32;
                                    let mut k = 0;
                                    while k < 3 && i < n && src[i].is_ascii_digit() {
                                        v = v * 10 + (src[i] - b'0') as u32;
                                        i += 1;
                                        k += 1;
                                    }
                                    if v > 255 {
                                        return Err(Verdict::Invalid("escape:decimal-too-large"));
                                    }
                                }
                                _ => {
                                    if ver == Ver::L51 {
                                        return Err(Verdict::Unsure("5.1-lenient-escape"));
                                    }
                                    return Err(Verdict::Invalid("escape:invalid"));
                                }
                            }
                        }
                        _ => i += 1,
                    }
                }
                push!(TK::Str, s, i);
            }
            b'.' => {
                if i + 1 < n && src[i + 1].is_ascii_digit() {
                    i = lex_num(src, i, ver, &mut out, line)?;
                } else if i + 2 < n && src[i + 1] == b'.' && src[i + 2] == b'.' {
                    push!(TK::Op, i, i + 3);
                    i += 3;
                } else if i + 1 < n && src[i + 1] == b'.' {
                    push!(TK::Op, i, i + 2);
                    i += 2;
                } else {
                    push!(TK::Op, i, i + 1);
                    i += 1;
                }
            }
            b'0'..=b'9' => {
                i = lex_num(src, i, ver, &mut out, line)?;
            }
            b'+' | b'*' | b'%' | b'^' | b'#' | b'(' | b')' | b'{' | b'}' | b']' | b';' | b',' => {
                push!(TK::Op, i, i + 1);
                i += 1;
            }
            b'&' | b'|' => {
                if !ver.ge53() {
                    return Err(Verdict::Invalid("lex:invalid-char"));
                }
                push!(TK::Op, i, i + 1);
                i += 1;
            }
            _ if is_alpha(c) => {
                let s = i;
                while i < n && is_alnum(src[i]) {
                    i += 1;
                }
                let w = std::str::from_utf8(&src[s..i]).unwrap();
                let kw = KW.contains(&w) || (w == "goto" && ver.ge52());
                push!(if kw { TK::Kw } else { TK::Name }, s, i);
            }
            _ => return Err(Verdict::Invalid("lex:invalid-char")),
        }
    }
    out.push(Tok { k: TK::Eof, s: n, e: n, line });
    Ok(out)
}

/// llex.c read_numeral: greedy over hex digits, '.', exponent marker with optional sign; a directly following
/// letter/underscore is absorbed and makes the numeral malformed.
fn lex_num(src: &[u8], s: usize, ver: Ver, out: &mut Vec<Tok>, line: u32) -> R<usize> {
    let n = src.len();
    let mut i = s;
    let mut expo: &[u8] = b"eE";
    if src[i] == b'0' && i + 1 < n && (src[i + 1] == b'x' || src[i + 1] == b'X') {
        expo = b"pP";
        i += 2;
    } else {
        i += 1;
    }
    loop {
        if i < n && expo.contains(&src[i]) {
            i += 1;
            if i < n && (src[i] == b'+' || src[i] == b'-') {
                i += 1;
            }
        } else if i < n && (src[i].is_ascii_hexdigit() || src[i] == b'.') {
            i += 1;
        } else {
            break;
        }
    }
    let mut e = i;
    if ver == Ver::Jit {
        while e < n && is_alnum(src[e]) {
            e += 1;
        }
    } else if e < n && is_alpha(src[e]) {
        // force an error (the reference consumes it and then fails the conversion)
        while e < n && is_alnum(src[e]) {
            e += 1;
        }
    }
    match numeral_class(&src[s..e], ver) {
        Verdict::Valid => {
            out.push(Tok { k: TK::Num, s, e, line });
            Ok(e)
        }
        v => Err(v),
    }
}

// ------------------------------------------------------------------------------------------------ parser

struct Fn_ {
    vararg: bool,
    loops: usize,
    /// (label name, block path)
    labels: Vec<(String, Vec<u32>)>,
    gotos: Vec<(String, Vec<u32>)>,
    path: Vec<u32>,
    next_block: u32,
    /// blocks (by path) that contain a `local` declaration
    blocks_with_local: Vec<Vec<u32>>,
}

struct P<'a> {
    src: &'a [u8],
    t: Vec<Tok>,
    i: usize,
    ver: Ver,
    fs: Vec<Fn_>,
    unsure: Option<&'static str>,
    depth: usize,
}

#[derive(PartialEq, Clone, Copy)]
enum EK {
    Var,
    Call,
    Other,
}

impl<'a> P<'a> {
    fn text(&self, k: usize) -> &str {
        std::str::from_utf8(&self.src[self.t[k].s..self.t[k].e]).unwrap_or("")
    }
    fn cur(&self) -> &str {
        self.text(self.i)
    }
    fn kind(&self) -> TK {
        self.t[self.i].k
    }
    fn is(&self, s: &str) -> bool {
        matches!(self.kind(), TK::Kw | TK::Op) && self.cur() == s
    }
    fn is_name(&self, s: &str) -> bool {
        self.kind() == TK::Name && self.cur() == s
    }
    fn next(&mut self) {
        if self.i + 1 < self.t.len() {
            self.i += 1;
        }
    }
    fn accept(&mut self, s: &str) -> bool {
        if self.is(s) {
            self.next();
            true
        } else {
            false
        }
    }
    fn expect(&mut self, s: &str, class: &'static str) -> R<()> {
        if self.accept(s) { Ok(()) } else { Err(Verdict::Invalid(class)) }
    }
    fn name(&mut self, class: &'static str) -> R<String> {
        if self.kind() == TK::Name {
            let s = self.cur().to_string();
            if s == "global" && self.ver == Ver::L55 {
                self.unsure.get_or_insert("global-as-name");
            }
            if s == "goto" && self.ver == Ver::Jit {
                self.unsure.get_or_insert("jit-goto-as-name");
            }
            self.next();
            Ok(s)
        } else {
            Err(Verdict::Invalid(class))
        }
    }
    fn f(&mut self) -> &mut Fn_ {
        self.fs.last_mut().unwrap()
    }
    fn block_follow(&self, with_until: bool) -> bool {
        match self.kind() {
            TK::Eof => true,
            TK::Kw => matches!(self.cur(), "else" | "elseif" | "end") || (with_until && self.cur() == "until"),
            _ => false,
        }
    }
    fn enter(&mut self) -> R<()> {
        self.depth += 1;
        if self.depth > 150 {
            return Err(Verdict::Unsure("nesting-limit"));
        }
        Ok(())
    }

    fn block(&mut self) -> R<()> {
        // new block id
        let id = {
            let f = self.f();
            let id = f.next_block;
            f.next_block += 1;
            id
        };
        self.f().path.push(id);
        let r = self.statlist();
        self.f().path.pop();
        r
    }

    fn statlist(&mut self) -> R<()> {
        self.enter()?;
        let old = matches!(self.ver, Ver::L51 | Ver::Jit);
        loop {
            if self.block_follow(true) {
                break;
            }
            if self.is("return") {
                self.next();
                if !(self.block_follow(true) || self.is(";")) {
                    self.explist()?;
                }
                self.accept(";");
                if !self.block_follow(true) {
                    return Err(Verdict::Invalid("syntax:after-return"));
                }
                break;
            }
            let was_break = self.is("break");
            if self.is(";") {
                if self.ver == Ver::L51 {
                    return Err(Verdict::Invalid("syntax:empty-statement-5.1"));
                }
                if self.ver == Ver::Jit {
                    self.unsure.get_or_insert("jit-empty-statement");
                }
                self.next();
                continue;
            }
            self.statement()?;
            if old {
                self.accept(";");
                if was_break && !self.block_follow(true) {
                    if self.ver == Ver::L51 {
                        return Err(Verdict::Invalid("syntax:break-not-last-5.1"));
                    }
                    self.unsure.get_or_insert("jit-break-not-last");
                }
            }
        }
        self.depth -= 1;
        Ok(())
    }

    fn statement(&mut self) -> R<()> {
        self.enter()?;
        let r = self.statement_();
        self.depth -= 1;
        r
    }
    fn statement_(&mut self) -> R<()> {
        if self.kind() == TK::Kw {
            match self.cur() {
                "if" => {
                    self.next();
                    self.expr()?;
                    self.expect("then", "syntax:expected-then")?;
                    self.block()?;
                    loop {
                        if self.accept("elseif") {
                            self.expr()?;
                            self.expect("then", "syntax:expected-then")?;
                            self.block()?;
                        } else if self.accept("else") {
                            self.block()?;
                            return self.expect("end", "syntax:expected-end");
                        } else {
                            return self.expect("end", "syntax:expected-end");
                        }
                    }
                }
                "while" => {
                    self.next();
                    self.expr()?;
                    self.expect("do", "syntax:expected-do")?;
                    self.f().loops += 1;
                    self.block()?;
                    self.f().loops -= 1;
                    return self.expect("end", "syntax:expected-end");
                }
                "do" => {
                    self.next();
                    self.block()?;
                    return self.expect("end", "syntax:expected-end");
                }
                "for" => {
                    self.next();
                    self.name("syntax:expected-name")?;
                    if self.accept("=") {
                        self.expr()?;
                        self.expect(",", "syntax:for-expected-comma")?;
                        self.expr()?;
                        if self.accept(",") {
                            self.expr()?;
                        }
                    } else if self.is(",") || self.is("in") {
                        while self.accept(",") {
                            self.name("syntax:expected-name")?;
                        }
                        self.expect("in", "syntax:expected-in")?;
                        self.explist()?;
                    } else {
                        return Err(Verdict::Invalid("syntax:for-expected-=-or-in"));
                    }
                    self.expect("do", "syntax:expected-do")?;
                    self.f().loops += 1;
                    self.block()?;
                    self.f().loops -= 1;
                    return self.expect("end", "syntax:expected-end");
                }
                "repeat" => {
                    self.next();
                    self.f().loops += 1;
                    self.block()?;
                    self.f().loops -= 1;
                    self.expect("until", "syntax:expected-until")?;
                    return self.expr();
                }
                "function" => {
                    self.next();
                    self.name("syntax:expected-function-name")?;
                    while self.accept(".") {
                        self.name("syntax:expected-name")?;
                    }
                    if self.accept(":") {
                        self.name("syntax:expected-name")?;
                    }
                    return self.body();
                }
                "local" => {
                    self.next();
                    if self.accept("function") {
                        self.name("syntax:expected-name")?;
                        return self.body();
                    }
                    let p = self.f().path.clone();
                    self.f().blocks_with_local.push(p);
                    self.attnamelist(false)?;
                    if self.accept("=") {
                        self.explist()?;
                    }
                    return Ok(());
                }
                "break" => {
                    self.next();
                    if self.f().loops == 0 {
                        self.unsure.get_or_insert("break-outside-loop");
                    }
                    return Ok(());
                }
                "goto" => {
                    self.next();
                    let n = self.name("syntax:expected-label-name")?;
                    let p = self.f().path.clone();
                    self.f().gotos.push((n, p));
                    return Ok(());
                }
                _ => return Err(Verdict::Invalid("syntax:unexpected-keyword-at-statement")),
            }
        }
        if self.is("::") {
            self.next();
            let n = self.name("syntax:expected-label-name")?;
            self.expect("::", "syntax:expected-label-close")?;
            let p = self.f().path.clone();
            self.f().labels.push((n, p));
            return Ok(());
        }
        if self.ver == Ver::Jit && self.is_name("goto") && self.t[self.i + 1].k == TK::Name {
            self.next();
            let n = self.name("syntax:expected-label-name")?;
            let p = self.f().path.clone();
            self.f().gotos.push((n, p));
            return Ok(());
        }
        if self.ver == Ver::L55 && self.is_name("global") {
            let nx = self.t[self.i + 1];
            let nxt = self.text(self.i + 1);
            let decl = nx.k == TK::Name || (nx.k == TK::Op && (nxt == "<" || nxt == "*")) || (nx.k == TK::Kw && nxt == "function");
            if decl {
                self.next();
                if self.accept("function") {
                    self.name("syntax:expected-name")?;
                    return self.body();
                }
                if self.is("<") {
                    // leading attribute, then '*' or names
                    self.attrib(true)?;
                    if self.accept("*") {
                        return Ok(());
                    }
                    self.attnamelist_rest(true)?;
                } else if self.accept("*") {
                    return Ok(());
                } else {
                    self.attnamelist_rest(true)?;
                }
                if self.accept("=") {
                    self.explist()?;
                }
                return Ok(());
            }
        }
        // exprstat
        let k = self.suffixedexp()?;
        if self.is("=") || self.is(",") {
            if k != EK::Var {
                return Err(Verdict::Invalid("syntax:assign-to-non-variable"));
            }
            while self.accept(",") {
                let k2 = self.suffixedexp()?;
                if k2 != EK::Var {
                    return Err(Verdict::Invalid("syntax:assign-to-non-variable"));
                }
            }
            self.expect("=", "syntax:expected-=")?;
            self.explist()
        } else if k == EK::Call {
            Ok(())
        } else {
            Err(Verdict::Invalid("syntax:expression-statement-not-call"))
        }
    }

    fn attrib(&mut self, global: bool) -> R<()> {
        if !self.ver.ge54() {
            return Err(Verdict::Invalid("syntax:attrib-unsupported"));
        }
        self.expect("<", "syntax:expected-<")?;
        let n = self.name("syntax:expected-attrib-name")?;
        if !(n == "const" || (n == "close" && !global)) {
            self.unsure.get_or_insert("unknown-attribute");
        }
        self.expect(">", "syntax:expected->")
    }
    /// local: Name [attrib] {',' Name [attrib]}; 5.5 additionally allows one leading attrib
    fn attnamelist(&mut self, global: bool) -> R<()> {
        if self.is("<") {
            if self.ver != Ver::L55 {
                return Err(Verdict::Invalid("syntax:expected-name"));
            }
            self.attrib(global)?;
        }
        self.attnamelist_rest(global)
    }
    fn attnamelist_rest(&mut self, global: bool) -> R<()> {
        loop {
            self.name("syntax:expected-name")?;
            if self.is("<") {
                self.attrib(global)?;
            }
            if !self.accept(",") {
                return Ok(());
            }
        }
    }

    fn body(&mut self) -> R<()> {
        self.enter()?;
        self.expect("(", "syntax:expected-(")?;
        let mut vararg = false;
        if !self.is(")") {
            loop {
                if self.accept("...") {
                    vararg = true;
                    if self.ver == Ver::L55 && self.kind() == TK::Name {
                        self.next();
                    }
                    break;
                }
                self.name("syntax:expected-parameter")?;
                if !self.accept(",") {
                    break;
                }
            }
        }
        self.expect(")", "syntax:expected-)")?;
        self.fs.push(Fn_ { vararg, loops: 0, labels: vec![], gotos: vec![], path: vec![], next_block: 0, blocks_with_local: vec![] });
        let r = self.block();
        let f = self.fs.pop().unwrap();
        r?;
        self.check_labels(&f);
        self.depth -= 1;
        self.expect("end", "syntax:expected-end")
    }

    fn check_labels(&mut self, f: &Fn_) {
        for (i, (l, p)) in f.labels.iter().enumerate() {
            if f.labels[..i].iter().any(|(l2, _)| l2 == l) {
                self.unsure.get_or_insert("duplicate-label");
            }
            if f.blocks_with_local.iter().any(|b| b == p) && f.gotos.iter().any(|(g, _)| g == l) {
                self.unsure.get_or_insert("goto-into-local-scope?");
            }
        }
        for (g, gp) in &f.gotos {
            let ok = f.labels.iter().any(|(l, lp)| l == g && gp.starts_with(lp));
            if !ok {
                self.unsure.get_or_insert("goto-no-visible-label");
            }
        }
    }

    fn explist(&mut self) -> R<()> {
        self.expr()?;
        while self.accept(",") {
            self.expr()?;
        }
        Ok(())
    }

    fn is_unop(&self) -> bool {
        (self.kind() == TK::Kw && self.cur() == "not") || (self.kind() == TK::Op && (self.cur() == "-" || self.cur() == "#" || (self.cur() == "~" && self.ver.ge53())))
    }
    fn is_binop(&self) -> bool {
        match self.kind() {
            TK::Kw => matches!(self.cur(), "and" | "or"),
            TK::Op => {
                matches!(self.cur(), "+" | "-" | "*" | "/" | "%" | "^" | ".." | "<" | "<=" | ">" | ">=" | "==" | "~=")
                    || (self.ver.ge53() && matches!(self.cur(), "//" | "&" | "|" | "~" | "<<" | ">>"))
            }
            _ => false,
        }
    }

    fn expr(&mut self) -> R<()> {
        self.enter()?;
        loop {
            while self.is_unop() {
                self.next();
            }
            self.simpleexp()?;
            if self.is_binop() {
                self.next();
            } else {
                break;
            }
        }
        self.depth -= 1;
        Ok(())
    }

    fn simpleexp(&mut self) -> R<()> {
        match self.kind() {
            TK::Num | TK::Str => {
                self.next();
                Ok(())
            }
            TK::Kw if matches!(self.cur(), "nil" | "true" | "false") => {
                self.next();
                Ok(())
            }
            TK::Op if self.cur() == "..." => {
                if !self.f().vararg {
                    return Err(Verdict::Invalid("vararg-outside-vararg-function"));
                }
                self.next();
                Ok(())
            }
            TK::Op if self.cur() == "{" => self.table(),
            TK::Kw if self.cur() == "function" => {
                self.next();
                self.body()
            }
            _ => self.suffixedexp().map(|_| ()),
        }
    }

    fn table(&mut self) -> R<()> {
        self.enter()?;
        self.expect("{", "syntax:expected-{")?;
        while !self.is("}") {
            if self.is("[") {
                self.next();
                self.expr()?;
                self.expect("]", "syntax:expected-]")?;
                self.expect("=", "syntax:expected-=")?;
                self.expr()?;
            } else if self.kind() == TK::Name && self.t[self.i + 1].k == TK::Op && self.text(self.i + 1) == "=" {
                self.name("syntax:expected-name")?;
                self.next();
                self.expr()?;
            } else {
                self.expr()?;
            }
            if !(self.accept(",") || self.accept(";")) {
                break;
            }
        }
        self.depth -= 1;
        self.expect("}", "syntax:expected-}")
    }

    fn suffixedexp(&mut self) -> R<EK> {
        self.enter()?;
        let mut k;
        if self.kind() == TK::Name {
            self.name("syntax:expected-name")?;
            k = EK::Var;
        } else if self.is("(") {
            self.next();
            self.expr()?;
            self.expect(")", "syntax:expected-)")?;
            k = EK::Other;
        } else {
            return Err(Verdict::Invalid("syntax:unexpected-symbol"));
        }
        loop {
            if self.is(".") {
                self.next();
                self.name("syntax:expected-name")?;
                k = EK::Var;
            } else if self.is("[") {
                self.next();
                self.expr()?;
                self.expect("]", "syntax:expected-]")?;
                k = EK::Var;
            } else if self.is(":") {
                self.next();
                self.name("syntax:expected-name")?;
                self.args()?;
                k = EK::Call;
            } else if self.is("(") || self.is("{") || self.kind() == TK::Str {
                if self.is("(") && self.ver == Ver::L51 && self.i > 0 && self.t[self.i - 1].line != self.t[self.i].line {
                    return Err(Verdict::Invalid("syntax:ambiguous-call-5.1"));
                }
                self.args()?;
                k = EK::Call;
            } else {
                break;
            }
        }
        self.depth -= 1;
        Ok(k)
    }

    fn args(&mut self) -> R<()> {
        if self.kind() == TK::Str {
            self.next();
            Ok(())
        } else if self.is("{") {
            self.table()
        } else if self.is("(") {
            self.next();
            if !self.is(")") {
                self.explist()?;
            }
            self.expect(")", "syntax:expected-)")
        } else {
            Err(Verdict::Invalid("syntax:expected-call-arguments"))
        }
    }
}

pub fn check(src: &str, ver: Ver) -> Verdict {
    let b = src.as_bytes();
    let t = match lex(b, ver) {
        Ok(t) => t,
        Err(v) => return v,
    };
    let mut p = P { src: b, t, i: 0, ver, fs: vec![], unsure: None, depth: 0 };
    p.fs.push(Fn_ { vararg: true, loops: 0, labels: vec![], gotos: vec![], path: vec![], next_block: 0, blocks_with_local: vec![] });
    let r = p.block();
    if let Err(v) = r {
        return v;
    }
    if p.kind() != TK::Eof {
        return Verdict::Invalid("syntax:expected-eof");
    }
    let f = p.fs.pop().unwrap();
    p.check_labels(&f);
    match p.unsure {
        Some(u) => Verdict::Unsure(u),
        None => Verdict::Valid,
    }
}

/// token texts of a valid program (used by the token-mutation phase)
pub fn tokens(src: &str, ver: Ver) -> Option<Vec<String>> {
    let t = lex(src.as_bytes(), ver).ok()?;
    Some(t.iter().filter(|t| t.k != TK::Eof).map(|t| src[t.s..t.e].to_string()).collect())
}
