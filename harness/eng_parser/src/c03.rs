//! C03 — valid Lua is never reported as a syntax error (and invalid Lua is).
//!
//! Enumerated (family A, all bounded-exhaustive, nothing sampled):
//!  (a1) every expression derivation with ≤ d operator/constructor nodes over a small atom set (every unary
//!       and binary operator, every ordered operator pair = the precedence matrix, calls, method/string/table
//!       call sugar, indexing, table constructors, closures, varargs), in `return E` and `local x = E`,
//!       rendered with single spaces and compactly (no optional blanks);
//!  (a2) every statement-list derivation with ≤ n statement nodes (every statement form of every version,
//!       nested blocks share the budget) with each expression hole filled by `a` / `...`;
//!  (a3) identifier alphabet (soft keywords, `goto`, `global`, `continue`, special-call names) × name positions;
//!  (b)  numerals: every string of length ≤ L over {0,1,9,a,f,x,X,e,E,p,P,+,-,.,_} in `return <lit>`;
//!       escapes: every `"\<w>"`, |w| ≤ m over {a,n,z,x,u,{,},0,9,f,newline,\,"}; long brackets of levels 0–3 ×
//!       every content word over {[,],=,a,newline} × closing level 0–3, as string and as comment;
//!  (c)  every single-token deletion / adjacent swap / insertion of every token of Σtok at every position of
//!       every small valid program.
//! Oracle (two references, DESIGN §3.2): `c03_ref` (hand-written recogniser of the manual's grammar; the
//! programs of a1–a3 are in addition valid by construction, which is cross-checked against the recogniser)
//! and the `luars` Lua 5.5 compiler. Positive verdict at level V: recogniser(V) says valid and luars accepts
//! (forms that 5.5 itself rejects — e.g. `goto` as a name in 5.1 — count by construction only) ⇒ zero
//! SyntaxError parse errors and zero `syntax-error` diagnostics from the real EmmyLuaAnalysis at level V.
//! Negative verdict, level 5.5 only: recogniser says syntactically invalid and luars rejects with a
//! non-semantic message ⇒ ≥ 1 syntax error (parser error or `syntax-error` diagnostic). Everything else
//! (references disagree, context conditions, version-dependent or build-dependent cases) is undecided.
use crate::c03_ref::{self as rf, Ver, Verdict};
use crate::common::*;
use emmylua_code_analysis::{EmmyLuaAnalysis, Emmyrc, EmmyrcLuaVersion, file_path_to_uri};
use emmylua_parser::LuaParseErrorKind;
use luars::{Lua, LuaApi, SafeOption};
use serde_json::{Value, json};
use std::cell::RefCell;
use std::collections::{BTreeMap, HashMap};
use std::sync::{Arc, Mutex};
use tokio_util::sync::CancellationToken;
use vcore::*;

/// reference version of each entry of common::LEVELS
const VER: [Ver; 8] = [Ver::L51, Ver::Jit, Ver::Jit, Ver::Jit, Ver::L52, Ver::L53, Ver::L54, Ver::L55];
const RC_VER: [EmmyrcLuaVersion; 8] = [
    EmmyrcLuaVersion::Lua51,
    EmmyrcLuaVersion::LuaJIT2,
    EmmyrcLuaVersion::LuaJIT,
    EmmyrcLuaVersion::LuaJIT3,
    EmmyrcLuaVersion::Lua52,
    EmmyrcLuaVersion::Lua53,
    EmmyrcLuaVersion::Lua54,
    EmmyrcLuaVersion::Lua55,
];
const L55: usize = 7;
const ALL_LEVELS: [usize; 8] = [0, 1, 2, 3, 4, 5, 6, 7];

fn level_name(l: usize) -> String {
    format!("{:?}", LEVELS[l])
}
fn level_index(name: &str) -> Option<usize> {
    (0..8).find(|&l| level_name(l) == name)
}

// ------------------------------------------------------------------------------------------------ luars

#[derive(Clone, Debug, PartialEq)]
pub enum Lr {
    Ok,
    Syntactic(String),
    Semantic(String),
    Crash,
}

const SEMANTIC_MARKS: &[&str] = &[
    "no visible label",
    "break outside",
    "attempt to assign to const",
    "unknown attribute",
    "already defined",
    "not declared",
    "multiple to-be-closed",
    "jumps into the scope",
    "too many",
    "overflow",
    "limit",
    "levels",
    "control structure too long",
];

thread_local! {
    static LUA: RefCell<Option<(Lua, usize)>> = const { RefCell::new(None) };
    static AN: RefCell<Vec<Option<(EmmyLuaAnalysis, lsp_types::Uri, usize)>>> = const { RefCell::new(Vec::new()) };
}

pub fn luars_compile(src: &str) -> Lr {
    LUA.with(|c| {
        let mut c = c.borrow_mut();
        if c.as_ref().is_none_or(|x| x.1 > 20_000) {
            *c = Some((Lua::new(SafeOption::default()), 0));
        }
        let (lua, n) = c.as_mut().unwrap();
        *n += 1;
        let r = catch(|| match lua.load(src).into_function() {
            Ok(_) => Lr::Ok,
            Err(e) => {
                let m = format!("{}", lua.get_error_message(e));
                let m = m.strip_prefix("chunk:").map(|r| r.trim_start_matches(|c: char| c.is_ascii_digit() || c == ':').trim().to_string()).unwrap_or(m);
                if SEMANTIC_MARKS.iter().any(|k| m.contains(k)) { Lr::Semantic(m) } else { Lr::Syntactic(m) }
            }
        });
        match r {
            Ok(v) => v,
            Err(_) => {
                *c = None;
                Lr::Crash
            }
        }
    })
}

// ------------------------------------------------------------------------------------------------ code under test

/// SyntaxError-kind parse errors of the real parser at `level` (doc parsing on, as the server configures it):
/// (message, class of the token the error is reported at)
pub fn emmy_parse_errors(text: &str, level: usize) -> Vec<(String, String)> {
    let tree = parse(text, cfg(level));
    tree.get_errors()
        .iter()
        .filter(|e| e.kind == LuaParseErrorKind::SyntaxError)
        .map(|e| {
            let (s, t) = (u32::from(e.range.start()) as usize, u32::from(e.range.end()) as usize);
            (e.message.clone(), token_class(text.get(s.min(text.len())..t.min(text.len())).unwrap_or("")))
        })
        .collect()
}

/// literals and ordinary names are abstracted, keywords / soft keywords / operators are kept: the token an
/// error is reported at is a better proxy of the root cause than the (context-dependent) message
fn token_class(t: &str) -> String {
    let t = t.trim();
    let b = t.as_bytes();
    if b.is_empty() {
        return "<eof>".into();
    }
    if b[0].is_ascii_digit() || (b[0] == b'.' && b.len() > 1 && b[1].is_ascii_digit()) {
        return "<number>".into();
    }
    if b[0] == b'"' || b[0] == b'\'' || t.starts_with("[[") || t.starts_with("[=") {
        return "<string>".into();
    }
    if b[0].is_ascii_alphabetic() || b[0] == b'_' {
        let w: String = t.chars().take_while(|c| c.is_ascii_alphanumeric() || *c == '_').collect();
        const KEEP: &[&str] = &[
            "and", "break", "do", "else", "elseif", "end", "false", "for", "function", "goto", "if", "in", "local", "nil", "not", "or", "repeat",
            "return", "then", "true", "until", "while", "global", "continue", "const", "close",
        ];
        return if KEEP.contains(&w.as_str()) { w } else { "<name>".into() };
    }
    t.chars().take_while(|c| !c.is_whitespace() && !c.is_ascii_alphanumeric()).take(3).collect()
}

/// `syntax-error` diagnostics of the real analysis (EmmyLuaAnalysis::diagnose_file) at `level`.
/// Err = the analysis panicked (not C03's subject; the case is then undecided).
pub fn emmy_syntax_diags(text: &str, level: usize) -> Result<Vec<String>, String> {
    AN.with(|c| {
        let mut c = c.borrow_mut();
        if c.is_empty() {
            c.resize_with(8, || None);
        }
        if c[level].as_ref().is_none_or(|x| x.2 > 5_000) {
            let mut a = EmmyLuaAnalysis::new();
            let mut rc = Emmyrc::default();
            rc.runtime.version = RC_VER[level];
            a.update_config(Arc::new(rc));
            a.add_main_workspace("/c03ws".into());
            let uri = file_path_to_uri(&"/c03ws/t.lua".into()).expect("uri");
            c[level] = Some((a, uri, 0));
        }
        let r = {
            let (a, uri, n) = c[level].as_mut().unwrap();
            *n += 1;
            catch(|| {
                let fid = a.update_file_by_uri(uri, Some(text.to_string())).expect("file id");
                let d = a.diagnose_file(fid, CancellationToken::new()).unwrap_or_default();
                d.into_iter()
                    .filter(|d| matches!(&d.code, Some(lsp_types::NumberOrString::String(s)) if s == "syntax-error"))
                    .map(|d| d.message)
                    .collect::<Vec<_>>()
            })
        };
        if r.is_err() {
            c[level] = None;
        }
        r
    })
}

fn normalise_msg(m: &str) -> String {
    // drop quoted token text and digits so that one message shape = one signature
    let mut out = String::new();
    let mut in_q = false;
    for ch in m.chars() {
        if ch == '\'' || ch == '`' {
            in_q = !in_q;
            out.push('\'');
            continue;
        }
        if in_q {
            continue;
        }
        if ch.is_ascii_digit() {
            if !out.ends_with('N') {
                out.push('N');
            }
            continue;
        }
        out.push(ch);
    }
    out.chars().take(70).collect()
}

// ------------------------------------------------------------------------------------------------ verdicts

#[derive(Clone, Copy, PartialEq, Debug)]
enum Expect {
    Valid,
    Invalid(&'static str),
    Undecided(&'static str),
}

/// what the two references say about `text` at `level`; `bycon` = Some(valid at this level by construction)
fn expectation(text: &str, level: usize, lr: &Lr, bycon: Option<bool>, r55: Verdict, rv: Verdict) -> Expect {
    let _ = text;
    if *lr == Lr::Crash {
        return Expect::Undecided("undecided:luars-crashed");
    }
    if let Some(b) = bycon {
        // cross-check of the recogniser against the generator
        if b != (rv == Verdict::Valid) && !matches!(rv, Verdict::Unsure(_)) {
            return Expect::Undecided("undecided:SELFCHECK-generator-vs-recogniser");
        }
    }
    if level == L55 {
        return match (rv, lr) {
            (Verdict::Valid, Lr::Ok) => Expect::Valid,
            (Verdict::Invalid(c), Lr::Syntactic(_)) => Expect::Invalid(c),
            (Verdict::Invalid(_), Lr::Semantic(_)) => Expect::Undecided("undecided:luars-semantic-message"),
            (Verdict::Unsure(_), _) => Expect::Undecided("undecided:recogniser-unsure"),
            (Verdict::Valid, Lr::Semantic(_)) => Expect::Undecided("undecided:semantic-reject"),
            _ => Expect::Undecided("undecided:references-disagree"),
        };
    }
    match rv {
        Verdict::Valid => match lr {
            Lr::Ok => Expect::Valid,
            // a form of version V that 5.5 itself rejects: by construction only
            _ if bycon == Some(true) && r55 != Verdict::Valid => Expect::Valid,
            Lr::Semantic(_) => Expect::Undecided("undecided:semantic-reject"),
            _ => Expect::Undecided("undecided:references-disagree"),
        },
        Verdict::Invalid(_) => Expect::Undecided("undecided:negative-side-needs-5.5"),
        Verdict::Unsure(_) => Expect::Undecided("undecided:recogniser-unsure"),
    }
}

/// the whole check of one (text, level): Some((signature, detail)) iff the property is violated
fn violation_of(text: &str, level: usize, lr: &Lr, bycon: Option<bool>, run_diag: bool) -> (&'static str, Option<(String, String)>) {
    let r55 = rf::check(text, Ver::L55);
    let rv = if VER[level] == Ver::L55 { r55 } else { rf::check(text, VER[level]) };
    match expectation(text, level, lr, bycon, r55, rv) {
        Expect::Undecided(w) => (w, None),
        Expect::Valid => {
            let errs = emmy_parse_errors(text, level);
            if let Some((m, tok)) = errs.first() {
                return (
                    "valid:REPORTED-AS-ERROR",
                    Some((
                        format!("valid-rejected:at {tok}"),
                        format!("valid at {} ({}), parser reports {} syntax error(s), first: {m}", VER[level].name(), if *lr == Lr::Ok { "recogniser and luars agree" } else { "by construction; 5.5 itself rejects this form" }, errs.len()),
                    )),
                );
            }
            if !run_diag {
                return ("valid:clean(parser)", None);
            }
            match emmy_syntax_diags(text, level) {
                Err(_) => ("undecided:analysis-panicked", None),
                Ok(d) if d.is_empty() => ("valid:clean", None),
                Ok(d) => (
                    "valid:REPORTED-AS-ERROR",
                    Some((format!("valid-rejected-diag:{}", normalise_msg(&d[0])), format!("valid at {}, parser clean, but {} syntax-error diagnostic(s), first: {}", VER[level].name(), d.len(), d[0]))),
                ),
            }
        }
        Expect::Invalid(class) => {
            if !emmy_parse_errors(text, level).is_empty() {
                return ("invalid:flagged-by-parser", None);
            }
            match emmy_syntax_diags(text, level) {
                Err(_) => ("undecided:analysis-panicked", None),
                Ok(d) if !d.is_empty() => ("invalid:flagged-by-diagnostic", None),
                Ok(_) => (
                    "invalid:NOT-REPORTED",
                    Some((
                        format!("invalid-accepted:{class}"),
                        format!("recogniser rejects ({class}), luars rejects ({}), but no parser syntax error and no syntax-error diagnostic at Lua 5.5", match lr {
                            Lr::Syntactic(m) => m.as_str(),
                            _ => "",
                        }),
                    )),
                ),
            }
        }
    }
}

/// signature → (level, text, raw cases, detail); the witness kept is the shortlex-least raw case
type Findings = Mutex<BTreeMap<String, (usize, String, u64, String)>>;

fn record(fx: &Findings, sig: String, level: usize, text: &str, detail: String) {
    let mut g = fx.lock().unwrap();
    match g.get_mut(&sig) {
        None => {
            g.insert(sig, (level, text.to_string(), 1, detail));
        }
        Some(e) => {
            e.2 += 1;
            // prefer level 5.5 (two references), then shorter, then lexicographic
            let key_new = (level != L55, text.len(), text, level);
            let key_old = (e.0 != L55, e.1.len(), e.1.as_str(), e.0);
            if key_new < key_old {
                e.0 = level;
                e.1 = text.to_string();
                e.3 = detail;
            }
        }
    }
}

struct Cx<'a> {
    fx: &'a Findings,
    /// a few examples of every undecided class (evidence; also how the recogniser was debugged)
    notes: &'a Mutex<BTreeMap<String, Vec<String>>>,
    /// levels at which the diagnostic side is run for positive verdicts (parser side runs at all)
    diag_levels: &'a [usize],
}

fn judge(text: &str, levels: &[usize], bycon: impl Fn(usize) -> Option<bool>, st: &mut Stats, cx: &Cx) {
    judge_d(text, levels, cx.diag_levels, bycon, st, cx)
}

/// `diag_levels`: levels at which a parser-clean positive is also put through the real diagnose_file
fn judge_d(text: &str, levels: &[usize], diag_levels: &[usize], bycon: impl Fn(usize) -> Option<bool>, st: &mut Stats, cx: &Cx) {
    let lr = luars_compile(text);
    for &lv in levels {
        let (class, v) = violation_of(text, lv, &lr, bycon(lv), diag_levels.contains(&lv));
        st.eval(text.len() > 8);
        st.outcome(class);
        if class.starts_with("undecided") {
            st.undecided += 1;
            if class != "undecided:negative-side-needs-5.5" {
                let mut g = cx.notes.lock().unwrap();
                let e = g.entry(class.to_string()).or_default();
                if e.len() < 6 {
                    e.push(format!("{} @{}: recogniser={:?} luars={:?}", serde_json::to_string(text).unwrap(), level_name(lv), rf::check(text, VER[lv]), lr));
                }
            }
        }
        if let Some((sig, detail)) = v {
            record(cx.fx, sig, lv, text, detail);
        }
    }
}

// ------------------------------------------------------------------------------------------------ features (validity by construction)

const F_GOTO: u32 = 1; // goto / labels: 5.2+, LuaJIT
const F_EMPTY: u32 = 2; // empty statement: 5.2+
const F_BIT: u32 = 4; // bitwise operators, integer division: 5.3+
const F_ATTR: u32 = 8; // <const>/<close>: 5.4+
const F_55: u32 = 16; // global declarations, leading attrib, named vararg: 5.5
const F_BREAKMID: u32 = 32; // break not last in its block: 5.2+
const F_GOTO_NAME: u32 = 64; // `goto` used as an identifier: 5.1 only
const F_GLOBAL_NAME: u32 = 128; // `global` used as an identifier: not judged at 5.5
const F_INVALID: u32 = 1 << 31; // not valid by construction (e.g. `...` in a non-vararg function)

fn feat_ok(f: u32, v: Ver) -> bool {
    if f & F_INVALID != 0 {
        return false;
    }
    let has = |b: u32| f & b != 0;
    let ge52 = matches!(v, Ver::L52 | Ver::L53 | Ver::L54 | Ver::L55);
    let ge53 = matches!(v, Ver::L53 | Ver::L54 | Ver::L55);
    let ge54 = matches!(v, Ver::L54 | Ver::L55);
    (!has(F_GOTO) || ge52 || v == Ver::Jit)
        && (!has(F_EMPTY) || ge52)
        && (!has(F_BIT) || ge53)
        && (!has(F_ATTR) || ge54)
        && (!has(F_55) || v == Ver::L55)
        && (!has(F_BREAKMID) || ge52)
        && (!has(F_GOTO_NAME) || v == Ver::L51)
        && (!has(F_GLOBAL_NAME) || v != Ver::L55)
}
/// Some(valid by construction at that level); None when construction says nothing (F_GLOBAL_NAME at 5.5 etc.)
fn bycon_of(f: u32) -> impl Fn(usize) -> Option<bool> {
    move |lv| {
        if f & F_GLOBAL_NAME != 0 && VER[lv] == Ver::L55 {
            return None;
        }
        if f & F_GOTO_NAME != 0 && VER[lv] == Ver::Jit {
            return None;
        }
        if (f & F_EMPTY != 0 || f & F_BREAKMID != 0) && VER[lv] == Ver::Jit {
            return None; // depends on LUAJIT_ENABLE_LUA52COMPAT
        }
        Some(feat_ok(f, VER[lv]))
    }
}

// ------------------------------------------------------------------------------------------------ (a1) expressions

#[derive(Clone)]
struct Ex {
    s: String,
    /// 0 not a prefix expression, 1 variable, 2 call, 3 parenthesised
    pk: u8,
    dots: bool,
    feat: u32,
}

const UNOPS: &[(&str, u32)] = &[("not", 0), ("-", 0), ("#", 0), ("~", F_BIT)];
const BINOPS: &[(&str, u32)] = &[
    ("+", 0), ("-", 0), ("*", 0), ("/", 0), ("%", 0), ("^", 0), ("..", 0), ("<", 0), ("<=", 0), (">", 0), (">=", 0), ("==", 0), ("~=", 0),
    ("and", 0), ("or", 0), ("//", F_BIT), ("&", F_BIT), ("|", F_BIT), ("~", F_BIT), ("<<", F_BIT), (">>", F_BIT),
];

fn gen_exprs(max_cost: usize, atoms: &[&str]) -> Vec<Vec<Ex>> {
    let mut s: Vec<Vec<Ex>> = Vec::new();
    s.push(
        atoms
            .iter()
            .map(|a| Ex { s: a.to_string(), pk: if a.chars().next().is_some_and(|c| c.is_ascii_alphabetic()) && !matches!(*a, "nil" | "true" | "false") { 1 } else { 0 }, dots: *a == "...", feat: 0 })
            .collect(),
    );
    for c in 1..=max_cost {
        let mut out: Vec<Ex> = Vec::new();
        let ex = |s: String, pk: u8, dots: bool, feat: u32| Ex { s, pk, dots, feat };
        // one child of cost c-1
        for x in &s[c - 1] {
            for (u, f) in UNOPS {
                out.push(ex(format!("{u} {}", x.s), 0, x.dots, x.feat | f));
            }
            out.push(ex(format!("( {} )", x.s), 3, x.dots, x.feat));
            for t in ["{ @ }", "{ k = @ }", "{ @ ; }", "{ @ , }"] {
                out.push(ex(t.replace('@', &x.s), 0, x.dots, x.feat));
            }
            if !x.dots {
                out.push(ex(format!("function ( ) return {} end", x.s), 0, false, x.feat));
                out.push(ex(format!("function ( a , b ) return {} end", x.s), 0, false, x.feat));
            } else {
                out.push(ex(format!("function ( ) return {} end", x.s), 0, false, x.feat | F_INVALID));
            }
            out.push(ex(format!("function ( ... ) return {} end", x.s), 0, false, x.feat));
            out.push(ex(format!("function ( a , ... ) return {} end", x.s), 0, false, x.feat));
            if x.pk != 0 {
                for (t, pk) in [("@ . b", 1u8), ("@ ( )", 2), ("@ \"s\"", 2), ("@ { }", 2), ("@ [[s]]", 2), ("@ : m ( )", 2), ("@ : m \"s\"", 2)] {
                    out.push(ex(t.replace('@', &x.s), pk, x.dots, x.feat));
                }
            }
        }
        // two children
        for i in 0..c {
            let j = c - 1 - i;
            for x in &s[i] {
                for y in &s[j] {
                    let d = x.dots || y.dots;
                    let f = x.feat | y.feat;
                    for (b, bf) in BINOPS {
                        out.push(ex(format!("{} {b} {}", x.s, y.s), 0, d, f | bf));
                    }
                    for t in ["{ [ @ ] = $ }", "{ @ , $ }", "{ @ ; k = $ }", "f ( @ , $ )"] {
                        out.push(ex(t.replace('@', &x.s).replace('$', &y.s), if t.starts_with('f') { 2 } else { 0 }, d, f));
                    }
                    if x.pk != 0 {
                        for (t, pk) in [("@ [ $ ]", 1u8), ("@ ( $ )", 2), ("@ : m ( $ )", 2), ("@ { $ }", 2)] {
                            out.push(ex(t.replace('@', &x.s).replace('$', &y.s), pk, d, f));
                        }
                    }
                }
            }
        }
        s.push(out);
    }
    s
}

/// remove every blank that is not needed to keep two word characters apart
fn compact(s: &str) -> String {
    let b = s.as_bytes();
    let mut out = String::with_capacity(b.len());
    for (i, &c) in b.iter().enumerate() {
        if c == b' ' && i > 0 && i + 1 < b.len() {
            let (p, n) = (b[i - 1], b[i + 1]);
            let w = |x: u8| x.is_ascii_alphanumeric() || x == b'_';
            if w(p) && w(n) {
                out.push(' ');
            }
            continue;
        }
        out.push(c as char);
    }
    out
}

// ------------------------------------------------------------------------------------------------ (a2) statements

/// template tokens: X expression hole; B block; BL loop body; BF body of a non-vararg function; BV body of a
/// vararg function; @L a label unique to the statement instance
const FLAT: &[(&str, u32)] = &[
    (";", 0),
    ("a = X", 0),
    ("a , b = X , X", 0),
    ("a . b = X", 0),
    ("a [ X ] = X", 0),
    ("f ( X )", 0),
    ("a : m ( X )", 0),
    ("f \"s\"", 0),
    ("f { X }", 0),
    ("a . b ( X ) . c = X", 0),
    ("local a", 0),
    ("local a = X", 0),
    ("local a , b = X , X", 0),
    ("local a <const> = X", F_ATTR),
    ("local a <close> = nil", F_ATTR),
    ("local a <const> , b = X , X", F_ATTR),
    ("local <const> a , b = X , X", F_55),
    (":: @L ::", F_GOTO),
    ("goto @L :: @L ::", F_GOTO),
    (":: @L :: goto @L", F_GOTO),
    ("global a", F_55),
    ("global a , b", F_55),
    ("global <const> a", F_55),
    ("global a <const> , b", F_55),
    ("global *", F_55),
    ("global <const> *", F_55),
    ("global a = X", F_55),
];
const NESTED: &[(&str, u32)] = &[
    ("do B end", 0),
    ("while X do BL end", 0),
    ("repeat BL until X", 0),
    ("if X then B end", 0),
    ("if X then B else B end", 0),
    ("if X then B elseif X then B end", 0),
    ("if X then B elseif X then B else B end", 0),
    ("for i = X , X do BL end", 0),
    ("for i = X , X , X do BL end", 0),
    ("for k in X do BL end", 0),
    ("for k , v in X , X do BL end", 0),
    ("function f ( ) BF end", 0),
    ("function a . b . c ( x ) BF end", 0),
    ("function a : m ( x , ... ) BV end", 0),
    ("function f ( ... ) BV end", 0),
    ("local function f ( a ) BF end", 0),
    ("function f ( ... t ) BV end", F_55),
    ("function f ( a , ... t ) BV end", F_55),
    ("global function f ( ) BF end", F_55),
    ("f ( function ( ) BF end )", 0),
    ("local g = function ( ... ) BV end", 0),
    ("do goto @L end :: @L ::", F_GOTO),
    ("while X do goto @L :: @L :: end", F_GOTO),
    ("repeat goto @L local a :: @L :: until X", F_GOTO),
];
const LAST: &[(&str, u32)] = &[("return", 0), ("return X", 0), ("return X , X", 0), ("return X ;", 0), ("return ;", 0)];

#[derive(Clone)]
struct Blk {
    s: String,
    /// features, not counting whether a leading `;` is an empty statement (that depends on what precedes it)
    feat: u32,
    cost: usize,
    /// the text starts with a `;` statement: an empty statement (5.2+) at the start of a block or after another
    /// `;`, a plain terminator (all versions) after any other statement
    semi: bool,
}
impl Blk {
    fn feat_as_block(&self) -> u32 {
        self.feat | if self.semi { F_EMPTY } else { 0 }
    }
}

#[derive(Clone, Copy, PartialEq, Eq, Hash)]
struct Ctx {
    in_loop: bool,
    vararg: bool,
}

const CORE_FLAT: &[&str] = &[";", "a = X", "f ( X )", "local a = X", "local a <const> = X", "goto @L :: @L ::", "global a"];
const CORE_NESTED: &[&str] = &["do B end", "while X do BL end", "repeat BL until X", "if X then B else B end", "for i = X , X do BL end", "for k in X do BL end", "function f ( ) BF end", "local g = function ( ... ) BV end"];
const CORE_LAST: &[&str] = &["return X"];

struct StGen {
    filler: &'static str,
    core: bool,
    memo: HashMap<(usize, Ctx), Arc<Vec<Blk>>>,
    stmemo: HashMap<(usize, Ctx), Arc<Vec<Blk>>>,
}

fn relabel(s: &str, prefix: usize) -> String {
    s.replace("@L", &format!("@L{prefix}"))
}

impl StGen {
    /// every single statement (not a last-statement) of cost exactly `cost`
    fn stmts(&mut self, cost: usize, cx: Ctx) -> Arc<Vec<Blk>> {
        if let Some(v) = self.stmemo.get(&(cost, cx)) {
            return v.clone();
        }
        let mut out = Vec::new();
        let xf = if self.filler == "..." && !cx.vararg { F_INVALID } else { 0 };
        if cost == 1 {
            for (t, f) in FLAT {
                if self.core && !CORE_FLAT.contains(t) {
                    continue;
                }
                let has_x = t.split(' ').any(|w| w == "X");
                out.push(Blk { s: t.replace('X', self.filler), feat: *f | if has_x { xf } else { 0 }, cost: 1, semi: *t == ";" });
            }
            if cx.in_loop {
                out.push(Blk { s: "break".into(), feat: 0, cost: 1, semi: false });
            }
        }
        for (t, f) in NESTED {
            if self.core && !CORE_NESTED.contains(t) {
                continue;
            }
            let words: Vec<&str> = t.split(' ').collect();
            let holes: Vec<usize> = (0..words.len()).filter(|&i| matches!(words[i], "B" | "BL" | "BF" | "BV")).collect();
            let has_x = words.contains(&"X");
            // distribute cost-1 over the holes
            let mut dist = vec![0usize; holes.len()];
            fn rec(this: &mut StGen, words: &[&str], holes: &[usize], dist: &mut Vec<usize>, k: usize, left: usize, cx: Ctx, f: u32, out: &mut Vec<Blk>, total: usize) {
                if k == holes.len() {
                    if left != 0 {
                        return;
                    }
                    // cartesian product of the blocks of exactly dist[k] cost
                    let mut parts: Vec<Vec<Blk>> = Vec::new();
                    for (hi, &h) in holes.iter().enumerate() {
                        let c2 = match words[h] {
                            "B" => cx,
                            "BL" => Ctx { in_loop: true, vararg: cx.vararg },
                            "BF" => Ctx { in_loop: false, vararg: false },
                            _ => Ctx { in_loop: false, vararg: true },
                        };
                        let all = this.blocks(dist[hi], c2);
                        parts.push(all.iter().filter(|b| b.cost == dist[hi]).map(|b| Blk { s: relabel(&b.s, hi), feat: b.feat_as_block(), cost: b.cost, semi: false }).collect());
                    }
                    let mut idx = vec![0usize; holes.len()];
                    if parts.iter().any(|p| p.is_empty()) {
                        return;
                    }
                    loop {
                        let mut s = String::new();
                        let mut feat = f;
                        let mut hi = 0;
                        for (wi, w) in words.iter().enumerate() {
                            let piece: &str = if hi < holes.len() && holes[hi] == wi {
                                let b = &parts[hi][idx[hi]];
                                feat |= b.feat;
                                hi += 1;
                                &b.s
                            } else if *w == "X" {
                                this.filler
                            } else {
                                w
                            };
                            if piece.is_empty() {
                                continue;
                            }
                            if !s.is_empty() {
                                s.push(' ');
                            }
                            s.push_str(piece);
                        }
                        out.push(Blk { s, feat, cost: total, semi: false });
                        let mut k = holes.len();
                        loop {
                            if k == 0 {
                                return;
                            }
                            k -= 1;
                            idx[k] += 1;
                            if idx[k] < parts[k].len() {
                                break;
                            }
                            idx[k] = 0;
                        }
                    }
                }
                for c in 0..=left {
                    dist[k] = c;
                    rec(this, words, holes, dist, k + 1, left - c, cx, f, out, total);
                }
            }
            let f2 = *f | if has_x { xf } else { 0 };
            rec(self, &words, &holes, &mut dist, 0, cost - 1, cx, f2, &mut out, cost);
        }
        let v = Arc::new(out);
        self.stmemo.insert((cost, cx), v.clone());
        v
    }

    /// every block (statement list) of cost ≤ budget
    fn blocks(&mut self, budget: usize, cx: Ctx) -> Arc<Vec<Blk>> {
        if let Some(v) = self.memo.get(&(budget, cx)) {
            return v.clone();
        }
        let mut out = vec![Blk { s: String::new(), feat: 0, cost: 0, semi: false }];
        if budget > 0 {
            let xf = if self.filler == "..." && !cx.vararg { F_INVALID } else { 0 };
            // first statement of cost c, then a block of cost ≤ budget-c
            for c in 1..=budget {
                let firsts = self.stmts(c, cx);
                let rests = self.blocks(budget - c, cx);
                for f in firsts.iter() {
                    for r in rests.iter() {
                        let mut feat = f.feat | r.feat;
                        if f.s == "break" && !r.s.is_empty() && r.s != ";" {
                            feat |= F_BREAKMID;
                        }
                        if f.semi && r.semi {
                            feat |= F_EMPTY;
                        }
                        // labels: the first statement gets index = number of statements that follow (unique per position)
                        let idx = r.cost + 4;
                        let fs = relabel(&f.s, idx);
                        let s = if r.s.is_empty() { fs } else { format!("{fs} {}", r.s) };
                        out.push(Blk { s, feat, cost: f.cost + r.cost, semi: f.semi });
                    }
                }
            }
            for (t, f) in LAST {
                if self.core && !CORE_LAST.contains(t) {
                    continue;
                }
                let has_x = t.split(' ').any(|w| w == "X");
                out.push(Blk { s: t.replace('X', self.filler), feat: *f | if has_x { xf } else { 0 }, cost: 1, semi: false });
            }
        }
        let v = Arc::new(out);
        self.memo.insert((budget, cx), v.clone());
        v
    }
}

/// `core`: only the forms marked as core (one representative per statement kind) — used one level deeper
fn gen_programs(budget: usize, filler: &'static str, core: bool) -> Vec<Blk> {
    let mut g = StGen { filler, core, memo: HashMap::new(), stmemo: HashMap::new() };
    let v = g.blocks(budget, Ctx { in_loop: false, vararg: true });
    v.iter().filter(|b| b.cost > 0).map(|b| Blk { s: b.s.replace("@L", "l"), feat: b.feat_as_block(), cost: b.cost, semi: false }).collect()
}

// ------------------------------------------------------------------------------------------------ (a3) identifiers

const NAMES: &[(&str, u32)] = &[("goto", F_GOTO_NAME), ("global", F_GLOBAL_NAME), ("continue", 0), ("const", 0), ("close", 0), ("require", 0), ("type", 0), ("self", 0), ("_ENV", 0), ("_", 0)];
const NAME_POS: &[(&str, u32)] = &[
    ("N = 1", 0), ("local N", 0), ("local N = N", 0), ("N ( )", 0), ("N . x = 1", 0), ("x . N = 1", 0), ("x = a . N", 0), ("function N ( ) end", 0),
    ("function a . N ( ) end", 0), ("function a : N ( ) end", 0), ("for N = 1 , 2 do end", 0), ("for N , v in a do end", 0), ("goto N :: N ::", F_GOTO),
    ("do goto N end :: N ::", F_GOTO), ("return N", 0), ("N : m ( )", 0), ("a : N ( )", 0), ("x = { N = 1 }", 0), ("f { N }", 0), ("N \"s\"", 0), ("N { }", 0),
    ("function f ( N ) end", 0), ("local function N ( ) end", 0), ("x = N + N", 0), ("x = - N", 0), ("N , y = 1 , 2", 0), ("local x <const> = N", F_ATTR),
    ("local N <const> = 1", F_ATTR), ("if N then end", 0), ("while N do break end", 0), ("repeat until N", 0), ("x = N . N . N", 0), ("N [ N ] = N", 0),
    ("N = N ; N = N", 0), ("N ( N , N )", 0), ("x = ( N )", 0), ("x = # N", 0), ("x = not N", 0), ("x = N ( )", 0), ("x = N [[s]]", 0),
];

/// literal forms at the limits the manuals name (§3.1): integer wrap-around / float fallback, exponent range, hex
/// floats, every simple escape, decimal escapes around 255, \x, \z, \u{…} around 0x7F/0x7FF/0xFFFF/surrogates/0x10FFFF/2^31
const BOUNDARY_LITERALS: &[&str] = &[
    "0", "007", "3", "345", "0xff", "0XA", "0xBEBADA", "3.0", "3.1416", "314.16e-2", "0.31416E1", "34e1", "0x0.1E", "0xA23p-4", "0X1.921FB54442D18P+1",
    ".5", "5.", "5.e1", ".5e1", "0x.8", "0x8.", "0x.8p1", "0x8.p1", "1e308", "1e309", "1e-400", "1E+10", "9223372036854775807", "9223372036854775808",
    "18446744073709551615", "18446744073709551616", "0x7fffffffffffffff", "0xffffffffffffffff", "0x10000000000000000", "0xfffffffffffffffffffff",
    "0x1p-1074", "0x1p1024", "1e", "1e+", "1e-", "1.e", ".e1", "0x", "0xg", "0x1p", "0x1p+", "0x.p1", "1..2", "1.2.3", "1e1.5", "0x1e+1", "1x", "1_000", "08", "0b1",
    "\"\\a\\b\\f\\n\\r\\t\\v\\\\\\\"\\'\"", "'\\''", "\"\\0\"", "\"\\00\"", "\"\\000\"", "\"\\0000\"", "\"\\255\"", "\"\\256\"", "\"\\2555\"", "\"\\999\"", "\"\\x00\"", "\"\\xfF\"",
    "\"\\xf\"", "\"\\xfg\"", "\"\\x\"", "\"\\z  \\n  a\"", "\"\\z\"", "\"a\\\nb\"", "\"a\\\r\nb\"", "\"a\nb\"", "\"\\u{0}\"", "\"\\u{7F}\"", "\"\\u{80}\"", "\"\\u{7FF}\"", "\"\\u{800}\"",
    "\"\\u{FFFF}\"", "\"\\u{D800}\"", "\"\\u{DFFF}\"", "\"\\u{10000}\"", "\"\\u{10FFFF}\"", "\"\\u{110000}\"", "\"\\u{7FFFFFFF}\"", "\"\\u{80000000}\"", "\"\\u{000000000041}\"",
    "\"\\u{FFFFFFFFF}\"", "\"\\u{}\"", "\"\\u{g}\"", "\"\\u{41\"", "\"\\u41\"", "\"\\u\"", "\"\\q\"", "\"\\ \"", "\"\\-\"", "\"\\8\"", "\"\\", "\"", "'", "\"\\\"", "[[\n]]", "[==[]]]==]", "[=[]=]=]",
];

// ------------------------------------------------------------------------------------------------ (c) token alphabet

const SIGMA_TOK: &[&str] = &[
    "a", "1", "\"s\"", "...", "and", "break", "do", "else", "elseif", "end", "false", "for", "function", "goto", "if", "in", "local", "nil", "not", "or",
    "repeat", "return", "then", "true", "until", "while", "global", "+", "-", "*", "/", "//", "%", "^", "#", "&", "~", "|", "<<", ">>", "..", "<", "<=",
    ">", ">=", "==", "~=", "=", "(", ")", "{", "}", "[", "]", ";", ":", "::", ",", ".",
];

// ------------------------------------------------------------------------------------------------ replay / minimise

fn check_one(text: &str, level: usize) -> Option<(String, String)> {
    let lr = luars_compile(text);
    // by-construction knowledge is not available for an arbitrary text: at 5.5 it is never needed
    violation_of(text, level, &lr, None, true).1
}

pub fn replay(w: &Value) -> Option<Violation> {
    let text = w["text"].as_str()?;
    let level = level_index(w["level"].as_str()?)?;
    let bycon = w["valid_by_construction"].as_bool();
    let lr = luars_compile(text);
    let (_, v) = violation_of(text, level, &lr, bycon, true);
    v.map(|(sig, detail)| Violation { signature: sig, witness: w.clone(), detail })
}

fn finalise(fx: Findings, st: &mut Stats) {
    let fx = fx.into_inner().unwrap();
    for (sig, (level, text, n, detail)) in fx {
        // determinism: the stored case must fail again, identically
        let again = check_one(&text, level);
        let bycon_needed = again.as_ref().map(|a| a.0 != sig).unwrap_or(true);
        let (witness, detail) = if bycon_needed {
            // verdict rests on validity by construction (form rejected by 5.5 itself): keep the raw case, do not minimise
            (json!({"text": text, "level": level_name(level), "valid_by_construction": true}), detail)
        } else {
            let min = minimise_text(&text, |t| check_one(t, level).is_some_and(|(s, _)| s == sig));
            let d = check_one(&min, level).map(|x| x.1).unwrap_or(detail);
            (json!({"text": min, "level": level_name(level)}), d)
        };
        let v = Violation { signature: sig.clone(), witness, detail };
        if replay(&v.witness).is_none_or(|r| r.signature != sig) {
            // does not reproduce: machinery problem, never a verdict
            st.outcome("MACHINERY:violation-did-not-reproduce");
            st.undecided += n;
            continue;
        }
        let key = format!("{}:{}", v.signature, v.witness);
        st.raw_violating_cases += n;
        st.violations.insert(key, (v, n));
    }
}

// ------------------------------------------------------------------------------------------------ run

pub fn run(args: &Args) -> ! {
    if let Some(w) = args.replay_witness() {
        let w = if w.get("witness").is_some() { w["witness"].clone() } else { w };
        finish_replay(replay(&w), "C03");
    }
    let dl = args.deadline();
    let mut rep = Report::new("C03", "exploration");
    let mut all = Stats::default();
    let fx: Findings = Mutex::new(BTreeMap::new());
    let thorough = args.tier == Tier::Thorough;
    // bounds
    let expr_cost_small_atoms = args.extra_usize("expr-cost").unwrap_or(args.tier.pick(2, 3)); // atoms {a, 1}
    let expr_cost_full_atoms = args.tier.pick(1, 2); // atoms {a, 1, "s", nil, ...}
    let stat_budget = args.extra_usize("stat-n").unwrap_or(3).min(3); // 4 would be ~2·10^7 programs: covered by the core forms instead
    let num_len = args.extra_usize("num-len").unwrap_or(args.tier.pick(4, 6));
    let esc_len = args.extra_usize("esc-len").unwrap_or(args.tier.pick(4, 5));
    let lb_len = args.extra_usize("lb-len").unwrap_or(args.tier.pick(4, 6));
    let mut_budget = args.extra_usize("mut-n").unwrap_or(args.tier.pick(1, 2));
    let only = args.extra.get("phase").cloned();
    let want = |p: &str| only.as_deref().is_none_or(|o| o.split(',').any(|x| x == p));
    let mut done: BTreeMap<&str, Value> = BTreeMap::new();
    let mut exhaustive = true;
    let notes = Mutex::new(BTreeMap::new());
    let all_diag = Cx { fx: &fx, notes: &notes, diag_levels: &ALL_LEVELS };

    // ---- (a2) statement lists
    if want("a2") {
        // (text, features, diagnose at every level?)
        let mut progs: Vec<(String, u32, bool)> = Vec::new();
        let mut seen = std::collections::HashSet::new();
        let full_all = args.tier.pick(stat_budget.saturating_sub(1), stat_budget); // budget up to which both fillers + all-level diagnostics
        for (filler, budget) in [("a", stat_budget), ("...", full_all)] {
            for b in gen_programs(budget, filler, false) {
                if seen.insert(b.s.clone()) {
                    progs.push((b.s, b.feat, b.cost <= full_all));
                }
            }
        }
        let core_budget = args.extra_usize("stat-core-n").unwrap_or(args.tier.pick(0, 4)).min(4);
        if core_budget > 0 {
            for b in gen_programs(core_budget, "a", true) {
                if seen.insert(b.s.clone()) {
                    progs.push((b.s, b.feat, false));
                }
            }
        }
        drop(seen);
        let n = progs.len();
        let only55 = [L55];
        let (st, ok) = par_range(n as u64, args.threads, &dl, |i, st| {
            let (t, f, full) = &progs[i as usize];
            if i % 19997 == 3 {
                st.sample(|| json!({"phase": "a2-statements", "text": t}));
            }
            judge_d(t, &ALL_LEVELS, if *full { &ALL_LEVELS } else { &only55 }, bycon_of(*f), st, &all_diag);
        });
        all.merge(st);
        exhaustive &= ok;
        done.insert(
            "a2_statement_programs",
            json!({"count": n, "completed": ok, "max_statements_filler_a": stat_budget, "max_statements_filler_dots_and_all_level_diagnostics": full_all,
                "max_statements_core_forms": core_budget, "note": "beyond the all-level bound the diagnostic side runs at Lua 5.5 only; the parser side runs at all 8 levels"}),
        );
    }

    // ---- (a3) identifiers
    if want("a3") {
        let mut progs: Vec<(String, u32)> = Vec::new();
        for (n, nf) in NAMES {
            for (p, pf) in NAME_POS {
                progs.push((p.split(' ').map(|w| if w == "N" { *n } else { w }).collect::<Vec<_>>().join(" "), nf | pf));
            }
        }
        let n = progs.len();
        let (st, ok) = par_range(n as u64, args.threads, &dl, |i, st| {
            let (t, f) = &progs[i as usize];
            if i % 97 == 5 {
                st.sample(|| json!({"phase": "a3-identifiers", "text": t}));
            }
            judge(t, &ALL_LEVELS, bycon_of(*f), st, &all_diag);
        });
        all.merge(st);
        exhaustive &= ok;
        done.insert("a3_identifier_programs", json!({"count": n, "completed": ok}));
    }

    // ---- (b) literals
    if want("b") {
        const NUM: &[u8] = b"019afxXeEpP+-._";
        let mut completed = None;
        for k in 0..=num_len {
            let total = pow(NUM.len() as u64, k as u32);
            let (st, ok) = par_range(total, args.threads, &dl, |i, st| {
                let mut w = Vec::new();
                decode_word(i, NUM.len() as u64, k, &mut w);
                let lit: String = w.iter().map(|&d| NUM[d] as char).collect();
                let t = format!("return {lit}");
                if i % 50021 == 11 {
                    st.sample(|| json!({"phase": "b-numeral", "text": t}));
                }
                judge_d(&t, &ALL_LEVELS, if k <= 5 { &ALL_LEVELS } else { &[L55] }, |_| None, st, &all_diag);
            });
            all.merge(st);
            if !ok {
                break;
            }
            completed = Some(k);
        }
        exhaustive &= completed == Some(num_len);
        done.insert("b_numeral_len", json!({"target": num_len, "completed": completed}));

        const ESC: &[u8] = b"anzxu{}09f\n\\\"";
        let mut completed = None;
        for k in 0..=esc_len {
            let total = pow(ESC.len() as u64, k as u32);
            let (st, ok) = par_range(total, args.threads, &dl, |i, st| {
                let mut w = Vec::new();
                decode_word(i, ESC.len() as u64, k, &mut w);
                let body: String = w.iter().map(|&d| ESC[d] as char).collect();
                let t = format!("return \"\\{body}\"");
                if i % 5003 == 11 {
                    st.sample(|| json!({"phase": "b-escape", "text": t}));
                }
                judge(&t, &ALL_LEVELS, |_| None, st, &all_diag);
            });
            all.merge(st);
            if !ok {
                break;
            }
            completed = Some(k);
        }
        exhaustive &= completed == Some(esc_len);
        done.insert("b_escape_len", json!({"target": esc_len, "completed": completed}));

        // boundary values named by the manual, beyond the reach of the small alphabets
        let (st, ok) = par_range(BOUNDARY_LITERALS.len() as u64, args.threads, &dl, |i, st| {
            let t = format!("return {}", BOUNDARY_LITERALS[i as usize]);
            st.sample(|| json!({"phase": "b-boundary-literal", "text": t}));
            judge(&t, &ALL_LEVELS, |_| None, st, &all_diag);
        });
        all.merge(st);
        exhaustive &= ok;
        done.insert("b_boundary_literals", json!({"count": BOUNDARY_LITERALS.len(), "completed": ok}));

        const LB: &[u8] = b"[]=a\n";
        let mut completed = None;
        for k in 0..=lb_len {
            let total = pow(LB.len() as u64, k as u32) * 4 * 4 * 3;
            let (st, ok) = par_range(total, args.threads, &dl, |i, st| {
                let mut d = Vec::new();
                decode_mixed(i, &[pow(LB.len() as u64, k as u32) as usize, 4, 4, 3], &mut d);
                let mut w = Vec::new();
                decode_word(d[0] as u64, LB.len() as u64, k, &mut w);
                let body: String = w.iter().map(|&x| LB[x] as char).collect();
                let open = format!("[{}[", "=".repeat(d[1]));
                let close = format!("]{}]", "=".repeat(d[2]));
                let t = match d[3] {
                    0 => format!("return {open}{body}{close}"),
                    1 => format!("--{open}{body}{close}\nreturn 1"),
                    _ => format!("f{open}{body}{close}"),
                };
                if i % 50021 == 11 {
                    st.sample(|| json!({"phase": "b-long-bracket", "text": t}));
                }
                judge(&t, &ALL_LEVELS, |_| None, st, &all_diag);
            });
            all.merge(st);
            if !ok {
                break;
            }
            completed = Some(k);
        }
        exhaustive &= completed == Some(lb_len);
        done.insert("b_long_bracket_content_len", json!({"target": lb_len, "completed": completed}));
    }

    // ---- (c) token mutations of small valid programs, judged at 5.5 (the level with two references)
    if want("c") {
        let mut bases: Vec<Vec<String>> = Vec::new();
        let mut seen = std::collections::HashSet::new();
        let ex = gen_exprs(1, &["a", "1", "\"s\"", "nil", "..."]);
        let mut texts: Vec<String> = Vec::new();
        for lvl in &ex {
            for e in lvl {
                if e.feat & F_INVALID == 0 {
                    texts.push(format!("return {}", e.s));
                }
            }
        }
        for b in gen_programs(mut_budget, "a", false) {
            if feat_ok(b.feat, Ver::L55) {
                texts.push(b.s);
            }
        }
        for t in texts {
            if rf::check(&t, Ver::L55) != Verdict::Valid {
                continue;
            }
            if let Some(tok) = rf::tokens(&t, Ver::L55) {
                if seen.insert(tok.clone()) {
                    bases.push(tok);
                }
            }
        }
        drop(seen);
        // job list: (base, kind, position, token)
        let mut jobs: Vec<(u32, u8, u16, u16)> = Vec::new();
        for (bi, b) in bases.iter().enumerate() {
            for p in 0..b.len() {
                jobs.push((bi as u32, 0, p as u16, 0));
                if p + 1 < b.len() {
                    jobs.push((bi as u32, 1, p as u16, 0));
                }
            }
            for p in 0..=b.len() {
                for ti in 0..SIGMA_TOK.len() {
                    jobs.push((bi as u32, 2, p as u16, ti as u16));
                }
            }
        }
        let n = jobs.len();
        let lv = [L55];
        let (st, ok) = par_range(n as u64, args.threads, &dl, |i, st| {
            let (bi, kind, p, ti) = jobs[i as usize];
            let mut tk = bases[bi as usize].clone();
            match kind {
                0 => {
                    tk.remove(p as usize);
                }
                1 => tk.swap(p as usize, p as usize + 1),
                _ => tk.insert(p as usize, SIGMA_TOK[ti as usize].to_string()),
            }
            let t = tk.join(" ");
            if i % 100003 == 7 {
                st.sample(|| json!({"phase": "c-token-mutation", "base": bases[bi as usize].join(" "), "mutant": t}));
            }
            judge(&t, &lv, |_| None, st, &all_diag);
        });
        all.merge(st);
        exhaustive &= ok;
        done.insert("c_token_mutations", json!({"base_programs": bases.len(), "mutants": n, "completed": ok, "base_max_statements": mut_budget, "alphabet": SIGMA_TOK.len()}));
    }

    // ---- (a1) expressions (last: the largest phase, so a wall cap truncates only this one)
    if want("a1") {
        // (text, features, diagnose at every level?)
        let mut progs: Vec<(String, u32, bool)> = Vec::new();
        let full = gen_exprs(expr_cost_full_atoms, &["a", "1", "\"s\"", "nil", "..."]);
        let small = gen_exprs(expr_cost_small_atoms, &["a", "1"]);
        let mut seen = std::collections::HashSet::new();
        for set in [&full, &small] {
            for (cost, lvl) in set.iter().enumerate() {
                // the largest expressions of the thorough tier get the diagnostic side at Lua 5.5 only
                let all_levels = cost <= 2;
                for e in lvl {
                    for ctx in ["return @", "local x = @"] {
                        let s = ctx.replace('@', &e.s);
                        for t in [s.clone(), compact(&s)] {
                            if seen.insert(t.clone()) {
                                // a compacted text may lex differently: construction says nothing, the references decide
                                let f = if t == s { e.feat } else { u32::MAX };
                                progs.push((t, f, all_levels));
                            }
                        }
                    }
                }
            }
        }
        drop(seen);
        let n = progs.len();
        let (st, ok) = par_range(n as u64, args.threads, &dl, |i, st| {
            let (t, f, all_levels) = &progs[i as usize];
            if i % 9973 == 1 {
                st.sample(|| json!({"phase": "a1-expression", "text": t}));
            }
            let dl: &[usize] = if *all_levels { &ALL_LEVELS } else { &[L55] };
            if *f == u32::MAX {
                judge_d(t, &ALL_LEVELS, dl, |_| None, st, &all_diag);
            } else {
                judge_d(t, &ALL_LEVELS, dl, bycon_of(*f), st, &all_diag);
            }
        });
        all.merge(st);
        exhaustive &= ok;
        done.insert("a1_expression_programs", json!({"count": n, "completed": ok, "max_nodes_atoms_a_1": expr_cost_small_atoms, "max_nodes_5_atoms": expr_cost_full_atoms, "note": "expressions with 3 nodes: diagnostic side at Lua 5.5 only, parser side at all 8 levels"}));
    }

    finalise(fx, &mut all);
    let selfcheck = all.outcomes.get("undecided:SELFCHECK-generator-vs-recogniser").copied().unwrap_or(0);
    rep.set("recogniser_vs_generator_mismatches", json!(selfcheck));
    rep.set("phases", json!(done));
    rep.set("undecided_examples", json!(*notes.lock().unwrap()));
    rep.rule = format!(
        "every (program, level) pair of: (a1) expression derivations ≤{expr_cost_small_atoms} nodes over atoms {{a,1}} and ≤{expr_cost_full_atoms} over {{a,1,\"s\",nil,...}} (4 unary, 21 binary operators incl. every ordered pair, calls/sugar, indexing, 7 table-constructor shapes, closures) in `return E`/`local x = E`, spaced and compact; (a2) statement lists ≤{stat_budget} statement nodes ({} flat, {} nesting, {} final forms; holes filled with `a` and `...`); (a3) {}×{} identifier placements; (b) numerals Σ^≤{num_len} (|Σ|=15) in `return <lit>`, escapes \"\\w\" |w|≤{esc_len} (|Σ|=13), long brackets open level 0-3 × content Σ^≤{lb_len} (|Σ|=5) × close level 0-3 × {{string, comment, call argument}}; (c) delete/swap/insert({} tokens) at every position of every valid base program ≤{mut_budget} statements (level 5.5). Each positive is judged at all 8 language levels: parser errors always, the real diagnose_file at all 8 levels too except for the largest items of a phase (statement lists beyond the all-level bound, 3-node expressions, 6-character numerals), where it runs at Lua 5.5 only; each negative at Lua 5.5. Distinct by construction (texts de-duplicated per phase); non-trivial = text longer than 8 bytes. Oracle: two references (manual-grammar recogniser c03_ref / validity by construction, and luars 5.5) must agree, otherwise undecided.",
        FLAT.len(), NESTED.len(), LAST.len(), NAMES.len(), NAME_POS.len(), SIGMA_TOK.len()
    );
    rep.exhaustive = exhaustive && !dl.was_hit() && only.is_none();
    rep.bounds = json!({"tier": args.tier.name(), "wall_cap_s": args.wall_cap_s, "wall_cap_hit": dl.was_hit(), "phases_run": only, "thorough": thorough});
    rep.assumptions = vec![
        "no reference Lua binary is installed: luars (a Rust port of the Lua 5.5 compiler whose lexer shares ancestry with the repo's) is the second reference only together with the independent hand-written recogniser; at levels other than 5.5 the positive side rests on the recogniser for that version plus luars' acceptance (or on construction alone for forms 5.5 rejects), and the negative side is not judged".into(),
        "LuaJIT = stock LuaJIT 2.1 without LUAJIT_ENABLE_LUA52COMPAT, checked at the three LuaJIT levels of the analyzer".into(),
        "semantic rejections (label visibility, break outside loop, const assignment, undeclared global after `global`, limits) are never judged".into(),
    ];
    if selfcheck > 0 {
        rep.machinery_error = Some(format!("{selfcheck} generated programs on which generator and recogniser disagree"));
    }
    rep.finish(args, all)
}
