//! Alphabets and parser configurations shared by C01/C02/C03/C04/C21.
use emmylua_parser::{LuaFeatures, LuaFeaturesSet, LuaLanguageLevel, LuaParser, LuaSyntaxTree, ParserConfig};
use std::collections::HashMap;

/// Σ₁: one fragment per lexer/parser shortcut visible in the code.
pub const SIGMA1: &[&str] = &[
    // names / keywords
    "a", "local ", "function ", "end ", "if ", "then ", "else ", "for ", "in ", "do ", "while ", "repeat ", "until ",
    "return ", "goto ", "global ", "not ", "nil",
    // operators, brackets, separators
    "=", "==", "~=", "<", ">", "+", "-", "..", "...", ".", ":", "::", ",", ";", "(", ")", "{", "}", "[", "]", "#", "//", "/*", "*/",
    "?", "|", "@", "!", "`", "$",
    // literals
    "1", "0x", "1e", "\"", "'", "[[", "]]", "[=[", "\\",
    // comments and docs
    "--", "---@", "---|", "--[[", "--region", "--endregion", "---@class ", "---@type ", "---@param ", "#!",
    // trivia and unusual characters
    "\n", "\r", " ", "\t", "\0", "\u{feff}", "é", "中", "😀",
];

/// a 20-fragment core for one extra level of depth
pub const SIGMA1_CORE: &[&str] = &[
    "a", "local ", "function ", "end ", "=", "(", ")", "{", "}", ",", ";", "\"", "[[", "--", "---@", "--region", "\n", " ", "\0", "é",
];

/// Σ₃: one head per doc-lexer state (tag keyword that switches `LuaDocLexerState`) plus the operator /
/// punctuation / literal bodies those states special-case.
pub const SIGMA3: &[&str] = &[
    "---@version ", "---@see ", "---@source ", "---@cast ", "---@field ", "---@alias ", "---@class ", "---@module ", "---@diagnostic ",
    "---@operator ", "---@using ", "---@namespace ", "---@language ", "---@schema ", "---@return_cast ", "---@as ", "---@[", "---|", "--- ", "--[[@as ",
    ">", "<", ">=", "<=", "=", "5.3", "JIT", ",", " ", "a", "#", "@", "\"s\"", "'", "[", "]", "(", ")", ":", ".", "+", "-", "?", "|", "`", "~",
    "http://a#b", "extends ", "in ", "\n", "\r", "é",
];
/// Σ₂: statement- and annotation-sized fragments that reach deep parser states at small k.
pub const SIGMA2: &[&str] = &[
    "local t = {", "function f(", "local function f(a, b)\n", "return function()\n", "if a then\n", "elseif b then\n", "else\n",
    "end\n", "for i = 1, 2 do\n", "for k, v in pairs(t) do\n", "while a do\n", "repeat\n", "until a\n", "::l::\n", "goto l\n",
    "a.b:c(1)[2] = 3\n", "x = 1 + 2 * -3 ^ 4 .. 's'\n", "}\n", ")\n", "[1] = 2,", "x = y;", "f{...}\n", "f'x'\n",
    "---@class A : B\n", "---@field x integer?\n", "---@param x fun(a: string): T[]\n", "---@alias X\n", "---| 'a' # d\n",
    "---@type table<string, {x: 1, y?: A}>\n", "---@generic T : A\n", "---@return T ... desc\n", "---@overload fun(...): A | B\n",
    "---```lua\n", "---```\n", "--- text *x* `y`\n", "---@cast a +?\n", "---@diagnostic disable-next-line: x\n", "---@enum (key) E\n",
    "---@operator add(A): B\n", "--[[ c ]] ", "--region r\n", "--endregion\n", "local x <const> = 1\n", "\0", "\r\n",
];

pub const LEVELS: [LuaLanguageLevel; 8] = [
    LuaLanguageLevel::Lua51,
    LuaLanguageLevel::LuaJIT2,
    LuaLanguageLevel::LuaJIT,
    LuaLanguageLevel::LuaJIT3,
    LuaLanguageLevel::Lua52,
    LuaLanguageLevel::Lua53,
    LuaLanguageLevel::Lua54,
    LuaLanguageLevel::Lua55,
];

pub fn all_features() -> LuaFeaturesSet {
    use LuaFeatures::*;
    LuaFeaturesSet::new(vec![
        Goto, BitwiseOperation, IntegerFloorDivision, LocalAttrib, GlobalDeclaration, NamedVararg, DoubleSlash, SlashStar,
        ComplexNumber, LLInteger, BinaryInteger, PlusAssign, MinusAssign, StarAssign, SlashAssign, PercentAssign, CaretAssign,
        DoubleSlashAssign, PipeAssign, AmpAssign, ShiftLeftAssign, ShiftRightAssign, ShrArithmeticAssign, ConcatAssign,
        XorAssign, DoublePipeOr, DoubleAmpAnd, Exclamation, NotEqual, Continue, ShiftRightArithmetic, Ternary,
        SafeNavigationOperator, NilCoalescingOperator, ConstDeclaration, UnderscoreNumber, ShortFunction, StringInterpolation,
    ])
}

/// the 32 parser configurations: 8 levels × doc on/off × {no extension, every non-standard feature}
#[derive(Clone, Copy, Debug, PartialEq, Eq)]
pub struct Cfg {
    pub level: usize,
    pub doc: bool,
    pub ext: bool,
}
pub const N_CFG: usize = 32;
pub fn cfg(i: usize) -> Cfg {
    Cfg { level: i % 8, doc: (i / 8) % 2 == 0, ext: (i / 16) % 2 == 1 }
}
impl Cfg {
    pub fn name(self) -> String {
        format!("{:?}/doc={}/ext={}", LEVELS[self.level], self.doc, self.ext)
    }
    pub fn index(self) -> usize {
        self.level + if self.doc { 0 } else { 8 } + if self.ext { 16 } else { 0 }
    }
    pub fn parser_config<'a>(self) -> ParserConfig<'a> {
        let ext = if self.ext { all_features() } else { LuaFeaturesSet::default() };
        ParserConfig::new(LEVELS[self.level], None, HashMap::new(), ext, self.doc)
    }
}

pub fn parse(text: &str, c: Cfg) -> LuaSyntaxTree {
    LuaParser::parse(text, c.parser_config())
}

pub fn word_text(sigma: &[&str], w: &[usize]) -> String {
    let mut s = String::new();
    for &i in w {
        s.push_str(sigma[i]);
    }
    s
}

/// the bundled std library sources (read from the working tree at run time)
pub fn std_files() -> Vec<(String, String)> {
    let root = vcore::repo_root().join("crates/emmylua_code_analysis/resources/std");
    let mut out = Vec::new();
    fn walk(p: &std::path::Path, out: &mut Vec<(String, String)>) {
        let Ok(rd) = std::fs::read_dir(p) else { return };
        let mut es: Vec<_> = rd.flatten().map(|e| e.path()).collect();
        es.sort();
        for e in es {
            if e.is_dir() {
                walk(&e, out);
            } else if e.extension().is_some_and(|x| x == "lua") {
                if let Ok(t) = std::fs::read_to_string(&e) {
                    out.push((e.to_string_lossy().to_string(), t));
                }
            }
        }
    }
    walk(&root, &mut out);
    out
}
