//! C01 — syntax trees are lossless: root.text() == input for every word of Σ₁^≤k, Σ₂^≤k,
//! every single-point mutation of every paragraph of the bundled std files, × 32 configurations.
use crate::common::*;
use rowan::NodeOrToken;
use serde_json::{Value, json};
use vcore::*;

/// Some(description) when the tree does not reproduce `text`.
pub fn lossy(text: &str, c: Cfg) -> Option<String> {
    let tree = parse(text, c);
    let root = tree.get_red_root();
    let got = root.text();
    if got != text {
        let g = got.to_string();
        let common = g.bytes().zip(text.bytes()).take_while(|(a, b)| a == b).count();
        return Some(format!("tree text has {} bytes, input {}; first difference at byte {}", g.len(), text.len(), common));
    }
    // tokens tile the input: contiguous from 0 to len, in order
    let mut pos = 0u32;
    for el in root.descendants_with_tokens() {
        if let NodeOrToken::Token(t) = el {
            let r = t.text_range();
            if u32::from(r.start()) != pos {
                return Some(format!("token {:?} starts at {} but previous token ended at {}", t.kind(), u32::from(r.start()), pos));
            }
            pos = r.end().into();
        }
    }
    if pos as usize != text.len() {
        return Some(format!("tokens end at {pos}, input has {} bytes", text.len()));
    }
    None
}

fn check_text(text: &str, st: &mut Stats, origin: &str) {
    let mut bad_cfg = None;
    for ci in 0..N_CFG {
        let c = cfg(ci);
        st.eval(text.len() > 1);
        if let Some(d) = lossy(text, c) {
            if bad_cfg.is_none() {
                bad_cfg = Some((c, d));
            }
        }
    }
    match bad_cfg {
        None => st.outcome("lossless"),
        Some((c, _)) => {
            st.outcome("lossy");
            let v = minimise(text, c, origin);
            st.violation(v);
        }
    }
}

fn minimise(text: &str, c: Cfg, origin: &str) -> Violation {
    // prefer the default configuration if it fails there too
    let dflt = cfg(7);
    let c = if lossy(text, dflt).is_some() { dflt } else { c };
    let min = minimise_text(text, |t| lossy(t, c).is_some());
    let c = if lossy(&min, dflt).is_some() { dflt } else { c };
    let detail = lossy(&min, c).unwrap_or_default();
    Violation {
        signature: "lossy".into(),
        witness: json!({"text": min, "cfg": c.index()}),
        detail: format!("{detail} (cfg {}; first seen in {origin})", c.name()),
    }
}

fn minimise_nest(fi: usize, d: usize, ci: usize) -> Violation {
    let fs = crate::c02::families();
    // smallest depth on the ladder that is still lossy
    let mut best = d;
    for cand in [1usize, 2, 3, 50, 100, 198, 199, 200, 201, 202, 250, 400, 1000] {
        if cand < best && lossy(&crate::c02::family_text(fi, None, cand).0, cfg(ci)).is_some() {
            best = cand;
            break;
        }
    }
    let detail = lossy(&crate::c02::family_text(fi, None, best).0, cfg(ci)).unwrap_or_default();
    Violation { signature: "lossy-nesting".into(), witness: json!({"family": fs[fi].0, "depth": best, "cfg": ci}), detail }
}

pub fn replay(w: &Value) -> Option<Violation> {
    if let Some(f) = w["family"].as_str() {
        let fs = crate::c02::families();
        let fi = fs.iter().position(|x| x.0 == f)?;
        let d = w["depth"].as_u64()? as usize;
        let ci = w["cfg"].as_u64().unwrap_or(7) as usize;
        let text = crate::c02::family_text(fi, None, d).0;
        let r = std::thread::Builder::new().stack_size(512 << 20).spawn(move || lossy(&text, cfg(ci))).unwrap().join().ok()?;
        return r.map(|d| Violation { signature: "lossy-nesting".into(), witness: w.clone(), detail: d });
    }
    let text = w["text"].as_str()?;
    let c = cfg(w["cfg"].as_u64().unwrap_or(7) as usize);
    lossy(text, c).map(|d| Violation { signature: "lossy".into(), witness: w.clone(), detail: d })
}

/// paragraphs (blank-line separated blocks) of the std files
pub fn std_paragraphs() -> Vec<String> {
    let mut out = Vec::new();
    for (_, t) in std_files() {
        let mut cur = String::new();
        for line in t.split_inclusive('\n') {
            if line.trim().is_empty() && !cur.is_empty() {
                cur.push_str(line);
                out.push(std::mem::take(&mut cur));
            } else {
                cur.push_str(line);
            }
        }
        if !cur.is_empty() {
            out.push(cur);
        }
    }
    out.sort();
    out.dedup();
    out
}

/// token boundaries (byte offsets) of `text` under the default configuration
pub fn token_bounds(text: &str) -> Vec<(usize, usize)> {
    let tree = parse(text, cfg(7));
    let mut v = Vec::new();
    for el in tree.get_red_root().descendants_with_tokens() {
        if let NodeOrToken::Token(t) = el {
            let r = t.text_range();
            v.push((u32::from(r.start()) as usize, u32::from(r.end()) as usize));
        }
    }
    v
}

pub fn run(args: &Args) -> ! {
    if let Some(w) = args.replay_witness() {
        finish_replay(replay(&w["witness"]).or_else(|| replay(&w)), "C01");
    }
    let dl = args.deadline();
    let mut rep = Report::new("C01", "exploration");
    let mut all = Stats::default();
    let (k1, k2, kcore) = args.tier.pick((3, 2, 0), (4, 3, 5));

    // (a) Σ₁^≤k
    let (st, done1) = par_words(SIGMA1.len(), 0, k1, args.threads, &dl, |w, st| {
        let text = word_text(SIGMA1, w);
        if w.len() >= 2 {
            st.sample(|| json!({"phase": "sigma1", "text": text}));
        }
        check_text(&text, st, "Σ1");
    });
    all.merge(st);
    // (b) Σ₂^≤k
    let (st, done2) = par_words(SIGMA2.len(), 1, k2, args.threads, &dl, |w, st| {
        let text = word_text(SIGMA2, w);
        check_text(&text, st, "Σ2");
    });
    all.merge(st);
    // (b') Σ₃^≤k: doc-lexer states
    let k3 = args.tier.pick(3, 4);
    let (st, done2b) = par_words(SIGMA3.len(), 1, k3, args.threads, &dl, |w, st| {
        let text = word_text(SIGMA3, w);
        check_text(&text, st, "Σ3");
    });
    all.merge(st);
    // (a') core alphabet one level deeper (thorough)
    let mut donecore = None;
    if kcore > 0 {
        let (st, d) = par_words(SIGMA1_CORE.len(), kcore, kcore, args.threads, &dl, |w, st| {
            let text = word_text(SIGMA1_CORE, w);
            check_text(&text, st, "Σ1core");
        });
        all.merge(st);
        donecore = d;
    }
    // (c) single-point mutations of std paragraphs: delete / duplicate token i, insert fragment at boundary i
    let paras = std_paragraphs();
    let inserts: Vec<&str> = args.tier.pick(
        vec!["\0", "--region", "{", ",", "end ", "---@", "[[", "\"", "\r", "é"],
        SIGMA1.to_vec(),
    );
    let mut jobs: Vec<(usize, usize, usize)> = Vec::new(); // (para, token, mutation) mutation: 0=del 1=dup 2+ = insert
    let max_para_len = args.tier.pick(400, 4000);
    for (pi, p) in paras.iter().enumerate() {
        if p.len() > max_para_len {
            continue;
        }
        let nb = token_bounds(p).len();
        for ti in 0..nb {
            for m in 0..(2 + inserts.len()) {
                jobs.push((pi, ti, m));
            }
        }
    }
    let bounds: Vec<Vec<(usize, usize)>> = paras.iter().map(|p| token_bounds(p)).collect();
    let (st, done3) = par_range(jobs.len() as u64, args.threads, &dl, |i, st| {
        let (pi, ti, m) = jobs[i as usize];
        let p = &paras[pi];
        let (s, e) = bounds[pi][ti];
        let text = match m {
            0 => format!("{}{}", &p[..s], &p[e..]),
            1 => format!("{}{}{}", &p[..e], &p[s..e], &p[e..]),
            _ => format!("{}{}{}", &p[..s], inserts[m - 2], &p[s..]),
        };
        if i % 50_000 == 7 {
            st.sample(|| json!({"phase": "std-mutation", "mutation": m, "text": text.chars().take(120).collect::<String>()}));
        }
        check_text(&text, st, "std-mutation");
    });
    all.merge(st);

    // (d) nesting families around the parser's depth limit (losslessness of the recovery path)
    let fams = crate::c02::families();
    let depths = [1usize, 2, 3, 50, 100, 198, 199, 200, 201, 202, 250, 400, 1000];
    let nest_jobs = fams.len() * depths.len();
    let h = std::thread::Builder::new()
        .stack_size(512 << 20)
        .spawn({
            let dl = dl.clone();
            move || {
                let mut st = Stats::default();
                let mut done = 0usize;
                'outer: for fi in 0..crate::c02::families().len() {
                    for &d in &depths {
                        if dl.expired() {
                            break 'outer;
                        }
                        let (text, c) = crate::c02::family_text(fi, None, d);
                        for ci in [7usize, c, 0, 2] {
                            st.eval(true);
                            if let Some(_d) = lossy(&text, cfg(ci)) {
                                st.outcome("lossy");
                                st.violation(minimise_nest(fi, d, ci));
                                break;
                            }
                        }
                        st.outcome("lossless");
                        done += 1;
                    }
                }
                (st, done)
            }
        })
        .unwrap();
    let (st, nest_done) = h.join().unwrap_or_else(|_| die("nesting phase crashed (stack?)"));
    all.merge(st);
    let done4 = nest_done == nest_jobs;

    rep.rule = format!(
        "every word of Σ1^≤{k1} (|Σ1|={}), Σ2^≤{k2} (|Σ2|={}), Σ3^≤{k3} (|Σ3|={}: one head per doc-lexer state + the bodies those states special-case){}, every delete/duplicate/insert({} fragments) mutation at every token of {} std-library paragraphs (≤{max_para_len} bytes), each under all {N_CFG} parser configurations; plus {nest_jobs} nesting-family × depth cases around the depth limit (4 configs); enumeration never repeats a (text,config) case; non-trivial = text longer than one byte; oracle: tree text == input and tokens tile [0,len)",
        SIGMA1.len(),
        SIGMA2.len(),
        SIGMA3.len(),
        if kcore > 0 { format!(", Σ1core^{kcore} (|Σ1core|={})", SIGMA1_CORE.len()) } else { String::new() },
        inserts.len(),
        paras.len()
    );
    rep.exhaustive = done4 && done1 == Some(k1) && done2 == Some(k2) && done2b == Some(k3) && done3 && (kcore == 0 || donecore == Some(kcore));
    rep.bounds = json!({"sigma1_k_target": k1, "sigma1_k_completed": done1, "sigma2_k_target": k2, "sigma2_k_completed": done2, "sigma3_k_target": k3, "sigma3_k_completed": done2b,
        "core_k": kcore, "core_completed": donecore, "std_mutations": jobs.len(), "std_mutations_completed": done3,
        "configs": N_CFG, "wall_cap_s": args.wall_cap_s, "wall_cap_hit": dl.was_hit()});
    rep.assumptions = vec![
        "rowan's text_range arithmetic is trusted".into(),
        "inputs outside the alphabets / longer than the bound are not covered".into(),
    ];
    rep.finish(args, all)
}
