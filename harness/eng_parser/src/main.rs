mod c01;
mod c02;
mod c03;
mod c03_ref;
mod c04;
mod common;

fn main() {
    let raw: Vec<String> = std::env::args().collect();
    if raw.len() > 2 && raw[1] == "--child" && raw[2].starts_with("c04") {
        c04::child(&raw[2..]);
    }
    if raw.len() > 2 && raw[1] == "--child" {
        c02::child(&raw[2..]);
    }
    let args = vcore::parse_args();
    match args.prop.as_str() {
        "C01" => c01::run(&args),
        "C02" => c02::run(&args),
        "C03" => c03::run(&args),
        "C04" => c04::run(&args),
        "TIME" => {
            let frag = args.extra.get("text").cloned().unwrap_or_default().replace("\\n", "\n");
            for sz in [1usize << 17, 1 << 18, 1 << 19, 1 << 20, 1 << 21] {
                let text = frag.repeat(sz / frag.len() + 1);
                let t0 = std::time::Instant::now();
                let t = common::parse(&text, common::cfg(7));
                let t1 = t0.elapsed().as_secs_f64();
                let n = t.get_red_root().descendants_with_tokens().count();
                let t2 = t0.elapsed().as_secs_f64();
                drop(t);
                let t3 = t0.elapsed().as_secs_f64();
                println!("{sz}: parse {t1:.3}s walk {:.3}s ({n} elements) drop {:.3}s", t2 - t1, t3 - t2);
            }
        }
        "DUMP" => {
            let text = args.extra.get("text").cloned().unwrap_or_default();
            let text = text.replace("\\n", "\n").replace("\\0", "\0").replace("\\r", "\r");
            let c = common::cfg(args.extra_usize("cfg").unwrap_or(7));
            let t = common::parse(&text, c);
            println!("{:#?}", t.get_red_root());
            println!("errors: {:?}", t.get_errors());
            println!("lossy: {:?}", c01::lossy(&text, c));
        }
        p => vcore::die(&format!("eng_parser does not serve {p}")),
    }
}
