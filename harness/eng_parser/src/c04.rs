//! C04 — parse results do not depend on earlier parses through the shared node cache (family B).
//!
//! State = the history that reaches it. Ops (through the real EmmyLuaAnalysis, i.e. the real
//! `Vfs::set_file_content` / `Vfs::remove_file` / `Vfs::update_config` with the Vfs' one NodeCache):
//!   set(uri_i, T_j)   i∈{0,1}, j∈0..16      update_file_by_uri(uri, Some(text))
//!   clear(uri_i)                            update_file_by_uri(uri, None)
//!   remove(uri_i)                           remove_file_by_uri(uri)
//!   config(K_k)       k∈0..3                update_config (language level / require-like names / `//` comments)
//! ALL histories of length ≤ d are replayed from a fresh analysis; after the last step of every history
//! (every prefix is itself an enumerated history, so this is "after every step") each live file's structural
//! dump (kind, range, text of every node/token) and error list must equal the reference dump of
//! (text, configuration in force when it was parsed).
//! The reference dump is produced by `LuaParser::parse(text, fresh config, no cache)` in a *fresh child
//! process per (text, config)*, so that process-global state (a `static` scratch) cannot contaminate the
//! reference; a second phase parses every ordered pair of (text, config) without any cache in a child
//! process to expose parse-order dependence that does not go through the cache at all.
use emmylua_code_analysis::{EmmyLuaAnalysis, Emmyrc, EmmyrcLuaVersion, file_path_to_uri};
use emmylua_parser::{LuaParser, LuaSyntaxTree};
use rowan::NodeOrToken;
use serde_json::{Value, json};
use std::collections::HashSet;
use std::process::{Command, Stdio};
use std::sync::{Arc, Mutex};
use vcore::*;

pub const TEXTS: [&str; 16] = [
    "local x = 1\n",
    "local  x = 1 -- c\n",                    // same statement, different trivia
    "local x = 1\nlocal x = 1\n",             // same statement twice (shared subtree)
    "local x = \n",                           // erroneous twin
    "function f() local x = 1 end\n",         // same tokens under another parent
    "goto = 1\n",                             // `goto` as a name (5.1) / keyword (others)
    "goto x\n::x::\n",
    "---@class A\nlocal x = 1\n",             // doc comment
    "-- @class A\nlocal x = 1\n",             // plain comment twin
    "1---@n\n---@r\nn",                       // used to be lossy (C01)
    "\0",                                     // used to be lossy (C01)
    "local --region\nx",                      // used to be lossy (C01)
    "require \"a\"\nimport \"a\"\n",          // special-call node kinds depend on the configuration
    "x = 1 // 2\n",                           // idiv / error / comment depending on the configuration
    "local x <const> = 1\n",                  // attribute: error below 5.4
    "x = {,end\n",                            // table recovery path
];
pub const N_CFG: usize = 3;
const N_URI: usize = 2;

pub fn config(k: usize) -> Emmyrc {
    let mut rc = Emmyrc::default();
    match k {
        0 => {}
        1 => rc.runtime.version = EmmyrcLuaVersion::Lua51,
        _ => {
            rc = serde_json::from_value(json!({"runtime": {"version": "LuaJIT", "requireLikeFunction": ["import"], "nonstandardSymbol": ["//"]}}))
                .unwrap_or_else(|e| die(&format!("c04 config 2: {e}")));
            assert!(rc.runtime.nonstandard_symbol.len() == 1 && rc.runtime.require_like_function.len() == 1);
        }
    }
    rc
}

pub fn dump(tree: &LuaSyntaxTree) -> String {
    let mut s = String::new();
    for el in tree.get_red_root().descendants_with_tokens() {
        match el {
            NodeOrToken::Node(n) => {
                let r = n.text_range();
                s.push_str(&format!("N {:?} {}..{}\n", n.kind(), u32::from(r.start()), u32::from(r.end())));
            }
            NodeOrToken::Token(t) => {
                let r = t.text_range();
                s.push_str(&format!("T {:?} {}..{} {:?}\n", t.kind(), u32::from(r.start()), u32::from(r.end()), t.text()));
            }
        }
    }
    for e in tree.get_errors() {
        s.push_str(&format!("E {:?} {:?} {:?}\n", e.kind, e.range, e.message));
    }
    s
}

/// `LuaParser::parse(text, fresh config with no cache)`
pub fn fresh_dump(ti: usize, k: usize) -> String {
    let rc = config(k);
    let mut cache = rowan::NodeCache::default();
    // same construction as the Vfs uses, then drop the cache: ParserConfig with node_cache = None
    let with_cache = rc.get_parse_config(&mut cache);
    let level = with_cache.level;
    drop(with_cache);
    let mut special = std::collections::HashMap::new();
    for n in rc.runtime.require_like_function.iter() {
        special.insert(n.clone(), emmylua_parser::SpecialFunction::Require);
    }
    let mut ext = emmylua_parser::LuaFeaturesSet::default();
    for s in rc.runtime.nonstandard_symbol.iter() {
        let f: emmylua_parser::LuaFeatures = (*s).into();
        ext.add(f);
    }
    let cfg = emmylua_parser::ParserConfig::new(level, None, special, ext, true);
    dump(&LuaParser::parse(TEXTS[ti], cfg))
}

#[derive(Clone, Copy, PartialEq, Eq, Debug)]
pub enum Op {
    Set(usize, usize),
    Clear(usize),
    Remove(usize),
    Config(usize),
}
pub fn ops() -> Vec<Op> {
    let mut v = Vec::new();
    for u in 0..N_URI {
        for t in 0..TEXTS.len() {
            v.push(Op::Set(u, t));
        }
    }
    for u in 0..N_URI {
        v.push(Op::Clear(u));
        v.push(Op::Remove(u));
    }
    for k in 0..N_CFG {
        v.push(Op::Config(k));
    }
    v
}
fn op_str(o: Op) -> String {
    match o {
        Op::Set(u, t) => format!("set {u} {t}"),
        Op::Clear(u) => format!("clear {u}"),
        Op::Remove(u) => format!("remove {u}"),
        Op::Config(k) => format!("config {k}"),
    }
}
fn op_parse(s: &str) -> Option<Op> {
    let p: Vec<&str> = s.split(' ').collect();
    let n = |i: usize| p.get(i).and_then(|x| x.parse::<usize>().ok());
    Some(match *p.first()? {
        "set" => Op::Set(n(1).filter(|&u| u < N_URI)?, n(2).filter(|&t| t < TEXTS.len())?),
        "clear" => Op::Clear(n(1).filter(|&u| u < N_URI)?),
        "remove" => Op::Remove(n(1).filter(|&u| u < N_URI)?),
        "config" => Op::Config(n(1).filter(|&k| k < N_CFG)?),
        _ => return None,
    })
}

/// replay a history on a fresh analysis; returns, per uri, Some((text, config at parse time, dump)) for live files
pub fn replay_history(h: &[Op]) -> Vec<Option<(usize, usize, String)>> {
    let mut a = EmmyLuaAnalysis::new();
    a.update_config(Arc::new(config(0)));
    a.add_main_workspace("/c04ws".into());
    let uris: Vec<_> = (0..N_URI).map(|u| file_path_to_uri(&format!("/c04ws/f{u}.lua").into()).expect("uri")).collect();
    let mut live: Vec<Option<(usize, usize)>> = vec![None; N_URI];
    let mut cur = 0usize;
    for &o in h {
        match o {
            Op::Set(u, t) => {
                a.update_file_by_uri(&uris[u], Some(TEXTS[t].to_string()));
                live[u] = Some((t, cur));
            }
            Op::Clear(u) => {
                a.update_file_by_uri(&uris[u], None);
                live[u] = None;
            }
            Op::Remove(u) => {
                a.remove_file_by_uri(&uris[u]);
                live[u] = None;
            }
            Op::Config(k) => {
                a.update_config(Arc::new(config(k)));
                cur = k;
            }
        }
    }
    let vfs = a.compilation.get_db().get_vfs();
    (0..N_URI)
        .map(|u| {
            let (t, k) = live[u]?;
            let d = match vfs.get_file_id(&uris[u]).and_then(|id| vfs.get_syntax_tree(&id)) {
                Some(tree) => dump(tree),
                None => "<no tree for a live file>".to_string(),
            };
            Some((t, k, d))
        })
        .collect()
}

fn first_diff(a: &str, b: &str) -> String {
    for (i, (x, y)) in a.lines().zip(b.lines()).enumerate() {
        if x != y {
            return format!("line {i}: got `{x}` expected `{y}`");
        }
    }
    format!("got {} lines, expected {} lines", a.lines().count(), b.lines().count())
}

// ------------------------------------------------------------------------------------------------ child modes

/// `--child c04ref <t> <k>`: one fresh parse in a fresh process
/// `--child c04seq <t> <k>`: parse (t,k) first, then every (t',k') without cache; print fnv of each dump
/// `--child c04hist <op;op;…>`: replay one history in a fresh process, print the dumps
pub fn child(args: &[String]) -> ! {
    match args[0].as_str() {
        "c04ref" => {
            let t: usize = args[1].parse().unwrap();
            let k: usize = args[2].parse().unwrap();
            print!("{}", fresh_dump(t, k));
        }
        "c04seq" => {
            let t: usize = args[1].parse().unwrap();
            let k: usize = args[2].parse().unwrap();
            // the first parse of a fresh process is the reference dump of (t, k)
            println!("REF {}", serde_json::to_string(&fresh_dump(t, k)).unwrap());
            for t2 in 0..TEXTS.len() {
                for k2 in 0..N_CFG {
                    println!("{t2} {k2} {}", fnv(fresh_dump(t2, k2).as_bytes()));
                }
            }
        }
        "c04hist" => {
            let h: Vec<Op> = args[1].split(';').filter(|s| !s.is_empty()).filter_map(op_parse).collect();
            for (u, l) in replay_history(&h).into_iter().enumerate() {
                if let Some((t, k, d)) = l {
                    println!("FILE {u} {t} {k} {}", fnv(d.as_bytes()));
                }
            }
        }
        _ => die("bad c04 child kind"),
    }
    std::process::exit(0)
}

fn run_child(args: &[String]) -> String {
    let exe = std::env::current_exe().unwrap();
    let out = Command::new(exe).arg("--child").args(args).stdin(Stdio::null()).stderr(Stdio::null()).output().unwrap_or_else(|e| die(&format!("spawn child: {e}")));
    if !out.status.success() {
        die(&format!("c04 child {:?} failed: {:?}", args, out.status));
    }
    String::from_utf8_lossy(&out.stdout).to_string()
}

pub struct Refs {
    dumps: Vec<String>, // index t*N_CFG+k
    /// after[i][j] = fnv of the cache-less dump of pair j parsed in the process whose first parse was pair i
    after: Vec<Vec<u64>>,
}
impl Refs {
    /// one fresh child process per (text, config): its first parse is the reference for that pair, its
    /// later parses (every pair again, no cache) feed the parse-order phase
    pub fn build(threads: usize) -> Refs {
        let n = TEXTS.len() * N_CFG;
        let slots: Vec<Mutex<(String, Vec<u64>)>> = (0..n).map(|_| Mutex::new((String::new(), Vec::new()))).collect();
        let dl = Deadline::after_secs(600.0);
        par_range(n as u64, threads, &dl, |i, _| {
            let (t, k) = (i as usize / N_CFG, i as usize % N_CFG);
            let out = run_child(&["c04seq".into(), t.to_string(), k.to_string()]);
            let mut dump = None;
            let mut after = vec![0u64; n];
            for l in out.lines() {
                if let Some(j) = l.strip_prefix("REF ") {
                    dump = serde_json::from_str::<String>(j).ok();
                } else {
                    let p: Vec<&str> = l.split(' ').collect();
                    if p.len() == 3 {
                        let (t2, k2): (usize, usize) = (p[0].parse().unwrap(), p[1].parse().unwrap());
                        after[t2 * N_CFG + k2] = p[2].parse().unwrap();
                    }
                }
            }
            *slots[i as usize].lock().unwrap() = (dump.unwrap_or_else(|| die("c04 child printed no reference")), after);
        });
        let (dumps, after) = slots.into_iter().map(|m| m.into_inner().unwrap()).unzip();
        Refs { dumps, after }
    }
    pub fn get(&self, t: usize, k: usize) -> &str {
        &self.dumps[t * N_CFG + k]
    }
}

/// Some(detail) iff the history ends in a state where a live file's tree differs from the fresh reference
fn history_fails(h: &[Op], refs: &Refs) -> Option<String> {
    for (u, l) in replay_history(h).into_iter().enumerate() {
        if let Some((t, k, d)) = l {
            let r = refs.get(t, k);
            if d != r {
                return Some(format!("uri {u} holds text {t} ({:?}) parsed under config {k}: {}", TEXTS[t], first_diff(&d, r)));
            }
        }
    }
    None
}
/// the same question asked of a fresh process
fn history_fails_in_child(h: &[Op], refs: &Refs) -> bool {
    let arg = h.iter().map(|o| op_str(*o)).collect::<Vec<_>>().join(";");
    let out = run_child(&["c04hist".into(), arg]);
    for l in out.lines() {
        let p: Vec<&str> = l.split(' ').collect();
        if p.len() == 5 && p[0] == "FILE" {
            let (t, k): (usize, usize) = (p[2].parse().unwrap(), p[3].parse().unwrap());
            if p[4] != fnv(refs.get(t, k).as_bytes()).to_string() {
                return true;
            }
        }
    }
    false
}

/// the history with uris renamed in order of first use
fn canonical_uris(w: &Value) -> String {
    let mut map: Vec<String> = Vec::new();
    let mut out = Vec::new();
    for o in w["history"].as_array().map(|a| a.as_slice()).unwrap_or(&[]) {
        let p: Vec<&str> = o.as_str().unwrap_or("").split(' ').collect();
        if p.len() >= 2 && p[0] != "config" {
            let i = map.iter().position(|x| x == p[1]).unwrap_or_else(|| {
                map.push(p[1].to_string());
                map.len() - 1
            });
            out.push(format!("{} u{} {}", p[0], i, p.get(2).unwrap_or(&"")));
        } else {
            out.push(p.join(" "));
        }
    }
    out.join(";")
}

fn witness_of(h: &[Op]) -> Value {
    json!({"history": h.iter().map(|o| op_str(*o)).collect::<Vec<_>>()})
}

pub fn replay(w: &Value) -> Option<Violation> {
    if let Some(first) = w.get("first") {
        let (t2, k2) = (w["then"][0].as_u64()? as usize, w["then"][1].as_u64()? as usize);
        let refs = Refs::build(8);
        let differs = match (first[0].as_u64(), first[1].as_u64()) {
            (Some(t), Some(k)) => refs.after[t as usize * N_CFG + k as usize][t2 * N_CFG + k2] != fnv(refs.get(t2, k2).as_bytes()),
            _ => fresh_dump(t2, k2) != refs.get(t2, k2),
        };
        if !differs {
            return None;
        }
        return Some(Violation { signature: "parse-order-dependence".into(), witness: w.clone(), detail: "a cache-less parse differs from the same parse in a fresh process".into() });
    }
    let h: Vec<Op> = w["history"].as_array()?.iter().filter_map(|s| s.as_str().and_then(op_parse)).collect();
    let refs = Refs::build(8);
    if let Some(d) = history_fails(&h, &refs) {
        return Some(Violation { signature: "history-dependent-parse".into(), witness: w.clone(), detail: d });
    }
    if history_fails_in_child(&h, &refs) {
        return Some(Violation { signature: "history-dependent-parse".into(), witness: w.clone(), detail: "differs in a fresh process".into() });
    }
    None
}

pub fn run(args: &Args) -> ! {
    if let Some(w) = args.replay_witness() {
        let w = if w.get("witness").is_some() { w["witness"].clone() } else { w };
        finish_replay(replay(&w), "C04");
    }
    let dl = args.deadline();
    let mut rep = Report::new("C04", "model_checking");
    let mut all = Stats::default();
    let d_target = args.extra_usize("depth").unwrap_or(args.tier.pick(3, 4));
    let refs = Refs::build(args.threads);
    let op_list = ops();

    // phase 0: the in-process fresh parse must agree with the fresh-process reference (48 cases), and
    // phase 1: cache-less parse of (t',k') after (t,k) in a child process must agree with the reference
    let n_pairs = TEXTS.len() * N_CFG;
    let (st, ok_pairs) = par_range(n_pairs as u64, args.threads, &dl, |i, st| {
        let (t, k) = (i as usize / N_CFG, i as usize % N_CFG);
        st.eval(true);
        if fresh_dump(t, k) != refs.get(t, k) {
            st.outcome("in-process-fresh-parse-differs");
            st.violation(Violation {
                signature: "parse-order-dependence".into(),
                witness: json!({"first": ["<engine start-up parses>"], "then": [t, k]}),
                detail: format!("fresh parse of text {t} under config {k} in the engine process differs from the same parse in a fresh process: {}", first_diff(&fresh_dump(t, k), refs.get(t, k))),
            });
        } else {
            st.outcome("fresh-parse-stable");
        }
        for j in 0..n_pairs {
            let (t2, k2) = (j / N_CFG, j % N_CFG);
            st.eval(true);
            if refs.after[i as usize][j] != fnv(refs.get(t2, k2).as_bytes()) {
                st.outcome("pair-differs");
                st.violation(Violation {
                    signature: "parse-order-dependence".into(),
                    witness: json!({"first": [t, k], "then": [t2, k2]}),
                    detail: format!("in a process whose first parse was {:?} (config {k}), the later cache-less parse of {:?} (config {k2}; all pairs are parsed in index order) gives a different tree than a fresh process does", TEXTS[t], TEXTS[t2]),
                });
            } else {
                st.outcome("pair-stable");
            }
        }
    });
    // one root cause makes hundreds of pairs differ: report the three least (first, then) pairs, count the rest
    let mut st = st;
    let pair_raw = st.raw_violating_cases;
    if st.violations.len() > 3 {
        let mut vs: Vec<(Violation, u64)> = std::mem::take(&mut st.violations).into_values().collect();
        vs.sort_by_key(|(v, _)| {
            let n = |x: &Value| x.as_u64().unwrap_or(0);
            (n(&v.witness["first"][0]), n(&v.witness["first"][1]), n(&v.witness["then"][0]), n(&v.witness["then"][1]))
        });
        for (i, (v, _)) in vs.into_iter().take(3).enumerate() {
            st.violations.insert(format!("{i}"), (v, if i == 0 { pair_raw.saturating_sub(2) } else { 1 }));
        }
    }
    let process_global = pair_raw > 0;
    all.merge(st);

    // phase 2: all histories of length 1..=d
    let states: Mutex<HashSet<u64>> = Mutex::new(HashSet::new());
    let transitions = std::sync::atomic::AtomicU64::new(0);
    let traces = std::sync::atomic::AtomicU64::new(0);
    let suspects: Mutex<Vec<Vec<Op>>> = Mutex::new(Vec::new());
    let mut d_done = 0usize;
    for d in 1..=d_target {
        let radices = vec![op_list.len(); d];
        let total = mixed_total(&radices);
        let (st, ok) = par_range(total, args.threads, &dl, |i, st| {
            let mut digits = Vec::new();
            decode_mixed(i, &radices, &mut digits);
            let h: Vec<Op> = digits.iter().map(|&x| op_list[x]).collect();
            let files = replay_history(&h);
            transitions.fetch_add(d as u64, std::sync::atomic::Ordering::Relaxed);
            traces.fetch_add(1, std::sync::atomic::Ordering::Relaxed);
            let mut key = String::new();
            let mut bad = false;
            let mut live = 0;
            for (u, l) in files.iter().enumerate() {
                match l {
                    None => key.push_str(&format!("{u}:-;")),
                    Some((t, k, dmp)) => {
                        live += 1;
                        key.push_str(&format!("{u}:{t}/{k}/{};", fnv(dmp.as_bytes())));
                        if dmp != refs.get(*t, *k) {
                            bad = true;
                        }
                    }
                }
            }
            states.lock().unwrap().insert(fnv(key.as_bytes()));
            st.eval(live > 0);
            if i % 40009 == 17 {
                st.sample(|| json!({"phase": "history", "history": h.iter().map(|o| op_str(*o)).collect::<Vec<_>>(), "state": key}));
            }
            if bad {
                st.outcome("differs-from-fresh");
                let mut s = suspects.lock().unwrap();
                if s.len() < 2000 {
                    s.push(h);
                }
            } else {
                st.outcome(match live {
                    0 => "no-live-file",
                    1 => "one-live-file-equals-fresh",
                    _ => "two-live-files-equal-fresh",
                });
            }
        });
        all.merge(st);
        if !ok {
            break;
        }
        d_done = d;
    }

    // confirm and minimise suspects (shortest first: enumeration order is by length, keep it deterministic by sorting)
    let mut sus = suspects.into_inner().unwrap();
    sus.sort_by_key(|h| (h.len(), h.iter().map(|o| op_str(*o)).collect::<Vec<_>>()));
    let mut reported: HashSet<String> = HashSet::new();
    let n_sus = sus.len() as u64;
    let mut n_reported = 0;
    // when cache-less parses already depend on process history, every later mismatch is explained by that
    for h in sus.into_iter().take(if process_global { 3 } else { 40 }) {
        let in_child = history_fails_in_child(&h, &refs);
        let v = if in_child {
            let min = minimise_seq(&h, |c| !c.is_empty() && history_fails_in_child(c, &refs));
            let detail = history_fails(&min, &refs).unwrap_or_else(|| "differs from the fresh reference (fresh process)".into());
            Violation { signature: "history-dependent-parse".into(), witness: witness_of(&min), detail }
        } else {
            Violation {
                signature: "process-global-state".into(),
                witness: witness_of(&h),
                detail: format!("differs in the engine process (after other histories) but not when replayed alone in a fresh process: {}", history_fails(&h, &refs).unwrap_or_default()),
            }
        };
        // histories that differ only by renaming the two uris are one witness; at most three witnesses are
        // reported (shortest first), the raw count stays in raw_violating_cases
        let key = format!("{}:{}", v.signature, canonical_uris(&v.witness));
        if reported.insert(key) && n_reported < 3 {
            n_reported += 1;
            all.violation(v);
        }
    }
    if n_sus > 0 {
        all.raw_violating_cases = all.raw_violating_cases.max(n_sus);
    }

    let n_states = states.lock().unwrap().len();
    rep.set("states", json!(n_states));
    rep.set("transitions", json!(transitions.load(std::sync::atomic::Ordering::Relaxed)));
    rep.set("traces_validated_against_impl", json!(traces.load(std::sync::atomic::Ordering::Relaxed)));
    rep.set("max_depth", json!(d_done));
    rep.set("ops", json!(op_list.len()));
    rep.set("texts", json!(TEXTS));
    rep.rule = format!(
        "explicit-state search, state = history: ALL histories of length ≤{d_target} over {} ops (set(uri,text) 2×16, clear(uri) 2, remove(uri) 2, config 3) replayed on a fresh EmmyLuaAnalysis (real Vfs::set_file_content/remove_file/update_config, one NodeCache per Vfs); after the last step (every prefix is itself enumerated) every live file's dump (kind, range, text of every node and token, and the error list) must equal the dump of LuaParser::parse(text, fresh config, no cache) taken in a fresh process for the configuration in force when the file was parsed; plus all {}×{} ordered pairs of cache-less parses in child processes (process-global state). States are de-duplicated on (per-uri text/config/dump hash); non-trivial = at least one live file.",
        op_list.len(), n_pairs, n_pairs
    );
    rep.exhaustive = ok_pairs && d_done == d_target;
    rep.bounds = json!({"depth_target": d_target, "depth_completed": d_done, "uris": N_URI, "texts": TEXTS.len(), "configs": N_CFG, "wall_cap_hit": dl.was_hit()});
    rep.assumptions = vec![
        "the abstract state (which text/config each uri holds) plus the dump hash determines every later observation of the Vfs' trees; the cache content itself is not part of the key (that is what the property quantifies over)".into(),
        "configuration changes do not re-parse existing files (update_config only replaces the Emmyrc), so a file is compared against the configuration in force when it was parsed".into(),
    ];
    rep.finish(args, all)
}
