#![allow(dead_code)]
mod c13;
mod c15;
mod c41;
mod flowcheck;
mod flowgen;
mod scope;
mod vm;
mod ws;

fn main() {
    let args = vcore::parse_args();
    match args.prop.as_str() {
        "C13" => c13::run(&args),
        "C15" => c15::run(&args),
        "C41" => c41::run(&args),
        "DUMP" => {
            let text = args.extra.get("text").cloned().unwrap_or_default().replace("\\n", "\n");
            let std = args.extra.get("std").map(|s| s == "1").unwrap_or(true);
            ws::with_model(std, &text, |w, fid, m| {
                for (i, t) in ws::probe_types(m) {
                    println!("P{i}: {:?}", t.map(|t| (w.humanize_type_detailed(t.clone()), format!("{t:?}"), flowcheck::gamma_text(flowcheck::gamma(&t)))));
                }
                let d = w.analysis.diagnose_file(fid, tokio_util::sync::CancellationToken::new());
                for d in d.unwrap_or_default() {
                    println!("diag {:?} {}:{} {}", d.code, d.range.start.line, d.range.start.character, d.message);
                }
            });
            if let Some(inp) = args.extra.get("in") {
                let lits: Vec<flowgen::Lit> = inp.split(',').filter_map(|s| flowgen::LITS.iter().copied().find(|l| l.text() == s)).collect();
                let run = flowcheck::execute(&text, &lits, 2);
                println!("run: {:?} {:?}", run.end, run.trace);
            }
        }
        p => vcore::die(&format!("eng_flow does not serve {p}")),
    }
}
