//! C15 — flow-narrowed types contain the runtime type (conditionals, reassignments, and/or).
use crate::flowcheck::*;
use crate::flowgen::*;
use serde_json::json;
use vcore::*;

fn alpha_rich() -> FAlphabet {
    FAlphabet {
        label: "rich: one local; every atom {x, x==nil, x~=nil, type(x)==T, type(x)~=T (5 T), x==lit (4 lit)}, every negated atom, and/or of (negated) core atoms, negated and/or of core atoms; lit ∈ all six".into(),
        conds: conds_full(0),
        lits: LITS.to_vec(),
        or_lits: LITS.to_vec(),
        andor: vec![(Lit::One, Lit::Str), (Lit::Nil, Lit::One), (Lit::False, Lit::Tbl), (Lit::Str, Lit::Nil)],
        andor_conds: conds_full(0),
        vars: vec![0],
        rhs_conds: vec![],
        rhs_lits: vec![],
        if_return: true,
        loop_conds: vec![],
        for_counts: vec![],
        for_in: false,
        break_conds: vec![],
    }
}
fn alpha_mid() -> FAlphabet {
    let mut conds = atoms(0);
    conds.extend(atoms(0).iter().map(|c| Cond::Not(Box::new(c.clone()))));
    FAlphabet {
        label: "mid: one local; every atom and every negated atom (34 conditions); lit ∈ all six".into(),
        conds,
        lits: LITS.to_vec(),
        or_lits: LITS.to_vec(),
        andor: vec![(Lit::One, Lit::Str), (Lit::Nil, Lit::False)],
        andor_conds: core_atoms(0),
        vars: vec![0],
        rhs_conds: vec![],
        rhs_lits: vec![],
        if_return: true,
        loop_conds: vec![],
        for_counts: vec![],
        for_in: false,
        break_conds: vec![],
    }
}
fn alpha_core() -> FAlphabet {
    FAlphabet {
        label: "core: one local; 9 conditions {a, not a, a==nil, a~=nil, type(a)=='string', type(a)~='string', a==false, a and type(a)~='number', a==nil or type(a)=='table'}; lit ∈ {nil,false,1,'s'}".into(),
        conds: conds_core(0),
        lits: vec![Lit::Nil, Lit::False, Lit::One, Lit::Str],
        or_lits: vec![Lit::False, Lit::One],
        andor: vec![(Lit::One, Lit::Str), (Lit::Nil, Lit::One)],
        andor_conds: vec![Cond::Truthy(0), Cond::EqNil(0), Cond::TypeEq(0, Ty::String)],
        vars: vec![0],
        rhs_conds: vec![],
        rhs_lits: vec![],
        if_return: true,
        loop_conds: vec![],
        for_counts: vec![],
        for_in: false,
        break_conds: vec![],
    }
}
/// every literal in every operand position of the and/or right-hand sides, nesting depth ≤ 2,
/// for `local a = R` and for `a = R`
fn alpha_rhs(core: bool) -> FAlphabet {
    let lits: Vec<Lit> = if core { vec![Lit::One, Lit::Tbl, Lit::Nil] } else { LITS.to_vec() };
    let rhs_conds = if core { vec![Cond::Truthy(0)] } else { vec![Cond::Truthy(0), Cond::EqNil(0), Cond::TypeEq(0, Ty::String)] };
    let mut andor = Vec::new();
    for &l1 in &lits {
        for &l2 in &lits {
            andor.push((l1, l2));
        }
    }
    FAlphabet {
        label: if core {
            "rhs-core: one local; [local] a = R with R ∈ {lit, a or lit, c and lit, c and l1 or l2, (c and l1) or l2, a or (a or lit), c and (a or lit), a or (c and lit)}, c = a, lit ∈ {1,{},nil} in every position; if-conditions {a, a==nil}".into()
        } else {
            "rhs: one local; [local] a = R with R ∈ {lit, a or lit, c and lit, c and l1 or l2, (c and l1) or l2, a or (a or lit), c and (a or lit), a or (c and lit)}, c ∈ {a, a==nil, type(a)=='string'}, every one of the six literals in every literal position; if-conditions {a, a==nil, type(a)=='string'}".into()
        },
        conds: if core { vec![Cond::Truthy(0), Cond::EqNil(0)] } else { vec![Cond::Truthy(0), Cond::EqNil(0), Cond::TypeEq(0, Ty::String)] },
        lits: lits.clone(),
        or_lits: lits.clone(),
        andor,
        andor_conds: rhs_conds.clone(),
        vars: vec![0],
        rhs_conds,
        rhs_lits: lits,
        if_return: true,
        loop_conds: vec![],
        for_counts: vec![],
        for_in: false,
        break_conds: vec![],
    }
}
/// the extended right-hand sides over two locals (operands and conditions may name the other local)
fn alpha_rhs_two() -> FAlphabet {
    let mut a = alpha_rhs(true);
    a.label = "rhs-two: two locals a,b; [local] x = R as in rhs-core with the variable operand and the condition ranging over {a,b}; lit ∈ {1,{},nil}; if-conditions {a, b==nil}".into();
    a.vars = vec![0, 1];
    a.rhs_conds = vec![Cond::Truthy(0), Cond::Truthy(1)];
    a.andor_conds = a.rhs_conds.clone();
    a.conds = vec![Cond::Truthy(0), Cond::EqNil(1)];
    a
}
fn alpha_two() -> FAlphabet {
    let mut conds = vec![
        Cond::Truthy(0),
        Cond::Truthy(1),
        Cond::EqNil(1),
        Cond::TypeEq(0, Ty::String),
        Cond::TypeNe(1, Ty::String),
        Cond::And(Box::new(Cond::Truthy(0)), Box::new(Cond::Truthy(1))),
        Cond::Or(Box::new(Cond::Truthy(0)), Box::new(Cond::Truthy(1))),
        Cond::And(Box::new(Cond::TypeEq(0, Ty::String)), Box::new(Cond::EqNil(1))),
        Cond::Or(Box::new(Cond::EqNil(0)), Box::new(Cond::TypeEq(1, Ty::Number))),
    ];
    conds.push(Cond::Not(Box::new(conds[5].clone())));
    FAlphabet {
        label: "two locals a,b: 10 conditions mixing both; lit ∈ {nil,1,'s'}".into(),
        conds: conds.clone(),
        lits: vec![Lit::Nil, Lit::One, Lit::Str],
        or_lits: vec![Lit::One],
        andor: vec![(Lit::One, Lit::Str)],
        andor_conds: vec![Cond::Truthy(1), Cond::EqNil(0)],
        vars: vec![0, 1],
        rhs_conds: vec![],
        rhs_lits: vec![],
        if_return: true,
        loop_conds: vec![],
        for_counts: vec![],
        for_in: false,
        break_conds: vec![],
    }
}

pub fn run(args: &Args) -> ! {
    if let Some(w) = args.replay_witness() {
        let w = if w.get("witness").is_some() { w["witness"].clone() } else { w };
        finish_replay(replay_flow(&w), "C15");
    }
    let dl = args.deadline();
    let mut rep = Report::new("C15", "exploration");
    let mut all = Stats::default();
    let (n_rich, n_mid, n_core, n_two) = args.tier.pick((1, 2, 3, 2), (1, 3, 4, 3));
    let n_rich = args.extra_usize("nrich").unwrap_or(n_rich);
    let n_mid = args.extra_usize("nmid").unwrap_or(n_mid);
    let n_core = args.extra_usize("ncore").unwrap_or(n_core);
    let n_two = args.extra_usize("ntwo").unwrap_or(n_two);
    let n_rhs = args.extra_usize("nrhs").unwrap_or(2);
    let n_rhs_core = args.extra_usize("nrhscore").unwrap_or(args.tier.pick(0, 3));
    let n_rhs_two = args.extra_usize("nrhstwo").unwrap_or(args.tier.pick(0, 2));
    let mut plan: Vec<(&str, FAlphabet, usize)> = Vec::new();
    for n in 1..=n_rich.max(n_core).max(n_two).max(n_mid).max(n_rhs).max(n_rhs_core).max(n_rhs_two) {
        if n <= n_rhs {
            plan.push(("rhs", alpha_rhs(false), n));
        }
        if n <= n_rhs_core {
            plan.push(("rhs-core", alpha_rhs(true), n));
        }
        if n <= n_rhs_two {
            plan.push(("rhs-two", alpha_rhs_two(), n));
        }
        if n <= n_rich {
            plan.push(("rich", alpha_rich(), n));
        }
        if n <= n_mid {
            plan.push(("mid", alpha_mid(), n));
        }
        if n <= n_two {
            plan.push(("two", alpha_two(), n));
        }
        if n <= n_core {
            plan.push(("core", alpha_core(), n));
        }
    }
    let mut done = Vec::new();
    let mut exhaustive = true;
    let mut labels = std::collections::BTreeMap::new();
    for (label, alpha, n) in plan {
        if dl.expired() {
            exhaustive = false;
            break;
        }
        labels.insert(label, alpha.label.clone());
        let sp = FSpace::new(alpha, 2, n);
        let total = sp.total;
        let (st, ok) = par_range(total, args.threads, &dl, |i, st| {
            let prog = sp.program(i);
            judge_program(&prog, st, i % (total / 4 + 1) == total / 9, &|_| true, &|_| true);
        });
        all.merge(st);
        done.push(json!({"alphabet": label, "n": n, "programs": total, "completed": ok}));
        if !ok {
            exhaustive = false;
            break;
        }
    }
    rep.rule = format!(
        "every program `local a = IN() [local b = IN()]` + exactly k statements, k=1..n, nesting ≤ 2, from {{[local] x = R; if c then B end; if c then B else B end; if c then return end}} with R ∈ {{lit, x or lit, c and lit or lit}} over four alphabets (rich n≤{n_rich}, mid n≤{n_mid}, two-locals n≤{n_two}, core n≤{n_core}) and with the nested/parenthesised and-or right-hand sides, every literal in every operand position, for both `local x = R` and `x = R` (rhs n≤{n_rhs}, rhs-core n≤{n_rhs_core}, rhs-two n≤{n_rhs_two}); alphabets: {labels:?}; a probe P(i,x) stands at the start of every block and after every statement for every local; IN() is declared `nil|boolean|integer|string|table` and the program is executed in the luars VM once per combination of runtime values {{nil,true,false,1,'s',{{}}}} of the IN() calls; for every reached probe, runtime type(x) must be in γ(SemanticModel::infer_expr(x)) (γ: any/unknown/named types → every type, consts → base type, unions → union, never → ∅); non-trivial = at least one statement"
    );
    rep.exhaustive = exhaustive;
    rep.bounds = json!({"spaces": done, "nesting": 2, "inputs_per_local": 6, "wall_cap_s": args.wall_cap_s, "wall_cap_hit": dl.was_hit()});
    rep.assumptions = vec![
        "the luars VM executes this fragment (assignment, if, and/or/not, ==, type()) as Lua does".into(),
        "γ is checked at the granularity of Lua type names (true vs false, 1 vs 2 are not distinguished)".into(),
        "probes whose argument has no inferred type are undecided".into(),
    ];
    rep.finish(args, all)
}
