//! C41 — narrowing after loops accounts for the loop body. C15's machinery with loops, judged at
//! the probes that are not inside a loop body, plus the diagnostic clause on `while not v do v = f() end`.
use crate::flowcheck::*;
use crate::flowgen::*;
use crate::{vm, ws};
use serde_json::{Value, json};
use vcore::*;

fn alpha_loops() -> FAlphabet {
    let loop_conds = vec![
        Cond::Truthy(0),
        Cond::Not(Box::new(Cond::Truthy(0))),
        Cond::EqNil(0),
        Cond::NeNil(0),
        Cond::TypeEq(0, Ty::String),
        Cond::TypeNe(0, Ty::String),
    ];
    FAlphabet {
        label: "loops: one local; while/repeat conditions {a, not a, a==nil, a~=nil, type(a)=='string', type(a)~='string'}; for i=1,N (N∈{0,2}); for _ in ITER() (0 or 2 rounds); if-conditions {a, a==nil, type(a)=='string'}; break conditions {a, a==nil}; lit ∈ {nil,false,1,'s'}".into(),
        conds: vec![Cond::Truthy(0), Cond::EqNil(0), Cond::TypeEq(0, Ty::String)],
        lits: vec![Lit::Nil, Lit::False, Lit::One, Lit::Str],
        or_lits: vec![],
        andor: vec![],
        andor_conds: vec![],
        vars: vec![0],
        rhs_conds: vec![],
        rhs_lits: vec![],
        if_return: false,
        loop_conds,
        for_counts: vec![0, 2],
        for_in: true,
        break_conds: vec![Cond::Truthy(0), Cond::EqNil(0)],
    }
}

// ---------------------------------------------------------------- the diagnostic clause

const INITS: [&str; 3] = [" = nil", " = OS()", ""];
const LOOPC: [&str; 2] = ["not v", "v == nil"];
const RHS: [&str; 4] = ["'x'", "S()", "OS()", "OS() or 'y'"];
const USES: [&str; 4] = ["v:upper()", "local n = v:len()", "local s = v .. 'z'", "local n = #v"];
const RADIX: [usize; 4] = [INITS.len(), LOOPC.len(), RHS.len(), USES.len()];

fn diag_index(d: [usize; 4]) -> usize {
    ((d[3] * RADIX[2] + d[2]) * RADIX[1] + d[1]) * RADIX[0] + d[0]
}
fn diag_program(i: usize) -> (String, [usize; 4]) {
    let d = [i % RADIX[0], i / RADIX[0] % RADIX[1], i / (RADIX[0] * RADIX[1]) % RADIX[2], i / (RADIX[0] * RADIX[1] * RADIX[2]) % RADIX[3]];
    (format!("local v{}\nwhile {} do\nv = {}\nend\n{}\n", INITS[d[0]], LOOPC[d[1]], RHS[d[2]], USES[d[3]]), d)
}
const N_DIAG: usize = RADIX[0] * RADIX[1] * RADIX[2] * RADIX[3];

/// diagnostics (code, message, is-exactly-on-the-token-v) on the last line of the program
fn use_diags(text: &str) -> Vec<(String, String, bool)> {
    let last = text.lines().last().unwrap_or("");
    let last_line = text.lines().count() as u32 - 1;
    // the use statements mention `v` exactly once: `v:`, `v .. `, `#v`
    let vcol = last.char_indices().find(|(i, c)| *c == 'v' && !last[..*i].ends_with(|p: char| p.is_alphanumeric()) && !last[*i + 1..].starts_with(|n: char| n.is_alphanumeric())).map(|(i, _)| i as u32);
    ws::with_model_defs(text, |w, fid, _| {
        let ds = w.analysis.diagnose_file(fid, tokio_util::sync::CancellationToken::new()).unwrap_or_default();
        ds.into_iter()
            .filter(|d| d.range.start.line == last_line)
            .filter_map(|d| match d.code {
                Some(lsp_types::NumberOrString::String(c)) => {
                    let on_v = Some(d.range.start.character) == vcol && d.range.end.line == last_line && Some(d.range.end.character) == vcol.map(|c| c + 1);
                    Some((c, d.message, on_v))
                }
                _ => None,
            })
            .collect()
    })
}

fn diag_check(text: &str) -> Result<Vec<(String, String)>, String> {
    // "correct code": the program must run to completion without a runtime error for every input
    for l in INPUT_LITS {
        if !text.contains("IN()") && l != Lit::Nil {
            continue;
        }
        let run = execute(text, &[l], 0);
        match run.end {
            vm::RunEnd::Done => {}
            // e.g. `v .. 'z'` on a table: the code is not correct for that input, the clause does not apply
            vm::RunEnd::Error(e) => return Err(e),
            vm::RunEnd::Budget => return Err("budget".into()),
        }
    }
    // a nil diagnostic placed exactly on the token `v`, or any diagnostic of the use line that says `v`
    // (or an expression on it) has type `never`
    let bad = use_diags(text).into_iter().filter(|(c, m, on_v)| (c == "need-check-nil" && *on_v) || m.contains("`never`")).map(|(c, m, _)| (c, m)).collect();
    Ok(bad)
}

pub fn replay_diag(w: &Value) -> Option<Violation> {
    let src = w["src"].as_str()?;
    match diag_check(src) {
        Ok(bad) if !bad.is_empty() => Some(Violation { signature: format!("diag:{}", bad[0].0), witness: w.clone(), detail: format!("{bad:?}") }),
        _ => None,
    }
}

pub fn run(args: &Args) -> ! {
    if let Some(w) = args.replay_witness() {
        let w = if w.get("witness").is_some() { w["witness"].clone() } else { w };
        if w.get("_probe").is_some() {
            finish_replay(replay_flow(&w), "C41");
        }
        finish_replay(replay_diag(&w), "C41");
    }
    let dl = args.deadline();
    let mut rep = Report::new("C41", "exploration");
    let mut all = Stats::default();

    // (1) the diagnostic clause
    let (st, diag_done) = par_range(N_DIAG as u64, args.threads, &dl, |i, st| {
        let (text, d) = diag_program(i as usize);
        st.eval(true);
        match catch(|| diag_check(&text)) {
            Err(p) => {
                ws::reset();
                st.violation(Violation { signature: format!("panic:{}", panic_site(&p)), witness: json!({"src": text}), detail: p });
            }
            Ok(Err(_)) => {
                st.outcome("shape-not-correct-code(skipped)");
                st.undecided += 1;
            }
            Ok(Ok(bad)) if bad.is_empty() => st.outcome("shape-clean"),
            Ok(Ok(bad)) => {
                st.outcome("shape-with-nil/never-diagnostic");
                // minimise within the family: move every coordinate to its first value while the same code is reported
                let code = bad[0].0.clone();
                let mut cur = d;
                loop {
                    let mut progressed = false;
                    for k in 0..4 {
                        for v in 0..cur[k] {
                            let mut c = cur;
                            c[k] = v;
                            let (t2, _) = diag_program(diag_index(c));
                            if matches!(diag_check(&t2), Ok(b) if b.iter().any(|x| x.0 == code)) {
                                cur = c;
                                progressed = true;
                                break;
                            }
                        }
                    }
                    if !progressed {
                        break;
                    }
                }
                let (t2, _) = diag_program(diag_index(cur));
                let msgs = diag_check(&t2).unwrap_or_default();
                st.violation(Violation { signature: format!("diag:{code}"), witness: json!({"src": t2}), detail: format!("correct code (runs without error in the VM) is reported: {msgs:?}") });
            }
        }
        if i % 20 == 3 {
            st.sample(|| json!({"phase": "diagnostic-clause", "program": text}));
        }
    });
    all.merge(st);

    // (2) after-loop probes
    let n_loops = args.extra_usize("n").unwrap_or(args.tier.pick(3, 4));
    let mut done = Vec::new();
    let mut exhaustive = diag_done;
    let judge = |p: &Probe| !p.in_loop;
    let keep = |b: &FBlock| has_loop(b);
    for n in 1..=n_loops {
        if dl.expired() {
            exhaustive = false;
            break;
        }
        let sp = FSpace::new(alpha_loops(), 2, n);
        let total = sp.total;
        let (st, ok) = par_range(total, args.threads, &dl, |i, st| {
            let prog = sp.program(i);
            if !has_loop(&prog) {
                return; // no loop: C15's domain
            }
            judge_program(&prog, st, i % (total / 4 + 1) == total / 7, &judge, &keep);
        });
        all.merge(st);
        done.push(json!({"n": n, "programs_enumerated": total, "completed": ok}));
        if !ok {
            exhaustive = false;
            break;
        }
    }
    rep.rule = format!(
        "(1) all {N_DIAG} programs `local v[ = I]; while C do v = R end; U` (I∈{INITS:?}, C∈{LOOPC:?}, R∈{RHS:?}, U∈{USES:?}) that run without error in the luars VM for every input must get no need-check-nil / never-typed diagnostic on the use line; (2) every program `local a = IN()` + exactly k statements, k=1..{n_loops}, nesting ≤ 2, containing at least one loop, over alphabet '{}', probes P(i,a) at every block start and after every statement, executed once per runtime value of IN() (and per ITER() round count 0/2); every reached probe that is not inside a loop body must hold a value whose type is in γ(inferred type); runs are cut after 200 probe hits (non-terminating loops) and judged up to the cut; non-trivial = every evaluated case",
        alpha_loops().label
    );
    rep.exhaustive = exhaustive;
    rep.bounds = json!({"diag_shapes": N_DIAG, "spaces": done, "nesting": 2, "probe_budget": 200, "wall_cap_s": args.wall_cap_s, "wall_cap_hit": dl.was_hit()});
    rep.assumptions = vec![
        "the luars VM executes this fragment as Lua does".into(),
        "probes inside loop bodies are not judged (the statement speaks about the state after the loop); their mismatches are counted as undecided".into(),
        "γ works at the granularity of Lua type names".into(),
    ];
    rep.finish(args, all)
}
