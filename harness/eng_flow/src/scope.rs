//! C13 generator: our own AST of scoping programs, its enumeration by size, a renderer that records
//! the byte offset of every name token together with the declaration an independent resolver
//! (Lua manual §3.5) selects for it, and an instrumented rendering that lets the luars VM — a
//! second, unrelated implementation of Lua's scoping — say which declaration each use denotes.
use std::fmt::Write;

pub const NAMES: [&str; 3] = ["a", "b", "self"];

#[derive(Clone, Debug, PartialEq, Eq, Hash)]
pub enum Ex {
    /// `x`
    Name(u8),
    /// `x+y`
    Add(u8, u8),
    /// `x(y)`
    Call(u8, u8),
}

#[derive(Clone, Debug, PartialEq, Eq, Hash)]
pub enum St {
    /// `local x[,y] = e[,e]`
    Local(Vec<u8>, Vec<Ex>),
    /// `x[,y] = e`
    Assign(Vec<u8>, Ex),
    /// `local function x(ps) B end`
    LocalFn(u8, Vec<u8>, Vec<St>),
    /// `function x(ps) B end`
    Fn(u8, Vec<u8>, Vec<St>),
    /// `local x = function(ps) B end`
    LocalClosure(u8, Vec<u8>, Vec<St>),
    /// `for x = e, e do B end`
    ForNum(u8, Ex, Ex, Vec<St>),
    /// `for x[, y] in e do B end`
    ForIn(Vec<u8>, Ex, Vec<St>),
    /// `repeat B until e`
    Repeat(Vec<St>, Ex),
    /// `while e do B end`
    While(Ex, Vec<St>),
    /// `do B end`
    Do(Vec<St>),
    /// `if e then B else B end`
    If(Ex, Vec<St>, Vec<St>),
    /// `return e` (last statement of a block only)
    Return(Ex),
    /// `function t.f(ps) B end`
    Field(u8, Vec<u8>, Vec<St>),
    /// `function t:f(ps) B end` (implicit `self`)
    Method(u8, Vec<u8>, Vec<St>),
}

pub type Block = Vec<St>;

impl St {
    pub fn size(&self) -> usize {
        1 + self.blocks().iter().map(|b| block_size(b)).sum::<usize>()
    }
    pub fn blocks(&self) -> Vec<&Block> {
        match self {
            St::LocalFn(_, _, b) | St::Fn(_, _, b) | St::LocalClosure(_, _, b) | St::ForNum(_, _, _, b) | St::ForIn(_, _, b)
            | St::Repeat(b, _) | St::While(_, b) | St::Do(b) | St::Field(_, _, b) | St::Method(_, _, b) => vec![b],
            St::If(_, b1, b2) => vec![b1, b2],
            _ => vec![],
        }
    }
    pub fn blocks_mut(&mut self) -> Vec<&mut Block> {
        match self {
            St::LocalFn(_, _, b) | St::Fn(_, _, b) | St::LocalClosure(_, _, b) | St::ForNum(_, _, _, b) | St::ForIn(_, _, b)
            | St::Repeat(b, _) | St::While(_, b) | St::Do(b) | St::Field(_, _, b) | St::Method(_, _, b) => vec![b],
            St::If(_, b1, b2) => vec![b1, b2],
            _ => vec![],
        }
    }
}
pub fn block_size(b: &[St]) -> usize {
    b.iter().map(|s| s.size()).sum()
}
/// `return` only as the last statement of its block
pub fn valid(b: &[St]) -> bool {
    b.iter().enumerate().all(|(i, s)| (!matches!(s, St::Return(_)) || i + 1 == b.len()) && s.blocks().iter().all(|x| valid(x)))
}

// ------------------------------------------------------------------ alphabets

#[derive(Clone, Debug)]
pub struct Alphabet {
    pub label: &'static str,
    /// expression forms outside method bodies
    pub exprs: Vec<Ex>,
    /// extra expression forms inside a method body (mention `self`)
    pub self_exprs: Vec<Ex>,
    /// parameter lists
    pub params: Vec<Vec<u8>>,
}

pub fn alphabet_full() -> Alphabet {
    Alphabet {
        label: "full: e in {a, a+b, b(a)} (+ self+a inside methods), parameter lists {(a),(b),(a,a)}",
        exprs: vec![Ex::Name(0), Ex::Add(0, 1), Ex::Call(1, 0)],
        self_exprs: vec![Ex::Add(2, 0)],
        params: vec![vec![0], vec![1], vec![0, 0]],
    }
}
pub fn alphabet_core() -> Alphabet {
    Alphabet {
        label: "core: e in {a+b} (+ self+b inside methods), parameter lists {(a),(b,b)}",
        exprs: vec![Ex::Add(0, 1)],
        self_exprs: vec![Ex::Add(2, 1)],
        params: vec![vec![0], vec![1, 1]],
    }
}

// ------------------------------------------------------------------ enumeration

/// a compound statement with its block(s) left open
#[derive(Clone, Debug)]
enum Hdr {
    LocalFn(u8, Vec<u8>),
    Fn(u8, Vec<u8>),
    LocalClosure(u8, Vec<u8>),
    ForNum(u8, Ex),
    ForIn(Vec<u8>, Ex),
    Repeat(Ex),
    While(Ex),
    Do,
    If(Ex),
    Field(u8, Vec<u8>),
    Method(u8, Vec<u8>),
}
impl Hdr {
    fn fill(&self, b: Block, b2: Block) -> St {
        match self.clone() {
            Hdr::LocalFn(x, p) => St::LocalFn(x, p, b),
            Hdr::Fn(x, p) => St::Fn(x, p, b),
            Hdr::LocalClosure(x, p) => St::LocalClosure(x, p, b),
            Hdr::ForNum(x, e) => St::ForNum(x, e.clone(), e, b),
            Hdr::ForIn(xs, e) => St::ForIn(xs, e, b),
            Hdr::Repeat(e) => St::Repeat(b, e),
            Hdr::While(e) => St::While(e, b),
            Hdr::Do => St::Do(b),
            Hdr::If(e) => St::If(e, b, b2),
            Hdr::Field(t, p) => St::Field(t, p, b),
            Hdr::Method(t, p) => St::Method(t, p, b),
        }
    }
}

fn exprs_of(a: &Alphabet, in_method: bool) -> Vec<Ex> {
    let mut v = a.exprs.clone();
    if in_method {
        v.extend(a.self_exprs.iter().cloned());
    }
    v
}
fn leaves(a: &Alphabet, in_method: bool) -> Vec<St> {
    let mut v = Vec::new();
    for e in exprs_of(a, in_method) {
        for x in 0..2u8 {
            v.push(St::Local(vec![x], vec![e.clone()]));
            v.push(St::Assign(vec![x], e.clone()));
            for y in 0..2u8 {
                v.push(St::Local(vec![x, y], vec![e.clone(), e.clone()]));
                v.push(St::Assign(vec![x, y], e.clone()));
            }
        }
        v.push(St::Return(e));
    }
    v
}
fn headers(a: &Alphabet, in_method: bool) -> Vec<Hdr> {
    let mut v = Vec::new();
    for x in 0..2u8 {
        for p in &a.params {
            v.push(Hdr::LocalFn(x, p.clone()));
            v.push(Hdr::Fn(x, p.clone()));
            v.push(Hdr::LocalClosure(x, p.clone()));
            v.push(Hdr::Field(x, p.clone()));
            v.push(Hdr::Method(x, p.clone()));
        }
    }
    for e in exprs_of(a, in_method) {
        for x in 0..2u8 {
            v.push(Hdr::ForNum(x, e.clone()));
            for y in 0..2u8 {
                v.push(Hdr::ForIn(vec![x, y], e.clone()));
            }
        }
        v.push(Hdr::Repeat(e.clone()));
        v.push(Hdr::While(e.clone()));
        v.push(Hdr::If(e));
    }
    v.push(Hdr::Do);
    v
}

/// all statements / blocks of each exact size, for each remaining nesting depth
struct Tables {
    /// st[d][k]
    st: Vec<Vec<Vec<St>>>,
    /// bl[d][k]
    bl: Vec<Vec<Vec<Block>>>,
}

fn build(a: &Alphabet, in_method: bool, max_depth: usize, max_size: usize, method: Option<&Tables>) -> Tables {
    let lv = leaves(a, in_method);
    let hd = headers(a, in_method);
    let mut t = Tables { st: vec![], bl: vec![] };
    for d in 0..=max_depth {
        let mut sd: Vec<Vec<St>> = vec![vec![]];
        let mut bd: Vec<Vec<Block>> = vec![vec![vec![]]];
        for k in 1..=max_size {
            let mut sk: Vec<St> = Vec::new();
            if k == 1 {
                sk.extend(lv.iter().cloned());
                for h in &hd {
                    sk.push(h.fill(vec![], vec![]));
                }
            } else if d >= 1 {
                for h in &hd {
                    let inner: &Vec<Vec<Block>> = match (h, method) {
                        (Hdr::Method(..), Some(m)) => &m.bl[d - 1],
                        _ => &t.bl[d - 1],
                    };
                    if let Hdr::If(_) = h {
                        for i in 0..k {
                            for b1 in &inner[i] {
                                for b2 in &inner[k - 1 - i] {
                                    sk.push(h.fill(b1.clone(), b2.clone()));
                                }
                            }
                        }
                    } else {
                        for b in &inner[k - 1] {
                            sk.push(h.fill(b.clone(), vec![]));
                        }
                    }
                }
            }
            sd.push(sk);
            let mut bk: Vec<Block> = Vec::new();
            for j in 1..=k {
                for s in &sd[j] {
                    if matches!(s, St::Return(_)) && k != j {
                        continue;
                    }
                    for rest in &bd[k - j] {
                        let mut b = Vec::with_capacity(1 + rest.len());
                        b.push(s.clone());
                        b.extend(rest.iter().cloned());
                        bk.push(b);
                    }
                }
            }
            bd.push(bk);
        }
        t.st.push(sd);
        t.bl.push(bd);
    }
    t
}

/// The space of top-level programs of exactly `n` statements (nesting ≤ `depth`) over one alphabet,
/// addressable by index so that it can be sharded without being materialised.
pub struct Space {
    pub n: usize,
    depth: usize,
    normal: Tables,
    method: Tables,
    hdrs: Vec<Hdr>,
    /// (number of programs, segment)
    segs: Vec<(u64, Seg)>,
    pub total: u64,
}
#[derive(Clone, Debug)]
enum Seg {
    /// first statement of size j (< n) from st[depth][j], rest from bl[depth][n-j]
    Seq(usize),
    /// the whole program is one leaf / empty compound (n == 1)
    Single,
    /// one compound statement: header h with a body of size n-1
    Nest(usize),
    /// `if` header h with bodies of sizes (i, n-1-i)
    NestIf(usize, usize),
}

impl Space {
    pub fn new(alpha: Alphabet, depth: usize, n: usize) -> Space {
        let inner = n.saturating_sub(1).max(1);
        let method = build(&alpha, true, depth, inner, None);
        let normal = build(&alpha, false, depth, inner, Some(&method));
        let hdrs = headers(&alpha, false);
        let mut segs = Vec::new();
        if n == 1 {
            segs.push((normal.st[depth][1].len() as u64, Seg::Single));
        } else {
            for j in 1..n {
                let firsts = normal.st[depth][j].iter().filter(|s| !matches!(s, St::Return(_))).count() as u64;
                segs.push((firsts * normal.bl[depth][n - j].len() as u64, Seg::Seq(j)));
            }
            if depth >= 1 {
                for (hi, h) in hdrs.iter().enumerate() {
                    let inner: &Vec<Vec<Block>> = if matches!(h, Hdr::Method(..)) { &method.bl[depth - 1] } else { &normal.bl[depth - 1] };
                    if let Hdr::If(_) = h {
                        for i in 0..n {
                            segs.push(((inner[i].len() * inner[n - 1 - i].len()) as u64, Seg::NestIf(hi, i)));
                        }
                    } else {
                        segs.push((inner[n - 1].len() as u64, Seg::Nest(hi)));
                    }
                }
            }
        }
        let total = segs.iter().map(|s| s.0).sum();
        Space { n, depth, normal, method, hdrs, segs, total }
    }

    pub fn program(&self, mut idx: u64) -> Block {
        let d = self.depth;
        for (cnt, seg) in &self.segs {
            if idx >= *cnt {
                idx -= cnt;
                continue;
            }
            return match seg {
                Seg::Single => vec![self.normal.st[d][1][idx as usize].clone()],
                Seg::Seq(j) => {
                    let rests = &self.normal.bl[d][self.n - j];
                    let fi = (idx / rests.len() as u64) as usize;
                    let ri = (idx % rests.len() as u64) as usize;
                    let first = self.normal.st[d][*j].iter().filter(|s| !matches!(s, St::Return(_))).nth(fi).expect("index in range");
                    let mut b = vec![first.clone()];
                    b.extend(rests[ri].iter().cloned());
                    b
                }
                Seg::Nest(hi) => {
                    let h = &self.hdrs[*hi];
                    let inner = if matches!(h, Hdr::Method(..)) { &self.method.bl[d - 1] } else { &self.normal.bl[d - 1] };
                    vec![h.fill(inner[self.n - 1][idx as usize].clone(), vec![])]
                }
                Seg::NestIf(hi, i) => {
                    let inner = &self.normal.bl[d - 1];
                    let n2 = inner[self.n - 1 - i].len() as u64;
                    vec![self.hdrs[*hi].fill(inner[*i][(idx / n2) as usize].clone(), inner[self.n - 1 - i][(idx % n2) as usize].clone())]
                }
            };
        }
        panic!("program index out of range")
    }
}

// ------------------------------------------------------------------ rendering + resolver

#[derive(Clone, Copy, Debug, PartialEq, Eq)]
pub enum DeclKind {
    Local,
    Param,
    ForNum,
    ForIn,
    LocalFn,
    ImplicitSelf,
}
impl DeclKind {
    pub fn name(self) -> &'static str {
        match self {
            DeclKind::Local => "local",
            DeclKind::Param => "param",
            DeclKind::ForNum => "for-num-var",
            DeclKind::ForIn => "for-in-var",
            DeclKind::LocalFn => "local-function",
            DeclKind::ImplicitSelf => "implicit-self",
        }
    }
}
#[derive(Clone, Debug)]
pub struct DeclSite {
    /// byte offset of the declaring name token (usize::MAX for the implicit self)
    pub offset: usize,
    pub name: u8,
    pub kind: DeclKind,
}
#[derive(Clone, Copy, Debug, PartialEq, Eq)]
pub enum Role {
    Read,
    AssignTarget,
    FuncName,
}
#[derive(Clone, Debug)]
pub struct UseSite {
    pub offset: usize,
    pub name: u8,
    pub role: Role,
    /// declaration (index into `decls`) the resolver selects; None = global
    pub expect: Option<usize>,
}
#[derive(Clone, Debug, Default)]
pub struct Rendered {
    pub text: String,
    /// the same program instrumented for the VM (see module doc)
    pub vm_text: String,
    pub decls: Vec<DeclSite>,
    pub uses: Vec<UseSite>,
    pub if_sites: usize,
    pub while_sites: usize,
}

struct R {
    out: Rendered,
    /// active local variables, innermost last: (name, decl index)
    env: Vec<(u8, usize)>,
}

impl R {
    fn decl(&mut self, name: u8, kind: DeclKind, offset: usize) -> usize {
        self.out.decls.push(DeclSite { offset, name, kind });
        self.out.decls.len() - 1
    }
    fn lookup(&self, name: u8) -> Option<usize> {
        self.env.iter().rev().find(|(n, _)| *n == name).map(|(_, d)| *d)
    }
    /// emit a use of `name` at the current end of the plain text; returns the use index
    fn use_here(&mut self, name: u8, role: Role) -> usize {
        let expect = self.lookup(name);
        self.out.uses.push(UseSite { offset: self.out.text.len(), name, role, expect });
        self.out.text.push_str(NAMES[name as usize]);
        self.out.uses.len() - 1
    }
    /// emit a declaring name token in the plain text; the declaration becomes *visible* only when
    /// the caller pushes it onto `env`
    fn decl_here(&mut self, name: u8, kind: DeclKind) -> usize {
        let off = self.out.text.len();
        self.out.text.push_str(NAMES[name as usize]);
        self.decl(name, kind, off)
    }
    fn expr(&mut self, e: &Ex) {
        match e {
            Ex::Name(x) => {
                let k = self.use_here(*x, Role::Read);
                let _ = write!(self.out.vm_text, "U({k},{})", NAMES[*x as usize]);
            }
            Ex::Add(x, y) => {
                let k = self.use_here(*x, Role::Read);
                self.out.text.push('+');
                let k2 = self.use_here(*y, Role::Read);
                let _ = write!(self.out.vm_text, "ADD(U({k},{}),U({k2},{}))", NAMES[*x as usize], NAMES[*y as usize]);
            }
            Ex::Call(f, y) => {
                let k = self.use_here(*f, Role::Read);
                self.out.text.push('(');
                let k2 = self.use_here(*y, Role::Read);
                self.out.text.push(')');
                let _ = write!(self.out.vm_text, "CALL(U({k},{}),U({k2},{}))", NAMES[*f as usize], NAMES[*y as usize]);
            }
        }
    }
    /// `(p, q) B end` of a function; `self_decl`: implicit self of a method
    fn func_tail(&mut self, ps: &[u8], body: &[St], implicit_self: bool) {
        let mark = self.env.len();
        let mut ids: Vec<usize> = Vec::new();
        self.out.vm_text.push_str("F(function(");
        if implicit_self {
            let d = self.decl(2, DeclKind::ImplicitSelf, usize::MAX);
            self.env.push((2, d));
            ids.push(d);
            self.out.vm_text.push_str("self");
            if !ps.is_empty() {
                self.out.vm_text.push(',');
            }
        }
        self.out.text.push('(');
        for (i, p) in ps.iter().enumerate() {
            if i > 0 {
                self.out.text.push_str(", ");
                self.out.vm_text.push(',');
            }
            let d = self.decl_here(*p, DeclKind::Param);
            self.out.vm_text.push_str(NAMES[*p as usize]);
            ids.push(d);
        }
        // parameters become visible together, in order (the last of two equal names wins)
        let first = self.out.decls.len() - ps.len();
        for (i, p) in ps.iter().enumerate() {
            self.env.push((*p, first + i));
        }
        self.out.text.push_str(")\n");
        self.out.vm_text.push_str(")\n");
        self.block(body);
        self.out.text.push_str("end\n");
        self.out.vm_text.push_str("end");
        for d in ids {
            let _ = write!(self.out.vm_text, ",{}", d + 1);
        }
        self.out.vm_text.push(')');
        self.env.truncate(mark);
    }
    fn scoped_block(&mut self, b: &[St]) {
        let mark = self.env.len();
        self.block(b);
        self.env.truncate(mark);
    }
    fn block(&mut self, b: &[St]) {
        for s in b {
            self.stat(s);
        }
    }
    fn stat(&mut self, s: &St) {
        match s {
            St::Local(xs, es) => {
                // plain: local x, y = e1, e2        vm: local x, y = T(id, e1'), T(id, e2')
                self.out.text.push_str("local ");
                self.out.vm_text.push_str("local ");
                let mut ds = Vec::new();
                for (i, x) in xs.iter().enumerate() {
                    if i > 0 {
                        self.out.text.push_str(", ");
                        self.out.vm_text.push(',');
                    }
                    ds.push(self.decl_here(*x, DeclKind::Local));
                    self.out.vm_text.push_str(NAMES[*x as usize]);
                }
                self.out.text.push_str(" = ");
                self.out.vm_text.push_str(" = ");
                for (i, e) in es.iter().enumerate() {
                    if i > 0 {
                        self.out.text.push_str(", ");
                        self.out.vm_text.push(',');
                    }
                    let _ = write!(self.out.vm_text, "T({},", ds[i] + 1);
                    self.expr(e); // resolved before the new locals are visible
                    self.out.vm_text.push(')');
                }
                for (i, x) in xs.iter().enumerate() {
                    self.env.push((*x, ds[i]));
                }
                self.out.text.push('\n');
                self.out.vm_text.push('\n');
            }
            St::Assign(xs, e) => {
                for (i, x) in xs.iter().enumerate() {
                    if i > 0 {
                        self.out.text.push_str(", ");
                    }
                    let k = self.use_here(*x, Role::AssignTarget);
                    let _ = writeln!(self.out.vm_text, "SET({k},{})", NAMES[*x as usize]);
                }
                self.out.text.push_str(" = ");
                self.out.vm_text.push_str("EVAL(");
                self.expr(e);
                self.out.text.push('\n');
                self.out.vm_text.push_str(")\n");
            }
            St::LocalFn(x, ps, b) => {
                // manual §3.4.11: `local function f` ≡ `local f; f = function ... end`
                self.out.text.push_str("local function ");
                let d = self.decl_here(*x, DeclKind::LocalFn);
                let _ = writeln!(self.out.vm_text, "local {} = {}", NAMES[*x as usize], d + 1);
                self.env.push((*x, d));
                self.func_tail(ps, b, false);
                self.out.vm_text.push('\n');
            }
            St::Fn(x, ps, b) => {
                self.out.text.push_str("function ");
                let k = self.use_here(*x, Role::FuncName);
                let _ = writeln!(self.out.vm_text, "SET({k},{})", NAMES[*x as usize]);
                self.func_tail(ps, b, false);
                self.out.vm_text.push('\n');
            }
            St::LocalClosure(x, ps, b) => {
                self.out.text.push_str("local ");
                let d = self.decl_here(*x, DeclKind::Local);
                self.out.text.push_str(" = function");
                let _ = write!(self.out.vm_text, "local {} = T({},", NAMES[*x as usize], d + 1);
                self.func_tail(ps, b, false);
                self.out.vm_text.push_str(")\n");
                self.env.push((*x, d));
            }
            St::ForNum(x, e1, e2, b) => {
                self.out.text.push_str("for ");
                let d = self.decl_here(*x, DeclKind::ForNum);
                self.out.text.push_str(" = ");
                let _ = write!(self.out.vm_text, "for {} = H({},", NAMES[*x as usize], d + 1);
                self.expr(e1);
                self.out.text.push_str(", ");
                let _ = write!(self.out.vm_text, "),H({},", d + 1);
                self.expr(e2);
                self.out.text.push_str(" do\n");
                self.out.vm_text.push_str(") do\n");
                let mark = self.env.len();
                self.env.push((*x, d));
                self.block(b);
                self.env.truncate(mark);
                self.out.text.push_str("end\n");
                self.out.vm_text.push_str("end\n");
            }
            St::ForIn(xs, e, b) => {
                self.out.text.push_str("for ");
                self.out.vm_text.push_str("for ");
                let mut ds = Vec::new();
                for (i, x) in xs.iter().enumerate() {
                    if i > 0 {
                        self.out.text.push_str(", ");
                        self.out.vm_text.push(',');
                    }
                    ds.push(self.decl_here(*x, DeclKind::ForIn));
                    self.out.vm_text.push_str(NAMES[*x as usize]);
                }
                self.out.text.push_str(" in ");
                let _ = write!(self.out.vm_text, " in IT({},{},", ds[0] + 1, ds.get(1).map(|d| d + 1).unwrap_or(0));
                self.expr(e);
                self.out.text.push_str(" do\n");
                self.out.vm_text.push_str(") do\n");
                let mark = self.env.len();
                for (i, x) in xs.iter().enumerate() {
                    self.env.push((*x, ds[i]));
                }
                self.block(b);
                self.env.truncate(mark);
                self.out.text.push_str("end\n");
                self.out.vm_text.push_str("end\n");
            }
            St::Repeat(b, e) => {
                self.out.text.push_str("repeat\n");
                self.out.vm_text.push_str("repeat\n");
                let mark = self.env.len();
                self.block(b);
                // the condition sees the body's locals
                self.out.text.push_str("until ");
                self.out.vm_text.push_str("until TRUE(");
                self.expr(e);
                self.env.truncate(mark);
                self.out.text.push('\n');
                self.out.vm_text.push_str(")\n");
            }
            St::While(e, b) => {
                self.out.text.push_str("while ");
                let _ = write!(self.out.vm_text, "while W({},", self.out.while_sites + 1);
                self.out.while_sites += 1;
                self.expr(e);
                self.out.text.push_str(" do\n");
                self.out.vm_text.push_str(") do\n");
                self.scoped_block(b);
                self.out.text.push_str("end\n");
                self.out.vm_text.push_str("end\n");
            }
            St::Do(b) => {
                self.out.text.push_str("do\n");
                self.out.vm_text.push_str("do\n");
                self.scoped_block(b);
                self.out.text.push_str("end\n");
                self.out.vm_text.push_str("end\n");
            }
            St::If(e, b1, b2) => {
                self.out.text.push_str("if ");
                let _ = write!(self.out.vm_text, "if C({},", self.out.if_sites + 1);
                self.out.if_sites += 1;
                self.expr(e);
                self.out.text.push_str(" then\n");
                self.out.vm_text.push_str(") then\n");
                self.scoped_block(b1);
                self.out.text.push_str("else\n");
                self.out.vm_text.push_str("else\n");
                self.scoped_block(b2);
                self.out.text.push_str("end\n");
                self.out.vm_text.push_str("end\n");
            }
            St::Return(e) => {
                // `return` has no scoping effect; the VM rendering only evaluates the expression so that
                // the statements after the enclosing block are still executed
                self.out.text.push_str("return ");
                self.out.vm_text.push_str("EVAL(");
                self.expr(e);
                self.out.text.push('\n');
                self.out.vm_text.push_str(")\n");
            }
            St::Field(t, ps, b) | St::Method(t, ps, b) => {
                let method = matches!(s, St::Method(..));
                self.out.text.push_str("function ");
                let k = self.use_here(*t, Role::Read);
                let _ = writeln!(self.out.vm_text, "SET({k},{})", NAMES[*t as usize]);
                self.out.text.push_str(if method { ":f" } else { ".f" });
                self.func_tail(ps, b, method);
                self.out.vm_text.push('\n');
            }
        }
    }
}

pub fn render(prog: &[St]) -> Rendered {
    let mut r = R { out: Rendered::default(), env: Vec::new() };
    r.block(prog);
    r.out
}

// ------------------------------------------------------------------ shrinking

/// every program obtained from `p` by one simplifying step (all are smaller in (size, text) order or
/// are filtered by the caller)
pub fn shrinks(p: &Block) -> Vec<Block> {
    let mut out: Vec<Block> = Vec::new();
    shrink_block(p, &mut |b| out.push(b));
    // global renames
    out.push(map_names(p, &|n| if n == 1 { 0 } else { n }));
    out.push(map_names(p, &|n| match n {
        0 => 1,
        1 => 0,
        n => n,
    }));
    out.push(map_names(p, &|n| if n == 2 { 0 } else { n }));
    out.retain(|b| valid(b) && b != p);
    out
}

fn shrink_block(b: &Block, emit: &mut dyn FnMut(Block)) {
    for i in 0..b.len() {
        // delete statement i
        let mut c = b.clone();
        c.remove(i);
        emit(c);
        // replace statement i by (one of) its bodies
        for body in b[i].blocks() {
            let mut c = b.clone();
            c.splice(i..=i, body.iter().cloned());
            emit(c);
        }
        // flatten statement i: its declared names become a plain `local`, its header expressions a
        // plain assignment, its body is spliced in place (moves every kind of statement towards the
        // two simplest forms, so that witnesses of one root cause meet in one program)
        for flat in flatten_stat(&b[i]) {
            let mut c = b.clone();
            c.splice(i..=i, flat);
            emit(c);
        }
        // simplify statement i itself
        for s in shrink_stat(&b[i]) {
            let mut c = b.clone();
            c[i] = s;
            emit(c);
        }
        // recurse into its blocks
        let nb = b[i].blocks().len();
        for bi in 0..nb {
            let inner = b[i].blocks()[bi].clone();
            shrink_block(&inner, &mut |nbk| {
                let mut c = b.clone();
                *c[i].blocks_mut()[bi] = nbk;
                emit(c);
            });
        }
    }
}

fn flatten_stat(s: &St) -> Vec<Block> {
    let a = |e: &Ex| St::Assign(vec![0], e.clone());
    let loc = |xs: &[u8]| St::Local(xs.to_vec(), xs.iter().map(|_| Ex::Name(0)).collect());
    let cat = |mut pre: Vec<St>, body: &Block, post: Vec<St>| {
        pre.extend(body.iter().cloned());
        pre.extend(post);
        pre
    };
    match s {
        St::Local(xs, es) => {
            let mut v = vec![];
            for e in es {
                v.push(vec![a(e)]);
            }
            if xs.len() == 1 && es[0] != Ex::Name(0) {
                v.push(vec![loc(xs)]);
            }
            v
        }
        St::Assign(_, _) => vec![],
        St::Return(e) => vec![vec![a(e)]],
        St::LocalFn(x, ps, b) => vec![cat(vec![loc(&[*x]), loc(ps)], b, vec![]), cat(vec![loc(&[*x])], b, vec![]), cat(vec![loc(ps)], b, vec![])],
        St::Fn(x, ps, b) | St::Field(x, ps, b) | St::Method(x, ps, b) => vec![cat(vec![a(&Ex::Name(*x)), loc(ps)], b, vec![]), cat(vec![loc(ps)], b, vec![]), vec![a(&Ex::Name(*x))]],
        St::LocalClosure(x, ps, b) => vec![cat(vec![loc(ps)], b, vec![loc(&[*x])]), cat(vec![loc(ps)], b, vec![]), vec![loc(&[*x])]],
        St::ForNum(x, e1, e2, b) => vec![cat(vec![a(e1), a(e2), loc(&[*x])], b, vec![]), cat(vec![a(e1), loc(&[*x])], b, vec![]), cat(vec![loc(&[*x])], b, vec![]), vec![a(e1)], vec![a(e2)]],
        St::ForIn(xs, e, b) => vec![cat(vec![a(e), loc(xs)], b, vec![]), cat(vec![loc(xs)], b, vec![]), vec![a(e)]],
        St::Repeat(b, e) => vec![cat(vec![], b, vec![a(e)]), vec![a(e)]],
        St::While(e, b) => vec![cat(vec![a(e)], b, vec![]), vec![a(e)]],
        St::Do(_) => vec![],
        St::If(e, b1, b2) => vec![cat(vec![a(e)], b1, vec![]), cat(vec![a(e)], b2, vec![]), vec![a(e)]],
    }
    .into_iter()
    .map(|b: Block| b.into_iter().filter(|s| !matches!(s, St::Local(xs, _) if xs.is_empty())).collect())
    .collect()
}

fn shrink_ex(e: &Ex) -> Vec<Ex> {
    match e {
        Ex::Name(x) => (0..*x).map(Ex::Name).collect(),
        Ex::Add(x, y) | Ex::Call(x, y) => {
            let mut v = vec![Ex::Name(*x), Ex::Name(*y)];
            if let Ex::Call(..) = e {
                v.push(Ex::Add(*x, *y));
            }
            v
        }
    }
}
fn shrink_names(xs: &[u8]) -> Vec<Vec<u8>> {
    let mut v = Vec::new();
    if xs.len() > 1 {
        for i in 0..xs.len() {
            let mut c = xs.to_vec();
            c.remove(i);
            v.push(c);
        }
    }
    for i in 0..xs.len() {
        for n in 0..xs[i] {
            let mut c = xs.to_vec();
            c[i] = n;
            v.push(c);
        }
    }
    v
}
fn lower(x: u8) -> Vec<u8> {
    (0..x).collect()
}

fn shrink_stat(s: &St) -> Vec<St> {
    let mut v = Vec::new();
    match s {
        St::Local(xs, es) => {
            if xs.len() > 1 {
                for i in 0..xs.len() {
                    let (mut x2, mut e2) = (xs.clone(), es.clone());
                    x2.remove(i);
                    e2.remove(i);
                    v.push(St::Local(x2, e2));
                }
            }
            for i in 0..xs.len() {
                for n in lower(xs[i]) {
                    let mut x2 = xs.clone();
                    x2[i] = n;
                    v.push(St::Local(x2, es.clone()));
                }
                for e in shrink_ex(&es[i]) {
                    let mut e2 = es.clone();
                    e2[i] = e;
                    v.push(St::Local(xs.clone(), e2));
                }
            }
        }
        St::Assign(xs, e) => {
            for x2 in shrink_names(xs) {
                v.push(St::Assign(x2, e.clone()));
            }
            for e2 in shrink_ex(e) {
                v.push(St::Assign(xs.clone(), e2));
            }
        }
        St::LocalFn(x, ps, b) | St::Fn(x, ps, b) | St::LocalClosure(x, ps, b) | St::Field(x, ps, b) | St::Method(x, ps, b) => {
            let mk = |x: u8, ps: Vec<u8>, b: Block| match s {
                St::LocalFn(..) => St::LocalFn(x, ps, b),
                St::Fn(..) => St::Fn(x, ps, b),
                St::LocalClosure(..) => St::LocalClosure(x, ps, b),
                St::Field(..) => St::Field(x, ps, b),
                _ => St::Method(x, ps, b),
            };
            for n in lower(*x) {
                v.push(mk(n, ps.clone(), b.clone()));
            }
            if !ps.is_empty() {
                v.push(mk(*x, vec![], b.clone()));
            }
            for p2 in shrink_names(ps) {
                v.push(mk(*x, p2, b.clone()));
            }
            if let St::Method(..) = s {
                v.push(St::Field(*x, ps.clone(), b.clone()));
            }
        }
        St::ForNum(x, e1, e2, b) => {
            for n in lower(*x) {
                v.push(St::ForNum(n, e1.clone(), e2.clone(), b.clone()));
            }
            for e in shrink_ex(e1) {
                v.push(St::ForNum(*x, e, e2.clone(), b.clone()));
            }
            for e in shrink_ex(e2) {
                v.push(St::ForNum(*x, e1.clone(), e, b.clone()));
            }
        }
        St::ForIn(xs, e, b) => {
            for x2 in shrink_names(xs) {
                v.push(St::ForIn(x2, e.clone(), b.clone()));
            }
            for e2 in shrink_ex(e) {
                v.push(St::ForIn(xs.clone(), e2, b.clone()));
            }
        }
        St::Repeat(b, e) => {
            for e2 in shrink_ex(e) {
                v.push(St::Repeat(b.clone(), e2));
            }
        }
        St::While(e, b) => {
            for e2 in shrink_ex(e) {
                v.push(St::While(e2, b.clone()));
            }
        }
        St::Do(_) => {}
        St::If(e, b1, b2) => {
            for e2 in shrink_ex(e) {
                v.push(St::If(e2, b1.clone(), b2.clone()));
            }
        }
        St::Return(e) => {
            for e2 in shrink_ex(e) {
                v.push(St::Return(e2));
            }
        }
    }
    v
}

fn map_ex(e: &Ex, f: &dyn Fn(u8) -> u8) -> Ex {
    match e {
        Ex::Name(x) => Ex::Name(f(*x)),
        Ex::Add(x, y) => Ex::Add(f(*x), f(*y)),
        Ex::Call(x, y) => Ex::Call(f(*x), f(*y)),
    }
}
pub fn map_names(b: &Block, f: &dyn Fn(u8) -> u8) -> Block {
    let mv = |v: &Vec<u8>| v.iter().map(|x| f(*x)).collect::<Vec<u8>>();
    // declared names are never `self`
    let d = |x: u8| {
        let y = f(x);
        if y == 2 { x } else { y }
    };
    let dv = |v: &Vec<u8>| v.iter().map(|x| d(*x)).collect::<Vec<u8>>();
    b.iter()
        .map(|s| match s {
            St::Local(xs, es) => St::Local(dv(xs), es.iter().map(|e| map_ex(e, f)).collect()),
            St::Assign(xs, e) => St::Assign(mv(xs), map_ex(e, f)),
            St::LocalFn(x, ps, b) => St::LocalFn(d(*x), dv(ps), map_names(b, f)),
            St::Fn(x, ps, b) => St::Fn(f(*x), dv(ps), map_names(b, f)),
            St::LocalClosure(x, ps, b) => St::LocalClosure(d(*x), dv(ps), map_names(b, f)),
            St::ForNum(x, e1, e2, b) => St::ForNum(d(*x), map_ex(e1, f), map_ex(e2, f), map_names(b, f)),
            St::ForIn(xs, e, b) => St::ForIn(dv(xs), map_ex(e, f), map_names(b, f)),
            St::Repeat(b, e) => St::Repeat(map_names(b, f), map_ex(e, f)),
            St::While(e, b) => St::While(map_ex(e, f), map_names(b, f)),
            St::Do(b) => St::Do(map_names(b, f)),
            St::If(e, b1, b2) => St::If(map_ex(e, f), map_names(b1, f), map_names(b2, f)),
            St::Return(e) => St::Return(map_ex(e, f)),
            St::Field(t, ps, b) => St::Field(f(*t), dv(ps), map_names(b, f)),
            St::Method(t, ps, b) => St::Method(f(*t), dv(ps), map_names(b, f)),
        })
        .collect()
}
