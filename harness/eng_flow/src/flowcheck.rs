//! Shared by C15 and C41: analyse a probe-instrumented program with the real code, execute it in the
//! VM once per combination of runtime inputs, and compare every reached probe with γ(inferred type).
use crate::flowgen::*;
use crate::{vm, ws};
use emmylua_code_analysis::{LuaType, LuaUnionType};
use serde_json::{Value, json};
use std::cell::RefCell;
use std::collections::HashMap;
use vcore::*;

/// declarations the generated programs rely on (one extra file of the worker's workspace)
pub const DEFS: &str = r#"---@meta
---@return nil|boolean|integer|string|table
function IN() end
---@param i integer
---@param x any
function P(i, x) end
---@return fun(): integer?
function ITER() end
---@return string
function S() end
---@return string?
function OS() end
"#;

pub const RT_TYPES: [&str; 8] = ["nil", "boolean", "number", "string", "table", "function", "userdata", "thread"];
const ALL: u16 = 0xff;

fn bit(name: &str) -> u16 {
    RT_TYPES.iter().position(|t| *t == name).map(|i| 1u16 << i).unwrap_or(0)
}

/// γ: the set of Lua runtime type names a static type admits. Anything whose extent is not obvious
/// from the type alone maps to "all" (never a false alarm); `never` maps to the empty set.
pub fn gamma(t: &LuaType) -> u16 {
    match t {
        LuaType::Never => 0,
        LuaType::Nil => bit("nil"),
        LuaType::Boolean | LuaType::BooleanConst(_) | LuaType::DocBooleanConst(_) | LuaType::TypeGuard(_) => bit("boolean"),
        LuaType::Integer | LuaType::Number | LuaType::IntegerConst(_) | LuaType::FloatConst(_) | LuaType::DocIntegerConst(_) => bit("number"),
        LuaType::String | LuaType::StringConst(_) | LuaType::DocStringConst(_) => bit("string"),
        LuaType::Table | LuaType::TableConst(_) | LuaType::Object(_) | LuaType::Array(_) | LuaType::Tuple(_) | LuaType::TableGeneric(_) => bit("table"),
        LuaType::Function | LuaType::DocFunction(_) | LuaType::Signature(_) => bit("function"),
        LuaType::Thread => bit("thread"),
        LuaType::Userdata => bit("userdata"),
        LuaType::Union(u) => match &**u {
            LuaUnionType::Nullable(t) => gamma(t) | bit("nil"),
            _ => u.into_vec().iter().fold(0, |a, t| a | gamma(t)),
        },
        LuaType::MultiLineUnion(m) => m.get_unions().iter().fold(0, |a, (t, _)| a | gamma(t)),
        _ => ALL,
    }
}
pub fn gamma_text(g: u16) -> String {
    if g == ALL {
        return "any".into();
    }
    if g == 0 {
        return "never".into();
    }
    RT_TYPES.iter().enumerate().filter(|(i, _)| g >> i & 1 == 1).map(|(_, t)| *t).collect::<Vec<_>>().join("|")
}

#[derive(Clone, Debug)]
pub struct Inferred {
    pub idx: usize,
    pub gamma: Option<u16>,
    pub shown: String,
}

/// inferred types at the probes of `text`, indexed by probe index
pub fn infer_probes(text: &str) -> Vec<Inferred> {
    let mut v: Vec<Inferred> = ws::with_model_defs(text, |w, _, m| {
        ws::probe_types(m)
            .into_iter()
            .map(|(i, t)| match t {
                Ok(t) => Inferred { idx: i as usize, gamma: Some(gamma(&t)), shown: w.humanize_type_detailed(t) },
                Err(e) => Inferred { idx: i as usize, gamma: None, shown: format!("<no type: {e}>") },
            })
            .collect()
    });
    v.sort_by_key(|p| p.idx);
    v
}

/// one run: the inputs, the loop count of ITER(), and the (probe, runtime type) trace
#[derive(Clone, Debug)]
pub struct Run {
    pub inputs: Vec<Lit>,
    pub itn: u8,
    pub trace: Vec<(usize, String)>,
    pub end: vm::RunEnd,
}

pub fn execute(text: &str, inputs: &[Lit], itn: u8) -> Run {
    let inv: Vec<String> = inputs.iter().enumerate().map(|(i, l)| format!("[{}]={}", i + 1, l.input_text())).collect();
    let setup = format!("RESET()\nINV = {{{}}}\nITN = {itn}\nOSN = 0", inv.join(","));
    let (log, end) = vm::run(&setup, text);
    let trace = log.iter().filter_map(|e| e.split_once(':').and_then(|(i, t)| Some((i.parse().ok()?, t.to_string())))).collect();
    Run { inputs: inputs.to_vec(), itn, trace, end }
}

/// all input combinations for `nvars` locals, in a fixed order
pub fn input_combos(nvars: usize) -> Vec<Vec<Lit>> {
    let mut out: Vec<Vec<Lit>> = vec![vec![]];
    for _ in 0..nvars {
        out = out.into_iter().flat_map(|p| INPUT_LITS.iter().map(move |l| { let mut q = p.clone(); q.push(*l); q })).collect();
    }
    out
}

#[derive(Clone, Debug)]
pub struct FlowMismatch {
    pub probe: usize,
    pub signature: String,
    pub inputs: Vec<Lit>,
    pub itn: u8,
    pub runtime: String,
    pub inferred: String,
}

pub struct FlowChecked {
    pub rendered: FRendered,
    pub mismatches: Vec<FlowMismatch>,
    /// mismatches at probes the property does not speak about (inside loop bodies)
    pub unjudged_mismatches: u64,
    pub reached: u64,
    pub no_type: u64,
    pub budget_runs: u64,
    pub error: Option<String>,
    pub nevers_unreached: u64,
}

/// `judge(probe)` says whether the property under check speaks about that probe.
pub fn check_flow(prog: &[FSt], judge: &dyn Fn(&Probe) -> bool) -> FlowChecked {
    let r = frender(prog);
    let inferred = infer_probes(&r.text);
    let mut out = FlowChecked { rendered: r.clone(), mismatches: vec![], unjudged_mismatches: 0, reached: 0, no_type: 0, budget_runs: 0, error: None, nevers_unreached: 0 };
    if inferred.len() != r.probes.len() || inferred.iter().enumerate().any(|(i, p)| p.idx != i) {
        out.error = Some(format!("found {} probes in the tree, rendered {}", inferred.len(), r.probes.len()));
        return out;
    }
    let itns: &[u8] = if has_forin(prog) { &[0, 2] } else { &[0] };
    let mut reached_any = vec![false; r.probes.len()];
    for inputs in input_combos(r.nvars) {
        for &itn in itns {
            let run = execute(&r.text, &inputs, itn);
            match &run.end {
                vm::RunEnd::Done => {}
                vm::RunEnd::Budget => out.budget_runs += 1,
                vm::RunEnd::Error(e) => {
                    out.error = Some(format!("vm error {e}"));
                    return out;
                }
            }
            for (pi, rt) in &run.trace {
                let Some(inf) = inferred.get(*pi) else {
                    out.error = Some(format!("probe {pi} out of range"));
                    return out;
                };
                reached_any[*pi] = true;
                out.reached += 1;
                let Some(g) = inf.gamma else {
                    out.no_type += 1;
                    continue;
                };
                if g & bit(rt) != 0 {
                    continue;
                }
                if !judge(&r.probes[*pi]) {
                    out.unjudged_mismatches += 1;
                    continue;
                }
                // one signature: γ(never) = ∅ is the extreme case of an inferred type that does not contain the value
                let signature = "uncontained".to_string();
                if out.mismatches.iter().any(|m| m.signature == signature) {
                    continue; // one representative per signature and program
                }
                out.mismatches.push(FlowMismatch { probe: *pi, signature, inputs: inputs.clone(), itn, runtime: rt.clone(), inferred: inf.shown.clone() });
            }
        }
    }
    out.nevers_unreached = inferred.iter().filter(|p| p.gamma == Some(0) && !reached_any[p.idx]).count() as u64;
    out
}

fn fkey(p: &FBlock) -> (usize, usize, String) {
    let t = frender(p).text;
    (fblock_size(p), t.len(), t)
}

thread_local! {
    static FMINI: RefCell<HashMap<(String, String), FBlock>> = RefCell::new(HashMap::new());
}

/// greedy descent to a program no one-step simplification of which shows the same signature
pub fn minimise_flow(prog: &FBlock, sig: &str, judge: &dyn Fn(&Probe) -> bool, keep: &dyn Fn(&FBlock) -> bool) -> FBlock {
    let mut cur = prog.clone();
    let mut path: Vec<String> = Vec::new();
    let result = loop {
        let text = frender(&cur).text;
        if let Some(done) = FMINI.with(|m| m.borrow().get(&(text.clone(), sig.to_string())).cloned()) {
            break done;
        }
        path.push(text);
        let kc = fkey(&cur);
        let mut cands: Vec<((usize, usize, String), FBlock)> = fshrinks(&cur).into_iter().filter(|b| keep(b)).map(|b| (fkey(&b), b)).collect();
        cands.retain(|(k, _)| *k < kc);
        cands.sort_by(|a, b| a.0.cmp(&b.0));
        cands.dedup_by(|a, b| a.0 == b.0);
        let next = cands.into_iter().find(|(_, b)| {
            let c = check_flow(b, judge);
            c.error.is_none() && c.mismatches.iter().any(|m| m.signature == sig)
        });
        match next {
            Some((_, b)) => cur = b,
            None => break cur,
        }
    };
    FMINI.with(|m| {
        let mut m = m.borrow_mut();
        for t in path {
            m.insert((t, sig.to_string()), result.clone());
        }
    });
    result
}

pub fn witness(c: &FlowChecked, m: &FlowMismatch) -> Value {
    json!({
        "src": c.rendered.text,
        "_inputs": m.inputs.iter().map(|l| l.text()).collect::<Vec<_>>(),
        "_iter_count": m.itn,
        "_probe": m.probe,
    })
}
pub fn detail(m: &FlowMismatch) -> String {
    format!(
        "with IN() = {} the program reaches probe {} holding a {} but the inferred type there is `{}`",
        m.inputs.iter().map(|l| l.text()).collect::<Vec<_>>().join(", "),
        m.probe,
        m.runtime,
        m.inferred
    )
}

/// Judge one generated program; shared bookkeeping of C15 and C41.
pub fn judge_program(prog: &FBlock, st: &mut Stats, sample: bool, judge: &dyn Fn(&Probe) -> bool, keep: &dyn Fn(&FBlock) -> bool) {
    let c = match catch(|| check_flow(prog, judge)) {
        Ok(c) => c,
        Err(p) => {
            ws::reset();
            vm::reset();
            st.eval(true);
            st.outcome("analysis-panic");
            st.violation(Violation { signature: format!("panic:{}", panic_site(&p)), witness: json!({"src": frender(prog).text}), detail: p });
            return;
        }
    };
    st.eval(fblock_size(prog) >= 1);
    if let Some(e) = &c.error {
        st.outcome("machinery-problem");
        st.undecided += 1;
        if st.outcomes.get("machinery-problem") == Some(&1) {
            eprintln!("note: {e}\n{}", c.rendered.text);
        }
        return;
    }
    st.undecided += c.no_type + c.unjudged_mismatches;
    if c.no_type > 0 {
        st.outcome("probe-without-type");
    }
    if c.unjudged_mismatches > 0 {
        st.outcome("mismatch-inside-loop-body(not judged)");
    }
    if c.budget_runs > 0 {
        st.outcome("run-cut-by-probe-budget");
    }
    if c.nevers_unreached > 0 {
        st.outcome("never-typed-probe-not-reached(ok)");
    }
    if sample {
        st.sample(|| json!({"program": c.rendered.text, "probes": c.rendered.probes.len(), "probe_hits": c.reached}));
    }
    if c.mismatches.is_empty() {
        st.outcome("all-reached-probes-contained");
        return;
    }
    st.outcome("program-with-uncontained-probe");
    for m in &c.mismatches {
        let min = minimise_flow(prog, &m.signature, judge, keep);
        let again = check_flow(&min, judge);
        match again.mismatches.iter().find(|x| x.signature == m.signature) {
            Some(mm) if again.error.is_none() => {
                st.violation(Violation { signature: m.signature.clone(), witness: witness(&again, mm), detail: detail(mm) });
            }
            _ => {
                st.outcome("minimal-witness-not-confirmed");
                st.undecided += 1;
            }
        }
    }
}

fn parse_lit(s: &str) -> Option<Lit> {
    LITS.iter().copied().find(|l| l.text() == s)
}

/// replay from the witness alone: analyse the text, run it with the recorded inputs
pub fn replay_flow(w: &Value) -> Option<Violation> {
    let src = w["src"].as_str()?;
    let inputs: Vec<Lit> = w["_inputs"].as_array()?.iter().filter_map(|v| v.as_str().and_then(parse_lit)).collect();
    let itn = w["_iter_count"].as_u64().unwrap_or(0) as u8;
    let probe = w["_probe"].as_u64()? as usize;
    let inferred = infer_probes(src);
    let run = execute(src, &inputs, itn);
    if let vm::RunEnd::Error(e) = &run.end {
        die(&format!("replay: vm error {e}"));
    }
    let inf = inferred.iter().find(|p| p.idx == probe)?;
    let g = inf.gamma?;
    for (pi, rt) in &run.trace {
        if *pi == probe && g & bit(rt) == 0 {
            return Some(Violation {
                signature: "uncontained".into(),
                witness: w.clone(),
                detail: format!("probe {probe} reached holding a {rt}; inferred `{}`", inf.shown),
            });
        }
    }
    None
}
