//! One real analysis workspace per worker thread, created once and reused (std-lib init ≈ 11 ms).
use emmylua_code_analysis::{FileId, LuaType, SemanticModel, VirtualWorkspace};
use emmylua_parser::{LuaAstNode, LuaCallExpr, LuaExpr};
use std::cell::RefCell;

thread_local! {
    static WS_STD: RefCell<Option<VirtualWorkspace>> = const { RefCell::new(None) };
    static WS_BARE: RefCell<Option<VirtualWorkspace>> = const { RefCell::new(None) };
}

/// Analyse `text` as the single user file `t.lua` of this thread's workspace (the previous
/// content of that file is replaced) and hand the semantic model to `f`.
pub fn with_model<R>(std: bool, text: &str, f: impl FnOnce(&VirtualWorkspace, FileId, &SemanticModel) -> R) -> R {
    let slot = if std { &WS_STD } else { &WS_BARE };
    slot.with(|s| {
        let mut s = s.borrow_mut();
        let ws = s.get_or_insert_with(|| {
            if std {
                let mut w = VirtualWorkspace::new_with_init_std_lib();
                w.def_file("defs.lua", crate::flowcheck::DEFS);
                w
            } else {
                VirtualWorkspace::new()
            }
        });
        let fid = ws.def_file("t.lua", text);
        let ws: &VirtualWorkspace = ws;
        let model = ws.analysis.compilation.get_semantic_model(fid).expect("semantic model");
        f(ws, fid, &model)
    })
}

/// workspace with the std library and the declarations of IN / P / ITER / S / OS
pub fn with_model_defs<R>(text: &str, f: impl FnOnce(&VirtualWorkspace, FileId, &SemanticModel) -> R) -> R {
    with_model(true, text, f)
}

/// drop this thread's workspaces (used after a panic inside the analysis: state may be torn)
pub fn reset() {
    WS_STD.with(|s| *s.borrow_mut() = None);
    WS_BARE.with(|s| *s.borrow_mut() = None);
}

/// all calls `P(<int>, <name>)` in source order: (probe index, inferred type of the 2nd argument)
pub fn probe_types(model: &SemanticModel) -> Vec<(i64, Result<LuaType, String>)> {
    let mut out = Vec::new();
    for call in model.get_root().descendants::<LuaCallExpr>() {
        let Some(LuaExpr::NameExpr(n)) = call.get_prefix_expr() else { continue };
        if n.get_name_text().as_deref() != Some("P") {
            continue;
        }
        let Some(args) = call.get_args_list() else { continue };
        let args: Vec<LuaExpr> = args.get_args().collect();
        if args.len() != 2 {
            continue;
        }
        let idx = match &args[0] {
            LuaExpr::LiteralExpr(l) => l.syntax().text().to_string().trim().parse::<i64>().unwrap_or(-1),
            _ => -1,
        };
        let ty = model.infer_expr(args[1].clone()).map_err(|e| format!("{e:?}"));
        out.push((idx, ty));
    }
    out
}
