//! The luars Lua VM as the execution oracle: one interpreter per worker thread; every helper the
//! generated programs call is a *global* defined once in Lua, and a run returns its log as a string.
use luars::{Lua, LuaApi, SafeOption, Stdlib};
use std::cell::RefCell;

const PRELUDE: &str = r#"
LOG = {}
-- ---- C13: which declaration does a use denote?
function U(k, v) LOG[#LOG+1] = k .. '=' .. tostring(v); return v end
SET = U
function ADD() end
CALL = ADD
EVAL = ADD
function T(id) return id end
function H(id) return id end
function F(f, ...) f(...) end
function IT(x, y) local d = false; return function() if d then return nil end d = true; return x, y end end
function TRUE() return true end
function C(site) return BITS[site] end
function W(site) if WC[site] then return false end WC[site] = true; return true end
function RESET(...) LOG = {}; WC = {}; BITS = {...}; BUDGET = 200; INI = 0 end
function DUMP() return table.concat(LOG, ',') end
-- ---- C15 / C41: probes and inputs
function P(i, x)
  BUDGET = BUDGET - 1
  if BUDGET < 0 then error('BUDGET') end
  LOG[#LOG+1] = i .. ':' .. type(x)
end
function IN() INI = INI + 1; local v = INV[INI]; if v == TBL then return {} end return v end
TBL = {}
function ITER() local n = 0; return function() n = n + 1; if n <= ITN then return n end return nil end end
function S() return 'x' end
function OS() OSN = (OSN or 0) + 1; if OSN % 2 == 1 then return nil end return 'x' end
"#;

thread_local! {
    static LUA: RefCell<Option<Lua>> = const { RefCell::new(None) };
}

fn with_lua<R>(f: impl FnOnce(&mut Lua) -> R) -> R {
    LUA.with(|l| {
        let mut l = l.borrow_mut();
        if l.is_none() {
            let mut lua = Lua::new(SafeOption::default());
            lua.open_stdlibs(&[Stdlib::All]).expect("luars stdlib");
            lua.load(PRELUDE).exec().expect("luars prelude");
            *l = Some(lua);
        }
        f(l.as_mut().expect("lua"))
    })
}

/// drop the interpreter (after a run that may have left it in an odd state)
pub fn reset() {
    LUA.with(|l| *l.borrow_mut() = None);
}

#[derive(Debug, Clone, PartialEq, Eq)]
pub enum RunEnd {
    /// ran to completion
    Done,
    /// a `return` / normal end is the same; `Budget` = probe budget exhausted (non-terminating loop)
    Budget,
    /// any other runtime or compile error
    Error(String),
}

/// Execute `setup .. body`; returns the log entries and how the run ended.
pub fn run(setup: &str, body: &str) -> (Vec<String>, RunEnd) {
    let r = run_inner(setup, body);
    if r.1 != RunEnd::Done {
        // luars 0.26 keeps the call frames of a failed chunk on its stack; start from a fresh state
        reset();
    }
    r
}

fn run_inner(setup: &str, body: &str) -> (Vec<String>, RunEnd) {
    with_lua(|lua| {
        let src = format!("{setup}\n{body}");
        let end = match lua.load(&src).exec() {
            Ok(()) => RunEnd::Done,
            Err(e) => {
                let msg = lua.get_error_message(e).to_string();
                if msg.contains("BUDGET") { RunEnd::Budget } else { RunEnd::Error(msg) }
            }
        };
        let log: String = lua.load("return DUMP()").eval::<String>().unwrap_or_default();
        let entries = if log.is_empty() { vec![] } else { log.split(',').map(|s| s.to_string()).collect() };
        (entries, end)
    })
}

