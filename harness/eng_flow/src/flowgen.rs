//! Generator AST for the narrowing programs of C15 (conditionals) and C41 (loops): enumeration by
//! size, rendering with a probe `P(i, x)` at the start of every block and after every statement,
//! and one-step simplifications for the minimiser.
use std::fmt::Write;

pub const VARS: [&str; 2] = ["a", "b"];

#[derive(Clone, Copy, Debug, PartialEq, Eq, Hash, PartialOrd, Ord)]
pub enum Lit {
    // declaration order = (text length, text) order, the order the minimiser descends in
    One,
    Tbl,
    Nil,
    Str,
    True,
    False,
}
pub const LITS: [Lit; 6] = [Lit::One, Lit::Tbl, Lit::Nil, Lit::Str, Lit::True, Lit::False];
/// order in which runtime inputs are tried (the first failing one is recorded in the witness)
pub const INPUT_LITS: [Lit; 6] = [Lit::Nil, Lit::True, Lit::False, Lit::One, Lit::Str, Lit::Tbl];
impl Lit {
    pub fn text(self) -> &'static str {
        match self {
            Lit::Nil => "nil",
            Lit::True => "true",
            Lit::False => "false",
            Lit::One => "1",
            Lit::Str => "'s'",
            Lit::Tbl => "{}",
        }
    }
    /// how the value is written in the VM's input table (a fresh table is made per IN() call)
    pub fn input_text(self) -> &'static str {
        match self {
            Lit::Tbl => "TBL",
            l => l.text(),
        }
    }
}

#[derive(Clone, Copy, Debug, PartialEq, Eq, Hash, PartialOrd, Ord)]
pub enum Ty {
    Nil,
    Boolean,
    Number,
    String,
    Table,
}
pub const TYS: [Ty; 5] = [Ty::Nil, Ty::Boolean, Ty::Number, Ty::String, Ty::Table];
impl Ty {
    pub fn text(self) -> &'static str {
        match self {
            Ty::Nil => "nil",
            Ty::Boolean => "boolean",
            Ty::Number => "number",
            Ty::String => "string",
            Ty::Table => "table",
        }
    }
}

#[derive(Clone, Debug, PartialEq, Eq, Hash, PartialOrd, Ord)]
pub enum Cond {
    Truthy(u8),
    EqNil(u8),
    NeNil(u8),
    TypeEq(u8, Ty),
    TypeNe(u8, Ty),
    EqLit(u8, Lit),
    Not(Box<Cond>),
    And(Box<Cond>, Box<Cond>),
    Or(Box<Cond>, Box<Cond>),
}
impl Cond {
    fn is_atom_name(&self) -> bool {
        matches!(self, Cond::Truthy(_))
    }
    fn is_logic(&self) -> bool {
        matches!(self, Cond::And(..) | Cond::Or(..))
    }
    pub fn text(&self) -> String {
        match self {
            Cond::Truthy(v) => VARS[*v as usize].to_string(),
            Cond::EqNil(v) => format!("{} == nil", VARS[*v as usize]),
            Cond::NeNil(v) => format!("{} ~= nil", VARS[*v as usize]),
            Cond::TypeEq(v, t) => format!("type({}) == '{}'", VARS[*v as usize], t.text()),
            Cond::TypeNe(v, t) => format!("type({}) ~= '{}'", VARS[*v as usize], t.text()),
            Cond::EqLit(v, l) => format!("{} == {}", VARS[*v as usize], l.text()),
            Cond::Not(c) => {
                if c.is_atom_name() || matches!(**c, Cond::Not(_)) {
                    format!("not {}", c.text())
                } else {
                    format!("not ({})", c.text())
                }
            }
            Cond::And(l, r) | Cond::Or(l, r) => {
                let op = if matches!(self, Cond::And(..)) { "and" } else { "or" };
                let p = |c: &Cond| if c.is_logic() { format!("({})", c.text()) } else { c.text() };
                format!("{} {op} {}", p(l), p(r))
            }
        }
    }
    pub fn vars(&self, out: &mut [bool; 2]) {
        match self {
            Cond::Truthy(v) | Cond::EqNil(v) | Cond::NeNil(v) | Cond::TypeEq(v, _) | Cond::TypeNe(v, _) | Cond::EqLit(v, _) => out[*v as usize] = true,
            Cond::Not(c) => c.vars(out),
            Cond::And(l, r) | Cond::Or(l, r) => {
                l.vars(out);
                r.vars(out);
            }
        }
    }
}

/// right-hand sides of `[local] x = R` beyond the three classic forms; every literal position takes
/// every literal of the alphabet, binary nesting depth ≤ 2, with and without parentheses
#[derive(Clone, Debug, PartialEq, Eq, Hash)]
pub enum Rhs {
    /// `lit`
    Lit(Lit),
    /// `y or lit`
    Or(u8, Lit),
    /// `c and lit`
    And(Cond, Lit),
    /// `c and l1 or l2`
    AndOr(Cond, Lit, Lit),
    /// `(c and l1) or l2`
    PAndOr(Cond, Lit, Lit),
    /// `y or (z or lit)`
    OrOr(u8, u8, Lit),
    /// `c and (y or lit)`
    AndPOr(Cond, u8, Lit),
    /// `y or (c and lit)`
    OrPAnd(u8, Cond, Lit),
}
impl Rhs {
    pub fn text(&self) -> String {
        let ct = |c: &Cond| if c.is_logic() { format!("({})", c.text()) } else { c.text() };
        let v = |x: &u8| VARS[*x as usize];
        match self {
            Rhs::Lit(l) => l.text().to_string(),
            Rhs::Or(y, l) => format!("{} or {}", v(y), l.text()),
            Rhs::And(c, l) => format!("{} and {}", ct(c), l.text()),
            Rhs::AndOr(c, l1, l2) => format!("{} and {} or {}", ct(c), l1.text(), l2.text()),
            Rhs::PAndOr(c, l1, l2) => format!("({} and {}) or {}", ct(c), l1.text(), l2.text()),
            Rhs::OrOr(y, z, l) => format!("{} or ({} or {})", v(y), v(z), l.text()),
            Rhs::AndPOr(c, y, l) => format!("{} and ({} or {})", ct(c), v(y), l.text()),
            Rhs::OrPAnd(y, c, l) => format!("{} or ({} and {})", v(y), ct(c), l.text()),
        }
    }
    fn cond(&self) -> Option<&Cond> {
        match self {
            Rhs::And(c, _) | Rhs::AndOr(c, _, _) | Rhs::PAndOr(c, _, _) | Rhs::AndPOr(c, _, _) | Rhs::OrPAnd(_, c, _) => Some(c),
            _ => None,
        }
    }
    fn vars(&self, out: &mut [bool; 2]) {
        match self {
            Rhs::Or(y, _) | Rhs::AndPOr(_, y, _) | Rhs::OrPAnd(y, _, _) => out[*y as usize] = true,
            Rhs::OrOr(y, z, _) => {
                out[*y as usize] = true;
                out[*z as usize] = true;
            }
            _ => {}
        }
        if let Some(c) = self.cond() {
            c.vars(out);
        }
    }
    fn map(&self, f: &dyn Fn(u8) -> u8) -> Rhs {
        match self {
            Rhs::Lit(l) => Rhs::Lit(*l),
            Rhs::Or(y, l) => Rhs::Or(f(*y), *l),
            Rhs::And(c, l) => Rhs::And(map_cond(c, f), *l),
            Rhs::AndOr(c, l1, l2) => Rhs::AndOr(map_cond(c, f), *l1, *l2),
            Rhs::PAndOr(c, l1, l2) => Rhs::PAndOr(map_cond(c, f), *l1, *l2),
            Rhs::OrOr(y, z, l) => Rhs::OrOr(f(*y), f(*z), *l),
            Rhs::AndPOr(c, y, l) => Rhs::AndPOr(map_cond(c, f), f(*y), *l),
            Rhs::OrPAnd(y, c, l) => Rhs::OrPAnd(f(*y), map_cond(c, f), *l),
        }
    }
    /// one-step simplifications
    fn shrinks(&self) -> Vec<Rhs> {
        let mut v = Vec::new();
        let lits = |l: &Lit| lower_lits(*l);
        match self {
            Rhs::Lit(l) => v.extend(lits(l).into_iter().map(Rhs::Lit)),
            Rhs::Or(y, l) => {
                v.push(Rhs::Lit(*l));
                v.extend(lits(l).into_iter().map(|l2| Rhs::Or(*y, l2)));
                v.extend((0..*y).map(|y2| Rhs::Or(y2, *l)));
            }
            Rhs::And(c, l) => {
                v.push(Rhs::Lit(*l));
                v.extend(shrink_cond(c).into_iter().map(|c2| Rhs::And(c2, *l)));
                v.extend(lits(l).into_iter().map(|l2| Rhs::And(c.clone(), l2)));
            }
            Rhs::AndOr(c, l1, l2) | Rhs::PAndOr(c, l1, l2) => {
                let mk = |c: Cond, a: Lit, b: Lit| if matches!(self, Rhs::AndOr(..)) { Rhs::AndOr(c, a, b) } else { Rhs::PAndOr(c, a, b) };
                if let Rhs::PAndOr(..) = self {
                    v.push(Rhs::AndOr(c.clone(), *l1, *l2));
                }
                v.push(Rhs::Lit(*l1));
                v.push(Rhs::Lit(*l2));
                v.push(Rhs::And(c.clone(), *l1));
                v.extend(shrink_cond(c).into_iter().map(|c2| mk(c2, *l1, *l2)));
                v.extend(lits(l1).into_iter().map(|l| mk(c.clone(), l, *l2)));
                v.extend(lits(l2).into_iter().map(|l| mk(c.clone(), *l1, l)));
            }
            Rhs::OrOr(y, z, l) => {
                v.push(Rhs::Or(*y, *l));
                v.push(Rhs::Or(*z, *l));
                v.extend(lits(l).into_iter().map(|l2| Rhs::OrOr(*y, *z, l2)));
                v.extend((0..*y).map(|y2| Rhs::OrOr(y2, *z, *l)));
                v.extend((0..*z).map(|z2| Rhs::OrOr(*y, z2, *l)));
            }
            Rhs::AndPOr(c, y, l) => {
                v.push(Rhs::Or(*y, *l));
                v.push(Rhs::And(c.clone(), *l));
                v.extend(shrink_cond(c).into_iter().map(|c2| Rhs::AndPOr(c2, *y, *l)));
                v.extend(lits(l).into_iter().map(|l2| Rhs::AndPOr(c.clone(), *y, l2)));
                v.extend((0..*y).map(|y2| Rhs::AndPOr(c.clone(), y2, *l)));
            }
            Rhs::OrPAnd(y, c, l) => {
                v.push(Rhs::Or(*y, *l));
                v.push(Rhs::And(c.clone(), *l));
                v.extend(shrink_cond(c).into_iter().map(|c2| Rhs::OrPAnd(*y, c2, *l)));
                v.extend(lits(l).into_iter().map(|l2| Rhs::OrPAnd(*y, c.clone(), l2)));
                v.extend((0..*y).map(|y2| Rhs::OrPAnd(y2, c.clone(), *l)));
            }
        }
        v
    }
}

/// one canonical spelling per statement: the classic forms keep their dedicated variants
pub fn norm(s: FSt) -> FSt {
    match s {
        FSt::Set(false, x, Rhs::Lit(l)) => FSt::Assign(x, l),
        FSt::Set(false, x, Rhs::Or(y, l)) if x == y => FSt::OrAssign(x, l),
        FSt::Set(false, x, Rhs::AndOr(c, l1, l2)) => FSt::AndOr(x, c, l1, l2),
        s => s,
    }
}

#[derive(Clone, Debug, PartialEq, Eq, Hash)]
pub enum FSt {
    /// `[local] x = R` for the right-hand sides of `Rhs` (the classic forms below stay as they are)
    Set(bool, u8, Rhs),
    /// `x = lit`
    Assign(u8, Lit),
    /// `if c then B end`
    If(Cond, Vec<FSt>),
    /// `if c then B else B end`
    IfElse(Cond, Vec<FSt>, Vec<FSt>),
    /// `if c then return end`
    IfReturn(Cond),
    /// `x = x or lit`
    OrAssign(u8, Lit),
    /// `x = c and lit or lit`
    AndOr(u8, Cond, Lit, Lit),
    /// `while c do B end`
    While(Cond, Vec<FSt>),
    /// `repeat B until c`
    Repeat(Vec<FSt>, Cond),
    /// `for i = 1, N do B end`
    ForNum(u8, Vec<FSt>),
    /// `for _ in ITER() do B end`
    ForIn(Vec<FSt>),
    /// `if c then break end` (inside loops only)
    IfBreak(Cond),
}
pub type FBlock = Vec<FSt>;

impl FSt {
    pub fn blocks(&self) -> Vec<&FBlock> {
        match self {
            FSt::If(_, b) | FSt::While(_, b) | FSt::Repeat(b, _) | FSt::ForNum(_, b) | FSt::ForIn(b) => vec![b],
            FSt::IfElse(_, b1, b2) => vec![b1, b2],
            _ => vec![],
        }
    }
    pub fn blocks_mut(&mut self) -> Vec<&mut FBlock> {
        match self {
            FSt::If(_, b) | FSt::While(_, b) | FSt::Repeat(b, _) | FSt::ForNum(_, b) | FSt::ForIn(b) => vec![b],
            FSt::IfElse(_, b1, b2) => vec![b1, b2],
            _ => vec![],
        }
    }
    pub fn size(&self) -> usize {
        1 + self.blocks().iter().map(|b| fblock_size(b)).sum::<usize>()
    }
    pub fn is_loop(&self) -> bool {
        matches!(self, FSt::While(..) | FSt::Repeat(..) | FSt::ForNum(..) | FSt::ForIn(..))
    }
    fn cond(&self) -> Option<&Cond> {
        match self {
            FSt::If(c, _) | FSt::IfElse(c, _, _) | FSt::IfReturn(c) | FSt::AndOr(_, c, _, _) | FSt::While(c, _) | FSt::Repeat(_, c) | FSt::IfBreak(c) => Some(c),
            FSt::Set(_, _, r) => r.cond(),
            _ => None,
        }
    }
}
pub fn fblock_size(b: &[FSt]) -> usize {
    b.iter().map(|s| s.size()).sum()
}
pub fn has_loop(b: &[FSt]) -> bool {
    b.iter().any(|s| s.is_loop() || s.blocks().iter().any(|x| has_loop(x)))
}
pub fn has_forin(b: &[FSt]) -> bool {
    b.iter().any(|s| matches!(s, FSt::ForIn(_)) || s.blocks().iter().any(|x| has_forin(x)))
}
/// `break` only inside a loop
pub fn fvalid(b: &[FSt], in_loop: bool) -> bool {
    b.iter().all(|s| match s {
        FSt::IfBreak(_) => in_loop,
        s => {
            let inner = in_loop || s.is_loop();
            s.blocks().iter().all(|x| fvalid(x, inner))
        }
    })
}
pub fn vars_used(b: &[FSt], out: &mut [bool; 2]) {
    for s in b {
        match s {
            FSt::Assign(v, _) | FSt::OrAssign(v, _) | FSt::AndOr(v, _, _, _) => out[*v as usize] = true,
            FSt::Set(_, v, r) => {
                out[*v as usize] = true;
                r.vars(out);
            }
            _ => {}
        }
        if let Some(c) = s.cond() {
            c.vars(out);
        }
        for x in s.blocks() {
            vars_used(x, out);
        }
    }
}

// ------------------------------------------------------------------ rendering

#[derive(Clone, Debug)]
pub struct Probe {
    pub idx: usize,
    pub var: u8,
    /// inside the body of some loop (C41 judges only probes outside loop bodies)
    pub in_loop: bool,
}
#[derive(Clone, Debug, Default)]
pub struct FRendered {
    pub text: String,
    pub probes: Vec<Probe>,
    /// locals declared by the header (`a` always, `b` if used)
    pub nvars: usize,
}

struct FR {
    out: FRendered,
    nvars: usize,
}
impl FR {
    fn probes(&mut self, in_loop: bool) {
        for v in 0..self.nvars {
            let idx = self.out.probes.len();
            let _ = writeln!(self.out.text, "P({idx}, {})", VARS[v]);
            self.out.probes.push(Probe { idx, var: v as u8, in_loop });
        }
    }
    fn block(&mut self, b: &[FSt], in_loop: bool) {
        self.probes(in_loop);
        for s in b {
            self.stat(s, in_loop);
            self.probes(in_loop);
        }
    }
    fn stat(&mut self, s: &FSt, in_loop: bool) {
        let t = &mut self.out.text;
        match s {
            FSt::Assign(v, l) => {
                let _ = writeln!(t, "{} = {}", VARS[*v as usize], l.text());
            }
            FSt::Set(local, v, r) => {
                let _ = writeln!(t, "{}{} = {}", if *local { "local " } else { "" }, VARS[*v as usize], r.text());
            }
            FSt::OrAssign(v, l) => {
                let _ = writeln!(t, "{0} = {0} or {1}", VARS[*v as usize], l.text());
            }
            FSt::AndOr(v, c, l1, l2) => {
                let ct = if c.is_logic() { format!("({})", c.text()) } else { c.text() };
                let _ = writeln!(t, "{} = {} and {} or {}", VARS[*v as usize], ct, l1.text(), l2.text());
            }
            FSt::IfReturn(c) => {
                let _ = writeln!(t, "if {} then return end", c.text());
            }
            FSt::IfBreak(c) => {
                let _ = writeln!(t, "if {} then break end", c.text());
            }
            FSt::If(c, b) => {
                let _ = writeln!(t, "if {} then", c.text());
                self.block(b, in_loop);
                self.out.text.push_str("end\n");
            }
            FSt::IfElse(c, b1, b2) => {
                let _ = writeln!(t, "if {} then", c.text());
                self.block(b1, in_loop);
                self.out.text.push_str("else\n");
                self.block(b2, in_loop);
                self.out.text.push_str("end\n");
            }
            FSt::While(c, b) => {
                let _ = writeln!(t, "while {} do", c.text());
                self.block(b, true);
                self.out.text.push_str("end\n");
            }
            FSt::Repeat(b, c) => {
                t.push_str("repeat\n");
                self.block(b, true);
                let _ = writeln!(self.out.text, "until {}", c.text());
            }
            FSt::ForNum(n, b) => {
                let _ = writeln!(t, "for i = 1, {n} do");
                self.block(b, true);
                self.out.text.push_str("end\n");
            }
            FSt::ForIn(b) => {
                t.push_str("for _ in ITER() do\n");
                self.block(b, true);
                self.out.text.push_str("end\n");
            }
        }
    }
}

pub fn frender(prog: &[FSt]) -> FRendered {
    let mut used = [true, false];
    vars_used(prog, &mut used);
    let nvars = if used[1] { 2 } else { 1 };
    let mut r = FR { out: FRendered::default(), nvars };
    for v in 0..nvars {
        let _ = writeln!(r.out.text, "local {} = IN()", VARS[v]);
    }
    r.block(prog, false);
    r.out.nvars = nvars;
    r.out
}

// ------------------------------------------------------------------ alphabets and enumeration

#[derive(Clone, Debug)]
pub struct FAlphabet {
    pub label: String,
    pub conds: Vec<Cond>,
    /// literals on the right of `x = lit`
    pub lits: Vec<Lit>,
    /// literals in `x = x or lit`
    pub or_lits: Vec<Lit>,
    /// (lit, lit) pairs of `x = c and lit or lit`
    pub andor: Vec<(Lit, Lit)>,
    /// conditions usable in `x = c and l or l`
    pub andor_conds: Vec<Cond>,
    pub vars: Vec<u8>,
    /// conditions inside the extended right-hand sides (empty = no extended forms)
    pub rhs_conds: Vec<Cond>,
    /// literals in every operand position of the extended right-hand sides
    pub rhs_lits: Vec<Lit>,
    pub if_return: bool,
    /// loop forms: while / repeat conditions (empty = no loops at all)
    pub loop_conds: Vec<Cond>,
    pub for_counts: Vec<u8>,
    pub for_in: bool,
    pub break_conds: Vec<Cond>,
}

pub fn atoms(v: u8) -> Vec<Cond> {
    let mut c = vec![Cond::Truthy(v), Cond::EqNil(v), Cond::NeNil(v)];
    for t in TYS {
        c.push(Cond::TypeEq(v, t));
    }
    for t in TYS {
        c.push(Cond::TypeNe(v, t));
    }
    for l in [Lit::True, Lit::False, Lit::One, Lit::Str] {
        c.push(Cond::EqLit(v, l));
    }
    c
}
pub fn core_atoms(v: u8) -> Vec<Cond> {
    vec![Cond::Truthy(v), Cond::EqNil(v), Cond::TypeEq(v, Ty::String), Cond::TypeNe(v, Ty::Nil), Cond::EqLit(v, Lit::False)]
}
fn not(c: &Cond) -> Cond {
    Cond::Not(Box::new(c.clone()))
}
/// every atom, every negated atom, and/or of (possibly negated) core atoms, negated and/or of core atoms
pub fn conds_full(v: u8) -> Vec<Cond> {
    let mut out = atoms(v);
    out.extend(atoms(v).iter().map(not));
    let k = core_atoms(v);
    let mut kk = k.clone();
    kk.extend(k.iter().map(not));
    for l in &kk {
        for r in &kk {
            out.push(Cond::And(Box::new(l.clone()), Box::new(r.clone())));
            out.push(Cond::Or(Box::new(l.clone()), Box::new(r.clone())));
        }
    }
    for l in &k {
        for r in &k {
            out.push(not(&Cond::And(Box::new(l.clone()), Box::new(r.clone()))));
            out.push(not(&Cond::Or(Box::new(l.clone()), Box::new(r.clone()))));
        }
    }
    out
}
pub fn conds_core(v: u8) -> Vec<Cond> {
    vec![
        Cond::Truthy(v),
        not(&Cond::Truthy(v)),
        Cond::EqNil(v),
        Cond::NeNil(v),
        Cond::TypeEq(v, Ty::String),
        Cond::TypeNe(v, Ty::String),
        Cond::EqLit(v, Lit::False),
        Cond::And(Box::new(Cond::Truthy(v)), Box::new(Cond::TypeNe(v, Ty::Number))),
        Cond::Or(Box::new(Cond::EqNil(v)), Box::new(Cond::TypeEq(v, Ty::Table))),
    ]
}

#[derive(Clone, Debug)]
enum FHdr {
    If(Cond),
    IfElse(Cond),
    While(Cond),
    Repeat(Cond),
    ForNum(u8),
    ForIn,
}
impl FHdr {
    fn fill(&self, b: FBlock, b2: FBlock) -> FSt {
        match self.clone() {
            FHdr::If(c) => FSt::If(c, b),
            FHdr::IfElse(c) => FSt::IfElse(c, b, b2),
            FHdr::While(c) => FSt::While(c, b),
            FHdr::Repeat(c) => FSt::Repeat(b, c),
            FHdr::ForNum(n) => FSt::ForNum(n, b),
            FHdr::ForIn => FSt::ForIn(b),
        }
    }
    fn is_loop(&self) -> bool {
        !matches!(self, FHdr::If(_) | FHdr::IfElse(_))
    }
}

fn fleaves(a: &FAlphabet, in_loop: bool) -> Vec<FSt> {
    let mut v = Vec::new();
    for &x in &a.vars {
        for &l in &a.lits {
            v.push(FSt::Assign(x, l));
        }
        for &l in &a.or_lits {
            v.push(FSt::OrAssign(x, l));
        }
        for c in &a.andor_conds {
            for &(l1, l2) in &a.andor {
                v.push(FSt::AndOr(x, c.clone(), l1, l2));
            }
        }
    }
    if !a.rhs_conds.is_empty() {
        for &x in &a.vars {
            let mut forms: Vec<Rhs> = Vec::new();
            for &l in &a.rhs_lits {
                forms.push(Rhs::Lit(l));
                for c in &a.rhs_conds {
                    forms.push(Rhs::And(c.clone(), l));
                    for &l2 in &a.rhs_lits {
                        forms.push(Rhs::AndOr(c.clone(), l, l2));
                        forms.push(Rhs::PAndOr(c.clone(), l, l2));
                    }
                }
                // the variable operand ranges over every local (with one local: x itself)
                for &y in &a.vars {
                    forms.push(Rhs::Or(y, l));
                    forms.push(Rhs::OrOr(y, y, l));
                    for c in &a.rhs_conds {
                        forms.push(Rhs::AndPOr(c.clone(), y, l));
                        forms.push(Rhs::OrPAnd(y, c.clone(), l));
                    }
                }
            }
            for local in [false, true] {
                for r in &forms {
                    let st = norm(FSt::Set(local, x, r.clone()));
                    // the classic reassignment forms are produced above from lits / or_lits / andor
                    if matches!(st, FSt::Set(..)) {
                        v.push(st);
                    }
                }
            }
        }
    }
    if a.if_return {
        for c in &a.conds {
            v.push(FSt::IfReturn(c.clone()));
        }
    }
    if in_loop {
        for c in &a.break_conds {
            v.push(FSt::IfBreak(c.clone()));
        }
    }
    v
}
fn fheaders(a: &FAlphabet) -> Vec<FHdr> {
    let mut v = Vec::new();
    for c in &a.conds {
        v.push(FHdr::If(c.clone()));
        v.push(FHdr::IfElse(c.clone()));
    }
    for c in &a.loop_conds {
        v.push(FHdr::While(c.clone()));
        v.push(FHdr::Repeat(c.clone()));
    }
    for &n in &a.for_counts {
        v.push(FHdr::ForNum(n));
    }
    if a.for_in {
        v.push(FHdr::ForIn);
    }
    v
}

struct FTables {
    st: Vec<Vec<Vec<FSt>>>,
    bl: Vec<Vec<Vec<FBlock>>>,
}

fn fbuild(a: &FAlphabet, in_loop: bool, max_depth: usize, max_size: usize, looped: Option<&FTables>) -> FTables {
    let lv = fleaves(a, in_loop);
    let hd = fheaders(a);
    let mut t = FTables { st: vec![], bl: vec![] };
    for d in 0..=max_depth {
        let mut sd: Vec<Vec<FSt>> = vec![vec![]];
        let mut bd: Vec<Vec<FBlock>> = vec![vec![vec![]]];
        for k in 1..=max_size {
            let mut sk: Vec<FSt> = Vec::new();
            if k == 1 {
                sk.extend(lv.iter().cloned());
                for h in &hd {
                    sk.push(h.fill(vec![], vec![]));
                }
            } else if d >= 1 {
                for h in &hd {
                    let inner: &Vec<Vec<FBlock>> = match (h.is_loop(), looped) {
                        (true, Some(m)) => &m.bl[d - 1],
                        _ => &t.bl[d - 1],
                    };
                    if let FHdr::IfElse(_) = h {
                        for i in 0..k {
                            for b1 in &inner[i] {
                                for b2 in &inner[k - 1 - i] {
                                    sk.push(h.fill(b1.clone(), b2.clone()));
                                }
                            }
                        }
                    } else {
                        for b in &inner[k - 1] {
                            sk.push(h.fill(b.clone(), vec![]));
                        }
                    }
                }
            }
            sd.push(sk);
            let mut bk: Vec<FBlock> = Vec::new();
            for j in 1..=k {
                for s in &sd[j] {
                    for rest in &bd[k - j] {
                        let mut b = Vec::with_capacity(1 + rest.len());
                        b.push(s.clone());
                        b.extend(rest.iter().cloned());
                        bk.push(b);
                    }
                }
            }
            bd.push(bk);
        }
        t.st.push(sd);
        t.bl.push(bd);
    }
    t
}

pub struct FSpace {
    pub n: usize,
    depth: usize,
    normal: FTables,
    looped: FTables,
    hdrs: Vec<FHdr>,
    segs: Vec<(u64, FSeg)>,
    pub total: u64,
}
#[derive(Clone, Debug)]
enum FSeg {
    Seq(usize),
    Single,
    Nest(usize),
    NestIfElse(usize, usize),
}

impl FSpace {
    pub fn new(alpha: FAlphabet, depth: usize, n: usize) -> FSpace {
        let inner = n.saturating_sub(1).max(1);
        let looped = fbuild(&alpha, true, depth, inner, None);
        let normal = fbuild(&alpha, false, depth, inner, Some(&looped));
        let hdrs = fheaders(&alpha);
        let mut segs = Vec::new();
        if n == 1 {
            segs.push((normal.st[depth][1].len() as u64, FSeg::Single));
        } else {
            for j in 1..n {
                segs.push(((normal.st[depth][j].len() * normal.bl[depth][n - j].len()) as u64, FSeg::Seq(j)));
            }
            if depth >= 1 {
                for (hi, h) in hdrs.iter().enumerate() {
                    let inner: &Vec<Vec<FBlock>> = if h.is_loop() { &looped.bl[depth - 1] } else { &normal.bl[depth - 1] };
                    if let FHdr::IfElse(_) = h {
                        for i in 0..n {
                            segs.push(((inner[i].len() * inner[n - 1 - i].len()) as u64, FSeg::NestIfElse(hi, i)));
                        }
                    } else {
                        segs.push((inner[n - 1].len() as u64, FSeg::Nest(hi)));
                    }
                }
            }
        }
        let total = segs.iter().map(|s| s.0).sum();
        FSpace { n, depth, normal, looped, hdrs, segs, total }
    }

    pub fn program(&self, mut idx: u64) -> FBlock {
        let d = self.depth;
        for (cnt, seg) in &self.segs {
            if idx >= *cnt {
                idx -= cnt;
                continue;
            }
            return match seg {
                FSeg::Single => vec![self.normal.st[d][1][idx as usize].clone()],
                FSeg::Seq(j) => {
                    let rests = &self.normal.bl[d][self.n - j];
                    let fi = (idx / rests.len() as u64) as usize;
                    let ri = (idx % rests.len() as u64) as usize;
                    let mut b = vec![self.normal.st[d][*j][fi].clone()];
                    b.extend(rests[ri].iter().cloned());
                    b
                }
                FSeg::Nest(hi) => {
                    let h = &self.hdrs[*hi];
                    let inner = if h.is_loop() { &self.looped.bl[d - 1] } else { &self.normal.bl[d - 1] };
                    vec![h.fill(inner[self.n - 1][idx as usize].clone(), vec![])]
                }
                FSeg::NestIfElse(hi, i) => {
                    let inner = &self.normal.bl[d - 1];
                    let n2 = inner[self.n - 1 - i].len() as u64;
                    vec![self.hdrs[*hi].fill(inner[*i][(idx / n2) as usize].clone(), inner[self.n - 1 - i][(idx % n2) as usize].clone())]
                }
            };
        }
        panic!("program index out of range")
    }
}

// ------------------------------------------------------------------ shrinking

fn shrink_cond(c: &Cond) -> Vec<Cond> {
    let mut v = Vec::new();
    match c {
        Cond::Truthy(x) => {
            for n in 0..*x {
                v.push(Cond::Truthy(n));
            }
        }
        Cond::EqNil(x) | Cond::NeNil(x) | Cond::TypeEq(x, _) | Cond::TypeNe(x, _) | Cond::EqLit(x, _) => {
            v.push(Cond::Truthy(*x));
            match c {
                Cond::NeNil(x) => v.push(Cond::EqNil(*x)),
                Cond::TypeEq(x, t) => {
                    v.push(Cond::EqNil(*x));
                    for t2 in TYS.iter().filter(|t2| *t2 < t) {
                        v.push(Cond::TypeEq(*x, *t2));
                    }
                }
                Cond::TypeNe(x, t) => {
                    v.push(Cond::TypeEq(*x, *t));
                    for t2 in TYS.iter().filter(|t2| *t2 < t) {
                        v.push(Cond::TypeNe(*x, *t2));
                    }
                }
                Cond::EqLit(x, l) => {
                    v.push(Cond::EqNil(*x));
                    for l2 in LITS.iter().filter(|l2| *l2 < l && **l2 != Lit::Nil) {
                        v.push(Cond::EqLit(*x, *l2));
                    }
                }
                _ => {}
            }
            // the same test on the other variable
            if *x == 1 {
                let mut c2 = c.clone();
                match &mut c2 {
                    Cond::EqNil(y) | Cond::NeNil(y) | Cond::TypeEq(y, _) | Cond::TypeNe(y, _) | Cond::EqLit(y, _) => *y = 0,
                    _ => {}
                }
                v.push(c2);
            }
        }
        Cond::Not(i) => {
            v.push((**i).clone());
            for i2 in shrink_cond(i) {
                v.push(Cond::Not(Box::new(i2)));
            }
        }
        Cond::And(l, r) | Cond::Or(l, r) => {
            v.push((**l).clone());
            v.push((**r).clone());
            let mk = |l: Cond, r: Cond| if matches!(c, Cond::And(..)) { Cond::And(Box::new(l), Box::new(r)) } else { Cond::Or(Box::new(l), Box::new(r)) };
            for l2 in shrink_cond(l) {
                v.push(mk(l2, (**r).clone()));
            }
            for r2 in shrink_cond(r) {
                v.push(mk((**l).clone(), r2));
            }
        }
    }
    // lateral moves towards three canonical tests of the same variable(s); the caller keeps only
    // candidates that are smaller in (size, text) order, so this cannot cycle
    let mut used = [false, false];
    c.vars(&mut used);
    for x in 0..2u8 {
        if used[x as usize] {
            v.push(Cond::Truthy(x));
            v.push(Cond::Not(Box::new(Cond::Truthy(x))));
            v.push(Cond::EqNil(x));
        }
    }
    v.retain(|x| x != c);
    v
}
fn lower_lits(l: Lit) -> Vec<Lit> {
    LITS.iter().copied().filter(|x| *x < l).collect()
}

fn shrink_fstat(s: &FSt) -> Vec<FSt> {
    let mut v = Vec::new();
    match s {
        FSt::Assign(x, l) => {
            for l2 in lower_lits(*l) {
                v.push(FSt::Assign(*x, l2));
            }
            if *x == 1 {
                v.push(FSt::Assign(0, *l));
            }
        }
        FSt::Set(local, x, r) => {
            if *local {
                v.push(norm(FSt::Set(false, *x, r.clone())));
            }
            for r2 in r.shrinks() {
                v.push(norm(FSt::Set(*local, *x, r2)));
            }
            if *x == 1 {
                v.push(norm(FSt::Set(*local, 0, r.clone())));
            }
        }
        FSt::OrAssign(x, l) => {
            v.push(FSt::Assign(*x, *l));
            for l2 in lower_lits(*l) {
                v.push(FSt::OrAssign(*x, l2));
            }
            if *x == 1 {
                v.push(FSt::OrAssign(0, *l));
            }
        }
        FSt::AndOr(x, c, l1, l2) => {
            v.push(FSt::Assign(*x, *l1));
            v.push(FSt::Assign(*x, *l2));
            v.push(FSt::OrAssign(*x, *l2));
            for c2 in shrink_cond(c) {
                v.push(FSt::AndOr(*x, c2, *l1, *l2));
            }
            for l in lower_lits(*l1) {
                v.push(FSt::AndOr(*x, c.clone(), l, *l2));
            }
            for l in lower_lits(*l2) {
                v.push(FSt::AndOr(*x, c.clone(), *l1, l));
            }
            if *x == 1 {
                v.push(FSt::AndOr(0, c.clone(), *l1, *l2));
            }
        }
        FSt::IfReturn(c) => {
            for c2 in shrink_cond(c) {
                v.push(FSt::IfReturn(c2));
            }
        }
        FSt::IfBreak(c) => {
            for c2 in shrink_cond(c) {
                v.push(FSt::IfBreak(c2));
            }
        }
        FSt::If(c, b) => {
            for c2 in shrink_cond(c) {
                v.push(FSt::If(c2, b.clone()));
            }
        }
        FSt::IfElse(c, b1, b2) => {
            v.push(FSt::If(c.clone(), b1.clone()));
            v.push(FSt::If(Cond::Not(Box::new(c.clone())), b2.clone()));
            for c2 in shrink_cond(c) {
                v.push(FSt::IfElse(c2, b1.clone(), b2.clone()));
            }
        }
        FSt::While(c, b) => {
            v.push(FSt::If(c.clone(), b.clone()));
            for c2 in shrink_cond(c) {
                v.push(FSt::While(c2, b.clone()));
            }
        }
        FSt::Repeat(b, c) => {
            for c2 in shrink_cond(c) {
                v.push(FSt::Repeat(b.clone(), c2));
            }
        }
        FSt::ForNum(n, b) => {
            for n2 in 0..*n {
                v.push(FSt::ForNum(n2, b.clone()));
            }
        }
        FSt::ForIn(b) => {
            v.push(FSt::ForNum(2, b.clone()));
        }
    }
    v
}

fn shrink_fblock(b: &FBlock, emit: &mut dyn FnMut(FBlock)) {
    for i in 0..b.len() {
        let mut c = b.clone();
        c.remove(i);
        emit(c);
        for body in b[i].blocks() {
            let mut c = b.clone();
            c.splice(i..=i, body.iter().cloned());
            emit(c);
        }
        for s in shrink_fstat(&b[i]) {
            let mut c = b.clone();
            c[i] = s;
            emit(c);
        }
        // `if c then B end` -> `if not c then return end; B` and `if c then B end` -> `if c then return end`
        // (the same facts observed on the fall-through path; lets witnesses of one cause meet)
        if let FSt::If(c, body) | FSt::IfElse(c, body, _) = &b[i] {
            let neg = match c {
                Cond::Not(inner) => (**inner).clone(),
                c => Cond::Not(Box::new(c.clone())),
            };
            let mut c1 = b.clone();
            let mut rep = vec![FSt::IfReturn(neg)];
            rep.extend(body.iter().cloned());
            c1.splice(i..=i, rep);
            emit(c1);
            let mut c2 = b.clone();
            c2[i] = FSt::IfReturn(c.clone());
            emit(c2);
        }
        // replace statement i by a plain assignment, optionally keeping its (first) body
        if !matches!(b[i], FSt::Assign(..)) {
            let mut used = [false, false];
            vars_used(std::slice::from_ref(&b[i]), &mut used);
            for x in 0..2u8 {
                if !used[x as usize] {
                    continue;
                }
                for l in LITS {
                    let mut c = b.clone();
                    c[i] = FSt::Assign(x, l);
                    emit(c);
                    for body in b[i].blocks() {
                        if body.is_empty() {
                            continue;
                        }
                        let mut c = b.clone();
                        let mut rep = vec![FSt::Assign(x, l)];
                        rep.extend(body.iter().cloned());
                        c.splice(i..=i, rep);
                        emit(c);
                    }
                }
            }
        }
        let nb = b[i].blocks().len();
        for bi in 0..nb {
            let inner = b[i].blocks()[bi].clone();
            shrink_fblock(&inner, &mut |nbk| {
                let mut c = b.clone();
                *c[i].blocks_mut()[bi] = nbk;
                emit(c);
            });
        }
    }
}

fn map_cond(c: &Cond, f: &dyn Fn(u8) -> u8) -> Cond {
    match c {
        Cond::Truthy(x) => Cond::Truthy(f(*x)),
        Cond::EqNil(x) => Cond::EqNil(f(*x)),
        Cond::NeNil(x) => Cond::NeNil(f(*x)),
        Cond::TypeEq(x, t) => Cond::TypeEq(f(*x), *t),
        Cond::TypeNe(x, t) => Cond::TypeNe(f(*x), *t),
        Cond::EqLit(x, l) => Cond::EqLit(f(*x), *l),
        Cond::Not(i) => Cond::Not(Box::new(map_cond(i, f))),
        Cond::And(l, r) => Cond::And(Box::new(map_cond(l, f)), Box::new(map_cond(r, f))),
        Cond::Or(l, r) => Cond::Or(Box::new(map_cond(l, f)), Box::new(map_cond(r, f))),
    }
}
/// rename the locals everywhere
pub fn map_vars(b: &FBlock, f: &dyn Fn(u8) -> u8) -> FBlock {
    b.iter()
        .map(|s| match s {
            FSt::Assign(x, l) => FSt::Assign(f(*x), *l),
            FSt::Set(local, x, r) => norm(FSt::Set(*local, f(*x), r.map(f))),
            FSt::OrAssign(x, l) => FSt::OrAssign(f(*x), *l),
            FSt::AndOr(x, c, l1, l2) => FSt::AndOr(f(*x), map_cond(c, f), *l1, *l2),
            FSt::IfReturn(c) => FSt::IfReturn(map_cond(c, f)),
            FSt::IfBreak(c) => FSt::IfBreak(map_cond(c, f)),
            FSt::If(c, b) => FSt::If(map_cond(c, f), map_vars(b, f)),
            FSt::IfElse(c, b1, b2) => FSt::IfElse(map_cond(c, f), map_vars(b1, f), map_vars(b2, f)),
            FSt::While(c, b) => FSt::While(map_cond(c, f), map_vars(b, f)),
            FSt::Repeat(b, c) => FSt::Repeat(map_vars(b, f), map_cond(c, f)),
            FSt::ForNum(n, b) => FSt::ForNum(*n, map_vars(b, f)),
            FSt::ForIn(b) => FSt::ForIn(map_vars(b, f)),
        })
        .collect()
}

pub fn fshrinks(p: &FBlock) -> Vec<FBlock> {
    let mut out = Vec::new();
    shrink_fblock(p, &mut |b| out.push(b));
    out.push(map_vars(p, &|_| 0));
    out.push(map_vars(p, &|x| 1 - x));
    out.retain(|b| fvalid(b, false) && b != p);
    out
}
